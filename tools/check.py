#!/usr/bin/env python3
"""Entry point of every registered check:   tools/check.py Cxx [--tier quick|thorough]
                                            tools/check.py --replay <file>

One run of a property's check (DESIGN.md section 7):
  1. T1: regenerate coq/theories/Generated.v from /repo's working tree
  2. build the property's theorems (make theories/props/Cxx.vo, full .vo build) and the
     extracted model; proof hygiene (no Admitted/Axiom/...; Print Assumptions allow-list)
  3. rebuild the Rust harness against /repo's working tree (hooks on)
  4. correspondence: corpus + seeded generators of the property's families through the
     implementation and through the extracted model; compare the property's projection;
     apply the property's intrinsic oracles to the implementation's traces
  5. write evidence/Cxx.json ; exit 0, or print VIOLATION ... and exit 1
"""
import contextlib, fcntl, hashlib, json, os, re, subprocess, sys, time

ROOT = os.path.abspath(os.path.join(os.path.dirname(os.path.abspath(__file__)), ".."))
sys.path.insert(0, os.path.join(ROOT, "tools"))
import runner, gen, families  # noqa: E402

WORK = os.path.join(ROOT, ".work")
COQ = os.path.join(ROOT, "coq")
REPO = runner.REPO
# sections of GeneratedTables.v whose pin lemmas (proofs/TablesProof.v) a property file exports
T1_SECTIONS = {
    "C03": ["expected_check"],
    "C07": ["bit_mask"],
    "C08": ["precedence", "is_binary_op", "binop_of_token", "unop_of_token", "func_table", "binop_eval", "unop_eval"],
    "C09": ["regexes", "header_regexes", "keywords", "punct"],
    "C20": ["regexes", "header_regexes", "keywords", "punct"],
}
ALLOWED_AXIOMS = set()   # target: every property theorem closed under the global context


@contextlib.contextmanager
def locked(name):
    os.makedirs(WORK, exist_ok=True)
    f = open(os.path.join(WORK, name + ".lock"), "w")
    fcntl.flock(f, fcntl.LOCK_EX)
    try:
        yield
    finally:
        fcntl.flock(f, fcntl.LOCK_UN)
        f.close()


def sh(cmd, timeout=None, cwd=None):
    return runner.sh(cmd, timeout=timeout, cwd=cwd)


# ------------------------------------------------------------------ build steps

def step_tables():
    rc, out = sh([sys.executable, os.path.join(ROOT, "tools", "gen_tables.py")], timeout=120)
    return rc == 0, out


def ensure_makefile():
    mk = os.path.join(COQ, "Makefile")
    cp = os.path.join(COQ, "_CoqProject")
    if not os.path.exists(mk) or os.path.getmtime(mk) < os.path.getmtime(cp):
        sh("coq_makefile -f _CoqProject -o Makefile", timeout=120, cwd=COQ)


def step_coq(prop, timeout=1500):
    """build props/<prop>.vo and the extraction; returns (ok, log)"""
    with locked("coq"):
        ensure_makefile()
        targets = "theories/Extract.vo"
        pf = os.path.join(COQ, "theories", "props", prop + ".v")
        if os.path.exists(pf):
            targets = "theories/props/%s.vo " % prop + targets
        try:
            rc, out = sh("make -j16 " + targets, timeout=timeout, cwd=COQ)
        except subprocess.TimeoutExpired:
            return False, "coq build timed out"
        if rc == 0:
            rc2, out2 = step_ocaml()
            if rc2 != 0:
                return False, out + "\n" + out2
        return rc == 0, out


def step_ocaml():
    ex = os.path.join(ROOT, "ocaml", "extracted", "model.ml")
    binp = runner.model_bin()
    src = os.path.join(ROOT, "ocaml", "model_run.ml")
    if os.path.exists(binp) and os.path.getmtime(binp) >= max(os.path.getmtime(ex), os.path.getmtime(src)):
        return 0, ""
    return sh([os.path.join(ROOT, "ocaml", "build.sh")], timeout=600)


def prop_theorems(prop):
    pf = os.path.join(COQ, "theories", "props", prop + ".v")
    if not os.path.exists(pf):
        return []
    txt = open(pf).read()
    txt = re.sub(r"\(\*.*?\*\)", "", txt, flags=re.S)
    return re.findall(r"^\s*(?:Theorem|Corollary)\s+([A-Za-z0-9_']+)", txt, re.M)


def step_assumptions(prop):
    """Print Assumptions for every theorem of props/<prop>.v -> (dict name -> 'closed'|[axioms]), log"""
    names = prop_theorems(prop)
    if not names:
        return {}, ""
    os.makedirs(WORK, exist_ok=True)
    f = os.path.join(WORK, "assume_%s.v" % prop)
    with open(f, "w") as fh:
        fh.write("From DTR.props Require Import %s.\n" % prop)
        for n in names:
            fh.write('Goal True. idtac "@@ %s". Abort.\nPrint Assumptions %s.\n' % (n, n))
    with locked("coq"):
        rc, out = sh(["coqc", "-noglob", "-Q", os.path.join(COQ, "theories"), "DTR", f], timeout=600, cwd=WORK)
    res = {}
    if rc != 0:
        return {n: ["<Print Assumptions failed>"] for n in names}, out
    chunks = out.split("@@ ")[1:]
    for ch in chunks:
        name, _, rest = ch.partition("\n")
        name = name.strip()
        if "Closed under the global context" in rest:
            res[name] = "closed"
        else:
            axs = re.findall(r"^([A-Za-z0-9_.']+)\s*:", rest, re.M)
            res[name] = axs or ["<unparsed>"]
    for n in names:
        res.setdefault(n, ["<missing>"])
    return res, out


HYGIENE_RE = re.compile(r"\b(Admitted|admit|Axiom|Axioms|Parameter|Parameters|Conjecture|Hypothesis|Hypotheses|Abort All"
                        r"|Unset\s+Guard\s+Checking|Unset\s+Positivity|Unset\s+Universe|bypass_check|type-in-type|Admit\s+Obligations)\b")


def hygiene():
    """forbidden vernacular anywhere in the development (comments stripped). `Hypothesis` and
    `Variable` are allowed inside a Section only; Hypothesis is flagged when it occurs outside one."""
    problems = []
    for dp, _, fs in os.walk(os.path.join(COQ, "theories")):
        for fn in fs:
            if not fn.endswith(".v"):
                continue
            p = os.path.join(dp, fn)
            txt = re.sub(r"\(\*.*?\*\)", "", open(p, encoding="utf-8").read(), flags=re.S)
            depth = 0
            for ln, line in enumerate(txt.split("\n"), 1):
                if re.match(r"\s*Section\s+\w+", line):
                    depth += 1
                if re.match(r"\s*End\s+\w+", line) and depth > 0:
                    depth -= 1
                for m in HYGIENE_RE.finditer(line):
                    w = m.group(1)
                    if w in ("Hypothesis", "Hypotheses") and depth > 0:
                        continue
                    if w == "admit" and "admit" not in re.findall(r"\badmit\b", line):
                        continue
                    problems.append("%s:%d: %s" % (os.path.relpath(p, ROOT), ln, w))
                if depth == 0 and re.match(r"\s*(Variable|Variables|Context)\b", line):
                    problems.append("%s:%d: Variable outside a section" % (os.path.relpath(p, ROOT), ln))
    cp = open(os.path.join(COQ, "_CoqProject")).read()
    for bad in ("-type-in-type", "-impredicative-set", "-vos", "-vok"):
        if bad in cp:
            problems.append("_CoqProject: " + bad)
    return problems


def step_harness(release=False):
    with locked("cargo"):
        try:
            return runner.build_harness(release=release)
        except subprocess.TimeoutExpired:
            return 1, "cargo build timed out"


# ------------------------------------------------------------------ known findings

def known_findings(prop):
    p = os.path.join(ROOT, "known_findings.json")
    if not os.path.exists(p):
        return []
    data = json.load(open(p))
    return [f for f in data.get("open", []) if f.get("property") == prop]


# ------------------------------------------------------------------ comparison

def case_tags(cfg, c):
    """the projection of a property; .dig documents may add tags of their own (the file's signal list, its tests)"""
    if c.get("kind") == "dig" and cfg.get("dig_tags"):
        return tuple(cfg["tags"]) + tuple(cfg["dig_tags"])
    return cfg["tags"]


def trace_lines(trace, tags):
    out = []
    for tag, rest in trace:
        if tag in tags:
            rest = rest.split(" #")[0].rstrip()
            if tag == "RNG":
                # the draws (bound, value) in order; reseeds are checked by the intrinsic oracle
                rest = " ".join(w for w in rest.split() if w != "R")
            out.append(tag + " " + rest)
    return out


def compare_case(case, itrace, mtrace, tags):
    """None if the projections agree, else a short description"""
    if itrace is None:
        return "implementation produced no trace"
    if mtrace is None:
        return "model produced no trace"
    if any(t == "HANG" for t, _ in itrace):
        if any(t == "END" and r.startswith("oof") for t, r in mtrace) or any(t == "ABORT" for t, _ in mtrace):
            return None
        return "implementation does not terminate (watchdog), model does"
    a = trace_lines(itrace, tags)
    b = trace_lines(mtrace, tags)
    if a == b:
        return None
    for i, (x, y) in enumerate(zip(a, b)):
        if x != y:
            return "projection differs at item %d:\n  impl : %s\n  model: %s" % (i, x[:400], y[:400])
    if len(a) > len(b):
        return "implementation has extra item: %s" % a[len(b)][:400]
    return "model has extra item: %s" % b[len(a)][:400]


def write_replay(prop, seed, n, case, info):
    os.makedirs(os.path.join(ROOT, "replays"), exist_ok=True)
    path = os.path.join(ROOT, "replays", "%s-%d-%d.case" % (prop, seed, n))
    with open(path, "w") as f:
        if case is not None:
            gen.write_case(f, case)
            if "src" in case:
                f.write("# source text:\n")
                for l in case["src"].split("\n"):
                    f.write("#   %s\n" % l.replace("\r", "\\r"))
        for k, v in info.items():
            for l in str(v).split("\n"):
                f.write("# %s: %s\n" % (k, l))
    return path


# ------------------------------------------------------------------ main

def run_check(prop, tier, seed):
    t0 = time.time()
    os.makedirs(WORK, exist_ok=True)
    cfg = families.PROPS[prop]
    rd = os.path.join(ROOT, "replays")
    if os.path.isdir(rd):
        for fn in os.listdir(rd):
            if fn.startswith(prop + "-"):
                os.remove(os.path.join(rd, fn))
    violations = []     # (replay path, has_input)
    notes = []
    ev = {"property_id": prop, "tier": tier, "seed": seed, "level": cfg.get("level", "proof"),
          "coverage": {}, "assumptions": [], "wall_s": 0.0, "violations": 0}
    cov = ev["coverage"]

    # known findings (recorded genuine defects that are not repaired)
    for kf in known_findings(prop):
        print("KNOWN-FINDING: property=%s %s" % (prop, kf.get("what", "")))

    # 1. tables (T1).  Each property uses the pins of certain sections only (T1_SECTIONS).  A section that the
    # translator cannot read any more (a rewrite into a form it does not know) falls back to its reference text:
    # the pin then says nothing about the current source, and the behavioural correspondence - escalated to the
    # thorough case counts - carries the tie of that section alone, as it does for all hand-modelled code.
    ok, out = step_tables()
    t1_status = {}
    try:
        t1_status = json.load(open(os.path.join(WORK, "t1_status.json")))
    except (OSError, ValueError):
        pass
    t1_used = T1_SECTIONS.get(prop, [])
    t1_fallback = [s_ for s_ in t1_used if t1_status.get(s_, "translated") != "translated"]
    cov["t1_sections"] = {s_: t1_status.get(s_, "unknown") for s_ in t1_used}
    case_tier = tier
    if not ok and (t1_used or prop in ("C09", "C20")):
        p = write_replay(prop, seed, 0, None, {"broken": "translator tools/gen_tables.py failed", "log": out[-2000:]})
        violations.append((p, False))
    elif t1_fallback:
        case_tier = "thorough"
        for s_ in t1_fallback:
            print("T1-FALLBACK: property=%s section %s: %s; correspondence escalated to the thorough case counts" % (prop, s_, t1_status[s_]))

    # 2. proofs
    ok, log = step_coq(prop)
    theorems = prop_theorems(prop)
    proof_broken = None
    if not ok:
        m = re.search(r'File "([^"]+)", line (\d+)', log)
        proof_broken = "coq build failed" + (" at %s:%s" % (m.group(1), m.group(2)) if m else "")
        open(os.path.join(WORK, "coq_%s.log" % prop), "w").write(log)
    assum, alog = ({}, "")
    if ok:
        assum, alog = step_assumptions(prop)
    # thorough tier: independent re-check of the property's .vo closure with coqchk
    coqchk_note = None
    if ok and tier == "thorough" and theorems:
        with locked("coq"):
            try:
                rc_c, out_c = sh(["coqchk", "-o", "-silent", "-Q", os.path.join(COQ, "theories"), "DTR", "DTR.props." + prop],
                                 timeout=3000, cwd=COQ)
            except subprocess.TimeoutExpired:
                rc_c, out_c = 1, "coqchk timed out"
        ax = re.search(r"\* Axioms:\s*(.*?)\n\s*\n", out_c + "\n\n", re.S)
        coqchk_note = "rc=%d axioms=%s" % (rc_c, " ".join(ax.group(1).split()) if ax else "?")
        cov["coqchk"] = coqchk_note
        if rc_c != 0 or not ax or "<none>" not in ax.group(1):
            proof_broken = "coqchk did not confirm the closure of props/%s.vo without axioms: %s" % (prop, coqchk_note)
    hyg = hygiene()
    discharged = 0
    bad_axioms = {}
    for n in theorems:
        a = assum.get(n)
        if a == "closed":
            discharged += 1
        elif isinstance(a, list) and all(x in ALLOWED_AXIOMS for x in a):
            discharged += 1
        else:
            bad_axioms[n] = a
    if ok and bad_axioms:
        proof_broken = "theorems with assumptions outside the allow-list: %s" % bad_axioms
    if hyg:
        proof_broken = (proof_broken + "; " if proof_broken else "") + "hygiene: " + "; ".join(hyg[:5])
    cov["obligations"] = max(1, len(theorems))
    cov["discharged"] = discharged if not hyg else 0
    cov["theorems"] = theorems
    cov["checker_cmd"] = "make -C coq theories/props/%s.vo (coqc 8.16.1, full .vo) ; coqc Print Assumptions for each theorem" % prop
    cov["trusted_base"] = cfg.get("trusted_base", []) + families.COMMON_TRUSTED
    cov["print_assumptions"] = {k: (v if v == "closed" else v) for k, v in assum.items()}

    # 2b. audits (T3 panic-site inventory, T4 shared state)
    audit_broken = None
    audit_out = {}
    for a in cfg.get("audits", []):
        rc_a, out_a = sh([sys.executable, os.path.join(ROOT, "tools", a + "_audit.py")], timeout=120)
        audit_out[a] = out_a.strip().split("\n")[-1]
        if rc_a != 0:
            audit_broken = (audit_broken + "; " if audit_broken else "") + "%s audit failed:\n%s" % (a, out_a[-1500:])
    cov["audits"] = audit_out

    # 2c. extraction cross-check: a sample of cases evaluated inside Coq (vm_compute) and by the extracted OCaml model
    if ok:
        try:
            with locked("coq"):
                rc_x, out_x = sh([sys.executable, os.path.join(ROOT, "tools", "xcheck.py"), "10" if tier == "quick" else "150", str(seed)], timeout=1800)
        except subprocess.TimeoutExpired:
            rc_x, out_x = 1, "xcheck timed out"
        cov["extraction_cross_check"] = out_x.strip().split("\n")[-1][:300]
        if rc_x != 0:
            audit_broken = (audit_broken + "; " if audit_broken else "") + "extraction cross-check failed:\n" + out_x[-1500:]

    # 3. harness
    rc, hout = step_harness(release=False)
    harness_ok = rc == 0
    rel_ok = False
    if tier == "thorough" and harness_ok and cfg.get("release", False):
        rc2, _ = step_harness(release=True)
        rel_ok = rc2 == 0
    if not harness_ok:
        p = write_replay(prop, seed, 1, None, {"broken": "the correspondence harness no longer builds against the repository",
                                               "log": hout[-3000:]})
        violations.append((p, False))

    # 4. correspondence
    evaluations = 0
    distinct = set()
    nontrivial = 0
    samples = []
    dist = {}
    mismatches = []
    oracle_fail = []
    if harness_ok and os.path.exists(runner.model_bin()):
        cases = families.corpus_cases(prop) + cfg["cases"](seed, case_tier)
        batches = [("debug", cases)]
        if rel_ok:
            batches.append(("release", cases))
        if tier == "thorough":
            # the thorough tier also looks at four more seeds (quick counts each, debug profile)
            for extra in range(1, 5):
                batches.append(("debug-seed+%d" % extra, cfg["cases"](seed + extra, "quick")))
            cov["seeds"] = [seed] + [seed + e_ for e_ in range(1, 5)]
        for _, cs_ in batches:
            for c_ in cs_:
                families.normalise_case(c_)
        for profile, cs in batches:
            impl, mod, iprob, mprob = runner.run_both(cs, "%s.%s" % (prop, profile.replace("+", "p")), release=(profile == "release"),
                                                      model=cfg.get("model", True), timeout=cfg.get("timeout", 900))
            for c in cs:
                it = impl.get(c["id"])
                mt = mod.get(c["id"]) if cfg.get("model", True) else None
                evaluations += 1
                proj = trace_lines(it or [], case_tags(cfg, c))
                h = hashlib.sha1("\n".join(proj).encode()).hexdigest()
                if cfg["nontrivial"](c, it or []):
                    if h not in distinct:
                        distinct.add(h)
                        if len(samples) < 3:
                            samples.append({"case": c["id"], "src": c.get("src", c.get("xml", ""))[:600],
                                            "projection": proj[:12]})
                for k in cfg.get("classify", families.classify)(c, it or []):
                    dist[k] = dist.get(k, 0) + 1
                # a case flagged no_model has no model input (C16: corrupted documents have no tree):
                # it is judged by the intrinsic oracles only
                # the model's generator oracle is rebuilt from the implementation's draw log and is quadratic in the
                # number of draws since the last (re)seed: runs with more than 20 000 draws are judged by the oracles only
                long_rng = sum(len(r_.split()) for t_, r_ in (it or []) if t_ == "RNG") > 40000
                if long_rng:
                    dist["skipped:draw-log-too-long"] = dist.get("skipped:draw-log-too-long", 0) + 1
                if cfg.get("model", True) and not c.get("no_model") and not long_rng:
                    d = compare_case(c, it, mt, case_tags(cfg, c))
                    if d is not None:
                        mismatches.append((c, profile, d))
                for o in cfg.get("oracles", []):
                    for msg in o(c, it or []):
                        oracle_fail.append((c, profile, msg))
            # oracles that look at several cases at once (layout variants of one program, ...)
            for po in cfg.get("pair_oracles", []):
                for c, msg in po(cs, impl):
                    oracle_fail.append((c, profile, msg))
    nontrivial = len(distinct)

    # known-finding filter for oracle failures / mismatches
    kfs = known_findings(prop)

    def is_known(case, msg):
        for kf in kfs:
            pat = kf.get("match")
            if pat and re.search(pat, msg) and (not kf.get("src_match") or re.search(kf["src_match"], case.get("src", ""))):
                return True
        return False

    n = 2
    seen_ids = set()
    for c, profile, msg in oracle_fail:
        if is_known(c, msg) or c["id"] in seen_ids:
            continue
        seen_ids.add(c["id"])
        p = write_replay(prop, seed, n, c, {"profile": profile, "property fails (intrinsic oracle)": msg})
        violations.append((p, True))
        n += 1
        if n > 8:
            break
    for c, profile, msg in mismatches:
        if is_known(c, msg) or c["id"] in seen_ids:
            continue
        seen_ids.add(c["id"])
        p = write_replay(prop, seed, n, c, {"profile": profile,
                                            "correspondence": "implementation and proved model disagree on the projection of %s" % prop,
                                            "detail": msg})
        violations.append((p, True))
        n += 1
        if n > 12:
            break

    if audit_broken and not any(v[1] for v in violations):
        p = write_replay(prop, seed, 98, None, {"broken": audit_broken,
                                                "search": "%d cases run, no failing input found" % evaluations})
        violations.append((p, False))
    if proof_broken and not any(v[1] for v in violations):
        p = write_replay(prop, seed, 99, None, {"broken": proof_broken,
                                                "theorems": ", ".join(theorems),
                                                "search": "%d cases run, no failing input found" % evaluations})
        violations.append((p, False))

    cov["evaluations"] = evaluations
    cov["distinct_nontrivial"] = nontrivial
    cov["rule"] = cfg.get("rule", "")
    cov["samples"] = samples or [{"note": "no case produced a non-trivial projection"}]
    cov["traces_validated_against_impl"] = evaluations - len(mismatches)
    cov["distribution"] = dist
    cov["mismatches"] = len(mismatches)
    cov["oracle_failures"] = len(oracle_fail)
    cov["proved"] = cfg.get("proved", "")
    cov["validated_only"] = cfg.get("validated_only", "")
    ev["assumptions"] = cfg.get("assumptions", [])
    ev["violations"] = len(violations)
    ev["wall_s"] = round(time.time() - t0, 2)
    os.makedirs(os.path.join(ROOT, "evidence"), exist_ok=True)
    json.dump(ev, open(os.path.join(ROOT, "evidence", prop + ".json"), "w"), indent=1)

    for p, has_input in violations:
        rel = os.path.relpath(p, ROOT)
        if has_input:
            print("VIOLATION property=%s replay=%s" % (prop, rel))
        else:
            print("VIOLATION property=%s replay=%s no-failing-input-found" % (prop, rel))
    print("%s %s: %d/%d theorems closed, %d cases (%d distinct non-trivial), %d mismatches, %d oracle failures, %.1fs"
          % (prop, tier, discharged, len(theorems), evaluations, nontrivial, len(mismatches), len(oracle_fail),
             time.time() - t0))
    return 1 if violations else 0


def replay(path):
    """re-run one replay file through implementation and model and print both traces"""
    step_harness()
    cases_txt = "".join(l for l in open(path) if not l.startswith("#"))
    os.makedirs(WORK, exist_ok=True)
    cf = os.path.join(WORK, "replay.cases")
    open(cf, "w").write(cases_txt)
    for name, b in (("implementation", runner.harness_bin()), ("model", runner.model_bin())):
        rc, out = sh([b, cf], timeout=120)
        print("---- %s" % name)
        print(out)
    return 0


def main():
    args = sys.argv[1:]
    if args and args[0] == "--replay":
        return replay(args[1])
    prop = args[0]
    tier = os.environ.get("VERIF_TIER", "quick")
    if "--tier" in args:
        tier = args[args.index("--tier") + 1]
    seed = int(os.environ.get("VERIF_SEED", "20260928"))
    if prop not in families.PROPS:
        print("unknown property", prop)
        return 2
    return run_check(prop, tier, seed)


if __name__ == "__main__":
    sys.exit(main())
