#!/bin/bash
# soak: all 20 quick checks over a range of seeds; replays of alarms are saved (a check deletes its old replays)
# usage: tools/soak.sh FROM TO [SAVE_DIR]
cd "$(dirname "$0")/.."
save=${3:-$PWD/.soak}
./setup >/dev/null 2>&1
for s in $(seq $1 $2); do
  for p in C01 C02 C03 C04 C05 C06 C07 C08 C09 C10 C11 C12 C13 C14 C15 C16 C17 C18 C19 C20; do
    echo -n "seed $s: "
    VERIF_SEED=$s ./check $p 2>&1 | grep -v "WARNING conda" | grep -v KNOWN-FINDING | tail -1
    if ls replays/$p-$s-* >/dev/null 2>&1; then mkdir -p $save/replays_$s; cp replays/$p-$s-* $save/replays_$s/; fi
  done
done
