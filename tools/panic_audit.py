#!/usr/bin/env python3
"""T3: panic-site audit.  Lists every panic-capable construct in the non-test sources of the crate
(unwrap / expect / unreachable! / todo! / unimplemented! / panic! / assert! / direct indexing and
slicing) and compares the list with the committed inventory tools/panic_sites.tsv, which says for
each construct where it lives in the model (a `Panic <site>` of coq/theories) or why it cannot fire.

A file that has MORE constructs of a kind than the inventory knows means the model's set of panic
sites - the thing the no-panic theorems of C09/C10/C11/C16 quantify over - is no longer known to be
complete: the tie of those properties is broken.  Constructs that disappeared, moved inside a file or
changed spelling are reported as drift only (they cannot add a way to panic that was not counted).

usage: panic_audit.py            -> prints differences, exit 1 if any
       panic_audit.py --dump     -> prints the current list in inventory format (to start/refresh the inventory)
"""
import os, re, sys

REPO = os.environ.get("VERIF_REPO", "/repo")
HERE = os.path.dirname(os.path.abspath(__file__))
INV = os.path.join(HERE, "panic_sites.tsv")
SKIP_FILES = {"tests.rs", "verif_hooks.rs"}

PAT = [
    ("unwrap", re.compile(r"\.unwrap\(\)")),
    ("expect", re.compile(r"(?<!self)\.expect\(")),   # Option/Result::expect, not the parser's own Parser::expect
    ("unreachable", re.compile(r"\bunreachable!\s*\(")),
    ("todo", re.compile(r"\btodo!\s*\(")),
    ("unimplemented", re.compile(r"\bunimplemented!\s*\(")),
    ("panic", re.compile(r"\bpanic!\s*\(")),
    ("assert", re.compile(r"\bassert(_eq|_ne)?!\s*\(")),
    # direct indexing / slicing of a place expression:  ident[ ... ]   or  )[ ... ]  (not attributes, not types, not array literals)
    ("index", re.compile(r"(?<![#!\w])(?:[a-z_][\w.]*|\))\[(?!\])")),
]


def strip_tests(src):
    """remove `#[cfg(test)] mod … { … }` blocks and comments"""
    out = []
    i = 0
    src = re.sub(r"//[^\n]*", "", src)
    while True:
        m = re.search(r"#\[cfg\(test\)\]\s*(pub\s+)?mod\s+\w+\s*\{", src[i:])
        if not m:
            out.append(src[i:])
            break
        out.append(src[i:i + m.start()])
        j = i + m.end()
        depth = 1
        while j < len(src) and depth:
            if src[j] == "{":
                depth += 1
            elif src[j] == "}":
                depth -= 1
            j += 1
        i = j
    return "".join(out)


def scan():
    found = []
    for dp, _, fs in os.walk(os.path.join(REPO, "src")):
        for fn in sorted(fs):
            if not fn.endswith(".rs") or fn in SKIP_FILES:
                continue
            p = os.path.join(dp, fn)
            rel = os.path.relpath(p, REPO)
            if "/tests" in rel:
                continue
            txt = strip_tests(open(p, encoding="utf-8").read())
            if re.match(r"\s*#!\[cfg\(test\)\]", txt) or txt.lstrip().startswith("#![cfg(test)]"):
                continue
            for line in txt.split("\n"):
                l = " ".join(line.split())
                if not l or l.startswith("#["):
                    continue
                for kind, pat in PAT:
                    if pat.search(l):
                        if kind == "index" and re.search(r"vec!\[|&\[|\]\s*=\s*Default|: \[|-> \[|<\[|\[u8;", l) and not re.search(r"[a-z_)]\[[a-z_*0-9.]", l):
                            continue
                        found.append((rel, kind, l))
    return found


def main():
    found = scan()
    if "--dump" in sys.argv:
        for rel, kind, l in found:
            print("%s\t%s\t%s\t?" % (rel, kind, l))
        return 0
    inv = {}
    if os.path.exists(INV):
        for line in open(INV, encoding="utf-8"):
            line = line.rstrip("\n")
            if not line.strip() or line.startswith("#"):
                continue
            f = line.split("\t")
            if len(f) >= 4:
                inv.setdefault((f[0], f[1], f[2]), []).append(f[3])
    cur = {}
    for rel, kind, l in found:
        cur[(rel, kind, l)] = cur.get((rel, kind, l), 0) + 1
    # Exact agreement first.  Where the text of a construct merely moved or changed spelling, the audit looks at
    # the NUMBER of panic-capable constructs per (file, kind): constructs that disappear cannot add a panic, and a
    # rewrite that keeps the number (renamed variable, statement split or merged, `if let` turned into `match`) is
    # reported as drift, not as a difference - the behavioural correspondence judges it.  A (file, kind) that has
    # MORE constructs than the inventory knows is a new way to panic that no model site stands for: a difference.
    def per_file(d, count):
        out = {}
        for k, v in d.items():
            out[(k[0], k[1])] = out.get((k[0], k[1]), 0) + count(v)
        return out
    cf = per_file(cur, lambda v: v)
    vf = per_file(inv, len)
    bad = 0
    drift = 0
    for k, n in sorted(cur.items()):
        if len(inv.get(k, [])) != n:
            fk = (k[0], k[1])
            if cf.get(fk, 0) > vf.get(fk, 0):
                print("NEW panic-capable construct not in the inventory (%d [%s] constructs in %s, the inventory knows %d): %s" % (cf[fk], k[1], k[0], vf.get(fk, 0), k[2]))
                bad += 1
            else:
                print("drift (same or smaller number of [%s] constructs in %s; text changed): %s" % (k[1], k[0], k[2]))
                drift += 1
    for k in sorted(inv):
        if k not in cur:
            print("drift (inventory entry no longer in the source): %s [%s] %s" % k)
            drift += 1
    print("panic audit: %d constructs in the source, %d inventory lines, %d new, %d drifted" % (len(found), sum(len(v) for v in inv.values()), bad, drift))
    return 1 if bad else 0


if __name__ == "__main__":
    sys.exit(main())
