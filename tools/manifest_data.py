"""What MANIFEST.json claims, per property.  Keep in step with coq/theories/props/*.v."""
HOOK_COMMITS = ["a5c4c98"]
NOTES = ("Every check = (1) rebuild of the property's Coq theorems and axiom audit, (2) differential correspondence of the "
         "extracted model against the crate rebuilt from /repo's working tree, (3) intrinsic oracles. See DESIGN.md.")
CLAIMED = {}
NOT_CLAIMED = {}

CLAIMED["C07"] = {
    "text": "Proved in Coq for every width 1..64 and every i64 value: the model's truncation equals the value modulo 2^bits read as "
            "two's complement (identity at 64 bits, unsigned residue below), result always an i64; virtual signals are 64 bits. "
            "The model's mask is tied to src/data_row_iterator.rs by an exhaustive sweep over all 64 widths x boundary values on the input, "
            "expected and virtual paths, in both overflow-check profiles (thorough), with an independent big-integer oracle.",
    "note": "Trusted: Coq kernel; the hand-written model of bit_mask (validated exhaustively over widths, sampled over values); harness and generators. No axioms.",
}
