"""What MANIFEST.json claims, per property.  Generated from tools/families.py (the single
place where each check's coverage is described) plus the notes below."""
import os, sys
sys.path.insert(0, os.path.dirname(os.path.abspath(__file__)))
import families

HOOK_COMMITS = ["a5c4c98"]
NOTES = ("Every check = (1) rebuild of the property's Coq theorems (coq/theories/props/Cxx.v) with an axiom audit, (2) differential "
         "correspondence of the extracted Gallina model against the crate rebuilt from /repo's working tree with the verif-hooks feature, "
         "(3) intrinsic oracles on the implementation's traces. A mismatch or a broken proof is reported as VIOLATION with the concrete "
         "input as replay (or no-failing-input-found). See DESIGN.md.")

# properties registered only once their props/Cxx.v exists and compiles
PARTIAL_NOTE = {
    "C17": "partial by construction: rand's StdRng/gen_range is an oracle with its range contract as a hypothesis of the theorem",
    "C16": "partial by construction: the XML text -> tree step is roxmltree's and is only sampled",
}
NOT_CLAIMED = {}
CLAIMED = {}
props_dir = os.path.join(os.path.dirname(os.path.abspath(__file__)), "..", "coq", "theories", "props")
for pid, cfg in families.PROPS.items():
    if not os.path.exists(os.path.join(props_dir, pid + ".v")):
        continue
    text = ("Proved in Coq 8.16.1, closed under the global context (no axioms), for all inputs: " + cfg.get("proved", "") +
            ". Tie to the code, checked on every run: " + cfg.get("rule", "") +
            ". Not proved, validated only: " + cfg.get("validated_only", "") + ".")
    if pid in PARTIAL_NOTE:
        text += " " + PARTIAL_NOTE[pid] + "."
    note = ("Trusted: Coq kernel; the hand-written Gallina model of the named Rust functions (tied by the correspondence check, whose generators bound its strength); "
            "extraction (ExtrOcamlBasic) and the OCaml/Rust/Python glue. " + " ".join(cfg.get("assumptions", [])))
    CLAIMED[pid] = {"text": text, "note": note}
