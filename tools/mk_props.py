#!/usr/bin/env python3
"""Helper used while writing coq/theories/props/Cxx.v: prints `Theorem <name> : <statement>. Proof. exact <lemma>. Qed.`
for a list of (name, lemma, comment) with the statement taken from Coq's own `Check` output, so that the
property file shows the full statement.  The output is pasted into the props file and compiled there
(the kernel re-checks that the statement is the lemma's); this script is not part of any check.

usage: mk_props.py <imports file> <spec file with lines: name | lemma | comment>"""
import os, re, subprocess, sys

COQ = os.path.join(os.path.dirname(os.path.abspath(__file__)), "..", "coq")


def main():
    imports = open(sys.argv[1]).read()
    items = []
    for line in open(sys.argv[2]):
        line = line.rstrip("\n")
        if not line.strip() or line.startswith("#"):
            continue
        name, lemma, comment = [x.strip() for x in line.split("|", 2)]
        items.append((name, lemma, comment))
    tmp = "/tmp/mkprops.v"
    with open(tmp, "w") as f:
        f.write(imports + "\nSet Printing Width 110.\nSet Printing Depth 10000.\n")
        for name, lemma, _ in items:
            f.write('Goal True. idtac "@@@%s". Abort.\nCheck %s.\n' % (name, lemma))
    out = subprocess.run(["coqc", "-Q", os.path.join(COQ, "theories"), "DTR", tmp], stdout=subprocess.PIPE,
                         stderr=subprocess.STDOUT).stdout.decode()
    out = "\n".join(l for l in out.split("\n") if "WARNING conda" not in l)
    chunks = out.split("@@@")[1:]
    stm = {}
    for ch in chunks:
        name, _, rest = ch.partition("\n")
        m = re.match(r"\s*\S+\s*\n?\s*:\s*(.*)", rest, re.S)
        stm[name.strip()] = m.group(1).rstrip() if m else "<<PARSE ERROR>>\n" + rest
    for name, lemma, comment in items:
        if comment:
            print("(* %s *)" % comment)
        body = stm.get(name, "<<MISSING>>")
        body = "\n".join("  " + l.strip() if i else l for i, l in enumerate(body.split("\n")))
        print("Theorem %s :\n  %s.\nProof. exact %s. Qed.\n" % (name, body, lemma))


if __name__ == "__main__":
    main()
