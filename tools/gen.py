#!/usr/bin/env python3
"""Seeded generators for the correspondence check (DESIGN.md 6.3).

Every random choice derives from one random.Random(seed) per case, so a case is replayable
from (family, seed, index).  A case is a dict that `write_case` renders in the line format
read by harness/src/main.rs and ocaml/model_run.ml.
"""
import random

B64 = [0, 1, -1, 2, -2, 3, 7, 63, 64, 65, 127, 255, 2**15 - 1, 2**15 + 1, 2**31 - 1, 2**31, 2**32 - 1,
       2**32 + 1, 2**62, 2**63 - 1, -2**63, -2**63 + 1, -2**31, 0x5555555555555555, -0x5555555555555556,
       0x0123456789ABCDEF, -0x0123456789ABCDEF]

BINOPS = ["=", "!=", ">", "<", ">=", "<=", "|", "^", "&", "<<", ">>", "+", "-", "*", "/", "%"]
PREC = {"=": 8, "!=": 8, ">": 7, "<": 7, ">=": 7, "<=": 7, "|": 6, "^": 5, "&": 4, "<<": 3, ">>": 3,
        "+": 2, "-": 2, "*": 1, "/": 1, "%": 1}
UNOPS = ["-", "!", "~"]
KEYWORDS = {"end", "loop", "repeat", "bits", "let", "resetRandom", "while", "declare", "program", "init",
            "memory", "def", "call"}


def hexs(s):
    return s.encode("utf-8").hex()


# ------------------------------------------------------------------ expressions (Python AST)
# ("num", n) ("var", name) ("bin", op, l, r) ("un", op, e) ("fn", name, [args])

def lit(rng, n, radix_mix=False):
    """spell a non-negative literal"""
    assert n >= 0
    if not radix_mix:
        return str(n)
    r = rng.random()
    if r < 0.4:
        return str(n)
    zeros = "0" * (rng.choice([1, 2, 5]) if rng.random() < 0.2 else 0)
    if r < 0.6:
        return ("0x" if rng.random() < 0.5 else "0X") + zeros + (("%x" if rng.random() < 0.5 else "%X") % n)
    if r < 0.8:
        return ("0b" if rng.random() < 0.5 else "0B") + zeros + bin(n)[2:]
    return "0" + zeros + oct(n)[2:] if n else "0" + zeros


def print_expr(e, rng=None, redundant=0.0, radix_mix=False, ctx_prec=99, right_side=False, sp=None):
    """print with minimal parentheses (plus redundant ones with the given probability).
    ctx_prec: precedence of the enclosing binary operator (99 = none); right_side: we are its
    right operand (needs parentheses at equal precedence, operators being left associative)."""
    rnd = rng if rng is not None else random.Random(0)
    space = (lambda: "") if sp is None else sp
    k = e[0]
    if k == "num":
        n = e[1]
        s = lit(rnd, n, radix_mix) if n >= 0 else None
        if s is None:
            # negative numbers have no literal: print as unary minus of the magnitude when it exists
            if -n < 2**63:
                s = "-" + lit(rnd, -n, radix_mix)
            else:
                s = "(-" + lit(rnd, 2**63 - 1, radix_mix) + "-1)"
                return s
            if ctx_prec < 99 and rnd.random() < 0.3:
                s = "(" + s + ")"
    elif k == "var":
        s = e[1]
    elif k == "un":
        inner = print_expr(e[2], rng, redundant, radix_mix, 0, False, sp)  # operand must be a factor
        s = e[1] + space() + inner
    elif k == "fn":
        s = e[1] + space() + "(" + ("," + space()).join(print_expr(a, rng, redundant, radix_mix, 99, False, sp) for a in e[2]) + ")"
    elif k == "bin":
        p = PREC[e[1]]
        l = print_expr(e[2], rng, redundant, radix_mix, p, False, sp)
        r = print_expr(e[3], rng, redundant, radix_mix, p, True, sp)
        s = l + space() + e[1] + space() + r
        need = p > ctx_prec or (p == ctx_prec and right_side)
        if ctx_prec == 0:
            need = True
        if need:
            s = "(" + s + ")"
    else:
        raise ValueError(k)
    if k in ("un", "num", "var", "fn") and ctx_prec == 0 and k == "un":
        pass
    if rnd.random() < redundant:
        s = "(" + s + ")"
    return s


class ExprGen:
    def __init__(self, rng, vars_=(), outs=(), allow_random=False, allow_div=True, small=False,
                 allow_fn=True, shift_small=False):
        self.rng = rng
        self.vars = list(vars_)
        self.outs = list(outs)
        self.allow_random = allow_random
        self.allow_div = allow_div
        self.small = small
        self.allow_fn = allow_fn
        self.shift_small = shift_small

    def num(self):
        r = self.rng
        if self.small:
            return ("num", r.choice([0, 1, 2, 3, 4, 5, 7, 8, 15, 16, 31, 100, 255]))
        x = r.random()
        if x < 0.5:
            return ("num", r.randrange(0, 20))
        if x < 0.8:
            v = abs(r.choice(B64))
            return ("num", v if v < 2**63 else 2**63 - 1)
        return ("num", r.randrange(0, 2**63))

    def rbound(self):
        """bound of a random(..): mostly wide ranges, so that two generators (or a shifted draw) give different values"""
        r = self.rng
        if r.random() < 0.65:
            return ("num", r.choice([1000003, 2**20, 2**31, 2**40, 2**62, 2**63 - 1]))
        return ("num", r.choice([2, 3, 10, 100]))

    def atom(self):
        r = self.rng
        pool = []
        if self.vars:
            pool += ["var"] * 3
        if self.outs:
            pool += ["out"] * 2
        pool += ["num"] * 3
        c = r.choice(pool)
        if c == "var":
            return ("var", r.choice(self.vars))
        if c == "out":
            return ("var", r.choice(self.outs))
        return self.num()

    def gen(self, depth):
        r = self.rng
        if depth <= 0 or r.random() < 0.25:
            return self.atom()
        x = r.random()
        if self.allow_random and r.random() < 0.08:
            return ("bin", r.choice(["&", "*", "|", "+"]), ("num", r.choice([0, 0, 1])), ("fn", "random", [self.rbound()]))
        if self.allow_random and self.allow_div and r.random() < 0.06:
            # both operands draw (left first), or the right one is zero AFTER the left one has drawn
            left = ("fn", "random", [self.rbound()])
            right = r.choice([("fn", "random", [self.rbound()]), left, left, ("num", 0), ("bin", "-", ("num", 1), ("num", 1))])
            return ("bin", r.choice(["/", "%", "-", "<<", "^", "=", "!="]), left, right)
        if x < 0.65:
            ops = BINOPS if self.allow_div else [o for o in BINOPS if o not in "/%"]
            op = r.choice(ops)
            l = self.gen(depth - 1)
            rr = self.gen(depth - 1)
            if op in ("<<", ">>") and self.shift_small:
                rr = ("num", r.randrange(0, 8))
            if op in ("/", "%") and self.small:
                rr = ("num", r.choice([1, 2, 3, 5, 7]))
            return ("bin", op, l, rr)
        if x < 0.8:
            return ("un", r.choice(UNOPS), self.gen(depth - 1))
        if x < 0.93 and self.allow_fn:
            if self.allow_random and r.random() < 0.5:
                # draws inside the branches of ite: only the selected one may consume a draw
                def rnd():
                    return ("fn", "random", [self.rbound()])
                return ("fn", "ite", [self.gen(depth - 1), rnd() if r.random() < 0.8 else self.gen(depth - 1),
                                      rnd() if r.random() < 0.8 else self.gen(depth - 1)])
            return ("fn", "ite", [self.gen(depth - 1), self.gen(depth - 1), self.gen(depth - 1)])
        if self.allow_fn and r.random() < 0.15:
            # the third function of FUNC_TABLE: accepted by the parser, FunctionNotImplemented when evaluated
            return ("fn", "signExt", [self.gen(depth - 1), self.gen(depth - 1)])
        if self.allow_random and self.allow_fn:
            y = r.random()
            if y < 0.12:
                # bounds that are not literals >= 2: an arbitrary expression (may be <= 1, may fail itself),
                # 0, 1 and negative bounds (EmptyRandomRange, no draw)
                return ("fn", "random", [self.gen(depth - 1)])
            if y < 0.2:
                return ("fn", "random", [r.choice([("num", 0), ("num", 1), ("un", "-", ("num", r.choice([1, 5]))), ("num", 2)])])
            if y < 0.3:
                # a draw whose bound is itself drawn (the generator is borrowed while the bound is evaluated)
                return ("fn", "random", [("bin", "+", ("fn", "random", [self.rbound()]), ("num", 2))])
            return ("fn", "random", [self.rbound()])
        return self.atom()


# ------------------------------------------------------------------ signals

def gen_signals(rng, n_in=None, n_out=None, n_bidir=None, wide=False, odd_names=False, scope_names=False, many=0, big_defaults=False):
    """returns list of dicts {name, typ: I|O|B, bits, default}; `many` extra signals with generated names (also names that
    end in _out, differ from another name in letter case only, or are prefixes of one another)"""
    n_in = rng.randrange(1, 4) if n_in is None else n_in
    n_out = rng.randrange(1, 4) if n_out is None else n_out
    n_bidir = (1 if rng.random() < 0.3 else 0) if n_bidir is None else n_bidir
    names_in = ["A", "B", "CLK", "D", "EN"]
    names_out = ["Q", "R", "S", "T", "U"]
    names_bi = ["BUS", "IO"]
    if scope_names:
        names_out = ["n", "i1", "v1", "Q", "w1"] if rng.random() < 0.7 else ["ite", "random", "signExt", "bits", "n"]
        rng.shuffle(names_out)
    if odd_names and rng.random() < 0.5:
        names_in = ["Größe", "~B", "ÄÖÜßäöü", "é", "IN[0]"]
        names_out = ["信号输入输出汉字", "R'", "αβγδεζηθ", "T.x", "Q"]
        names_bi = ["Büs", "I/O"]
    sigs = []

    def bits():
        if wide:
            return rng.choice([1, 2, 3, 4, 7, 8, 15, 16, 31, 32, 33, 62, 63, 64])
        return rng.choice([1, 1, 2, 4, 8, 16])

    def dflt():
        x = rng.random()
        if x < 0.5:
            return "0"
        if x < 0.8:
            return str(rng.choice([1, 3, 5, 255]))
        return "Z"
    for i in range(n_in):
        sigs.append({"name": names_in[i], "typ": "I", "bits": bits(), "default": dflt()})
    for i in range(n_out):
        sigs.append({"name": names_out[i], "typ": "O", "bits": bits(), "default": "-"})
    for i in range(n_bidir):
        sigs.append({"name": names_bi[i], "typ": "B", "bits": bits(), "default": dflt()})
    used = set(s_["name"] for s_ in sigs)
    for i in range(many):
        base = rng.choice(["S%d" % i, "S%d" % i, "s%d" % i, "P%d_out" % i, "QQ", "Qq", "q", "AB", "A%d" % i, "CLK%d" % i, "T_%d" % i, "x%d" % i, "C%d" % i])
        if rng.random() < 0.06 and sigs:
            # a name with blank space around it can never be a header column; the trimmed name may well be one
            base = rng.choice([" %s", "%s ", "\t%s", "%s\t "]) % rng.choice(sigs)["name"]
        x = rng.random()
        if x < 0.08 and sigs:
            base = rng.choice(sigs)["name"] + rng.choice(["_out", "_OUT", "x", "_"])
        elif x < 0.12 and sigs:
            base = rng.choice(sigs)["name"].swapcase()
        if base in used or not base:
            base = "M%d" % i
        used.add(base)
        typ = rng.choice(["I", "I", "O", "O", "B"])
        d = "-" if typ == "O" else dflt()
        if big_defaults and typ != "O" and rng.random() < 0.3:
            d = str(rng.choice([255, 256, 65535, -1, 2 ** 40, 2 ** 63 - 1]))
        sigs.append({"name": base, "typ": typ, "bits": bits(), "default": d})
    rng.shuffle(sigs)
    return sigs


def gen_header(rng, sigs, full=False):
    """header columns: list of (column name, kind 'in'|'out', signal name). Bidirectional signals
    give two possible columns (name: input side, name_out: expected side)."""
    cols = []
    for s in sigs:
        if s["typ"] == "I":
            cols.append((s["name"], "in", s["name"]))
        elif s["typ"] == "O":
            cols.append((s["name"], "out", s["name"]))
        else:
            cols.append((s["name"], "in", s["name"]))
            cols.append((s["name"] + "_out", "out", s["name"]))
    if not full:
        keep = [c for c in cols if rng.random() < 0.8]
        if not keep:
            keep = [rng.choice(cols)]
        cols = keep
    rng.shuffle(cols)
    return cols


# ------------------------------------------------------------------ programs

class ProgGen:
    """Generates a valid, terminating program as nested Python statements:
       ("let", x, e) ("row", [entry...]) ("loop", v, e, body) ("repeat", e, row) ("while", e, body)
       ("reset",) ("declare", name, e) ; entries: ("num", n) ("expr", e) ("bits", k, e) ("X",) ("Z",) ("C",)"""

    def __init__(self, rng, cols, sigs, profile):
        self.rng = rng
        self.cols = cols
        self.sigs = sigs
        self.p = profile
        self.counter = 0
        self.virtuals = []
        out_names = [s["name"] for s in sigs if s["typ"] in ("O", "B")]
        self.readable = [n for n in out_names if n.isidentifier() and n.isascii() and n not in KEYWORDS] \
            if (profile.get("reads", 0) > 0 or profile.get("shadow_out", 0) > 0) else []
        self.budget = profile.get("budget", 12)
        self.uses_reads = set()
        self.dead = []
        self.kw_used = []

    def fresh(self, prefix="v"):
        self.counter += 1
        if prefix in ("v", "i") and self.rng.random() < self.p.get("kw_names", 0.0):
            # variables spelled like the row entries X / C / Z (any letter case): in a row these spellings are ALWAYS the
            # don't-care / clock / high-Z entries, never the variable
            cand = [n for n in ("x", "X", "c", "C", "z", "Z") if n not in self.kw_used]
            if cand:
                n = self.rng.choice(cand)
                self.kw_used.append(n)
                return n
        return "%s%d" % (prefix, self.counter)

    def egen(self, scope, depth=None, allow_random=None):
        p = self.p
        outs = self.readable if self.rng.random() < p.get("reads", 0) else []
        if p.get("dead_names", 0) > 0 and self.rng.random() < p["dead_names"]:
            # names that are NOT variables here but look like ones used elsewhere (counters of loops that
            # have ended, `n` of a repeat, ...): reads of the output of that name, or a bind error
            dead = sorted(set(d for d in self.dead if d not in scope))
            self.rng.shuffle(dead)
            outs = list(outs) + dead[:2]
        if p.get("read_virtual", 0) > 0 and self.virtuals and self.rng.random() < p["read_virtual"]:
            # a declared signal is not an output of the device: reading it in an expression cannot bind
            outs = list(outs) + [self.rng.choice(self.virtuals)]
        eg = ExprGen(self.rng, vars_=scope, outs=outs,
                     allow_random=(p.get("random", 0) > 0) if allow_random is None else allow_random,
                     allow_div=p.get("div", True), small=p.get("small", True),
                     allow_fn=p.get("fn", True), shift_small=p.get("shift_small", True))
        e = eg.gen(self.rng.randrange(0, (p.get("depth", 3) if depth is None else depth) + 1))
        return e

    def entry(self, kind, scope):
        r = self.rng
        p = self.p
        x = r.random()
        if kind == "in":
            if x < p.get("pC", 0.1):
                return ("C",)
            x -= p.get("pC", 0.1)
            if x < p.get("pX", 0.1):
                return ("X",)
            x -= p.get("pX", 0.1)
            if x < p.get("pZ", 0.05):
                return ("Z",)
        else:
            if r.random() < p.get("pC_out", 0.0):
                return ("C",)
            if x < p.get("pXout", 0.2):
                return ("X",)
            x -= p.get("pXout", 0.2)
            if x < p.get("pZout", 0.05):
                return ("Z",)
        if r.random() < p.get("pexpr", 0.4):
            return ("expr", self.egen(scope))
        if p.get("bigvals") and r.random() < 0.5:
            v = r.choice(B64)
            if v < 0:
                return ("expr", ("num", v))
            return ("num", v)
        return ("num", r.randrange(0, 16))

    def row(self, scope):
        r = self.rng
        ents = []
        i = 0
        while i < len(self.cols):
            # bits(k, e) spanning k columns
            if r.random() < self.p.get("pbits", 0.05):
                k = r.randrange(0, min(4, len(self.cols) - i) + 1)
                if len(self.cols) - i > 8 and r.random() < 0.5:
                    k = r.choice([kk for kk in (8, 16, 31, 32, 33, 63, 64) if kk <= len(self.cols) - i])
                ents.append(("bits", k, self.egen(scope)))
                i += k
                if k == 0:
                    continue
            else:
                ents.append(self.entry(self.cols[i][1], scope))
                i += 1
        return ("row", ents)

    def block(self, scope, depth, n):
        r = self.rng
        p = self.p
        out = []
        scope = list(scope)
        for _ in range(n):
            if self.budget <= 0:
                break
            x = r.random()
            self.budget -= 1
            if x < p.get("wrow", 0.45):
                out.append(self.row(scope))
            elif x < p.get("wrow", 0.45) + p.get("wlet", 0.2):
                # loop counters (i*) are rarely re-bound, the dedicated counters of the generated whiles (w*) never: a while
                # whose counter is overwritten by arbitrary values need not end
                rebindable = [v for v in scope if not (v.startswith("w") and v[1:].isdigit()) and (not v.startswith("i") or r.random() < p.get("rebind_counter", 0.02))]
                if rebindable and r.random() < 0.4:
                    name = r.choice(rebindable)
                else:
                    name = self.fresh()
                    if r.random() < p.get("shadow_out", 0.0) and self.readable:
                        name = r.choice(self.readable)
                e = self.egen(scope)
                if name in self.readable and r.random() < p.get("self_ref", 0.35):
                    # let Q = Q + e: when Q is not a variable yet, the right-hand side reads the OUTPUT Q
                    e = ("bin", r.choice(["+", "-", "^"]), ("var", name), e)
                out.append(("let", name, e))
                if name not in scope:
                    scope.append(name)
            elif x < 0.8 and depth < p.get("maxdepth", 3):
                kind = r.random()
                if kind < 0.5:
                    v = self.fresh("i") if r.random() < 0.8 or not scope else r.choice(scope)
                    bound = self.loop_bound(scope)
                    if v in scope and r.random() < 0.6:
                        # the counter shadows an existing variable and the bound mentions that name: the bound is
                        # evaluated BEFORE the counter is bound, so it sees the outer value
                        bound = ("bin", "&", ("bin", "+", ("var", v), ("num", r.randrange(0, 3))), ("num", 3))
                    elif v not in scope and r.random() < p.get("own_bound", 0.04):
                        # loop(k, k & 3): the bound is evaluated before k exists - a read of the OUTPUT k (if the device has
                        # one and reports it), otherwise the test does not bind
                        bound = ("bin", "&", ("var", v), ("num", 3))
                    body = self.block(scope + [v], depth + 1, r.randrange(1, 4)) if r.random() >= p.get("empty_body", 0.05) else []
                    if r.random() < p.get("own_counter", 0.08):
                        # the body re-binds the loop's own counter (upwards, so the loop still ends): the next pass continues from it
                        body.insert(r.randrange(0, len(body) + 1), ("let", v, ("bin", "+", ("var", v), ("num", r.choice([0, 1, 1, 2])))))
                    elif r.random() < p.get("own_counter", 0.08) / 2:
                        # ... or ONCE back to a negative value (a guard variable makes sure it happens once): the loop goes on from there
                        g = self.fresh("g")
                        out.append(("let", g, ("num", 0)))
                        scope.append(g)
                        body.append(("let", v, ("fn", "ite", [("bin", "&", ("bin", "=", ("var", g), ("num", 0)), ("bin", "=", ("var", v), ("num", 1))),
                                                               ("un", "-", ("num", r.choice([2, 3, 5]))), ("var", v)])))
                        body.append(("let", g, ("bin", "|", ("var", g), ("bin", "=", ("var", v), ("un", "-", ("num", 2))))))
                        body.append(("let", g, ("bin", "|", ("var", g), ("bin", "<", ("var", v), ("num", 0)))))
                    out.append(("loop", v, bound, body))
                    self.dead.append(v)
                elif kind < 0.7:
                    bound = self.loop_bound(scope)
                    out.append(("repeat", bound, self.row(scope + ["n"])))
                    self.dead.append("n")
                else:
                    # terminating while: dedicated counter, incremented at the end of the body
                    w = self.fresh("w")
                    limit = r.randrange(0, 4)
                    out.append(("let", w, ("num", 0)))
                    scope.append(w)
                    body = self.block(scope, depth + 1, r.randrange(1, 3))
                    body.append(("let", w, ("bin", "+", ("var", w), ("num", 1))))
                    if r.random() < p.get("while_binds", 0.3):
                        # a variable whose FIRST binding is inside the while body and that is used after `end while`: while opens
                        # no scope, so (the loop having run at least once) it is an ordinary variable there
                        limit = max(limit, 1)
                        nv = self.fresh("u")
                        body.insert(r.randrange(0, len(body)), ("let", nv, self.egen(scope)))
                        scope.append(nv)
                    cond = ("bin", "<", ("var", w), ("num", limit))
                    if r.random() < p.get("while_neg", 0.15):
                        # any non-zero value is true, negative ones too: w - limit is < 0 until w reaches the limit
                        cond = ("bin", "-", ("var", w), ("num", limit))
                    elif p.get("random", 0) > 0 and r.random() < p.get("while_random", 0.2):
                        # a draw in the condition: one per evaluation of the condition (entry test and every re-test)
                        cond = ("bin", "&", cond, ("bin", "|", ("fn", "random", [("num", r.choice([1000003, 2 ** 40, 2 ** 62]))]), ("num", 1)))
                    elif r.random() < 0.3:
                        cond = ("bin", "&", cond, ("bin", "=", ("num", 1), ("num", 1)))
                    elif r.random() < 0.15:
                        # a condition that can fail to evaluate (read of an output that may be Z/X, division)
                        cond = ("bin", "&", cond, ("bin", "|", self.egen(scope, depth=1), ("num", 1)))
                    out.append(("while", cond, body))
            elif x < 0.85 and p.get("random", 0) > 0:
                out.append(("reset",))
            elif x < 0.9 and p.get("declare", 0) > 0 and len(self.virtuals) < 3:
                name = self.fresh("V")
                eg = ExprGen(r, vars_=[], outs=self.readable, allow_random=bool(p.get("declare_random")), small=True, shift_small=True)
                e = eg.gen(2)
                self.virtuals.append(name)
                out.append(("declare", name, e))
            else:
                out.append(self.row(scope))
        return out

    def loop_bound(self, scope):
        r = self.rng
        x = r.random()
        if x < 0.6:
            return ("num", r.randrange(0, 4))
        if x < 0.7:
            return ("un", "-", ("num", r.randrange(0, 3)))
        if x < 0.85 and scope:
            return ("bin", "&", ("var", r.choice(scope)), ("num", 3))
        if self.readable and r.random() < self.p.get("reads", 0):
            return ("bin", "&", ("var", r.choice(self.readable)), ("num", 3))
        return ("bin", "-", ("num", r.randrange(0, 4)), ("num", r.randrange(0, 3)))


def used_names(e, acc):
    if e[0] == "var":
        acc.add(e[1])
    elif e[0] == "bin":
        used_names(e[2], acc)
        used_names(e[3], acc)
    elif e[0] == "un":
        used_names(e[2], acc)
    elif e[0] == "fn":
        for a in e[2]:
            used_names(a, acc)


class Layout:
    """how a program is laid out as text"""

    def __init__(self, rng, fancy=False, crlf=False, radix_mix=False, redundant=0.0, trailing_nl=True,
                 lead_blank=0):
        self.rng = rng
        self.fancy = fancy
        self.crlf = crlf
        self.radix_mix = radix_mix
        self.redundant = redundant
        self.trailing_nl = trailing_nl
        self.lead_blank = lead_blank
        self.lines = []       # output lines
        self.row_lines = []   # physical 1-based line number of each row statement, in source order

    def sp(self):
        if not self.fancy:
            return " "
        return self.rng.choice([" ", "  ", "\t", " \t ", " \r"])

    def osp(self):
        if not self.fancy:
            return ""
        return self.rng.choice(["", "", " ", "\t"])

    def pe(self, e):
        return print_expr(e, self.rng, self.redundant, self.radix_mix, 99, False, self.osp if self.fancy else None)

    def entry(self, ent):
        k = ent[0]
        if k == "num":
            return lit(self.rng, ent[1], self.radix_mix)
        if k == "expr":
            return "(" + self.osp() + self.pe(ent[1]) + self.osp() + ")"
        if k == "bits":
            return "bits" + self.osp() + "(" + lit(self.rng, ent[1], self.radix_mix) + self.osp() + "," + self.osp() + self.pe(ent[2]) + ")"
        if k in ("X", "Z", "C"):
            return k if self.rng.random() < 0.8 else k.lower()
        raise ValueError(k)

    def emit(self, s):
        if self.fancy:
            if self.rng.random() < 0.2:
                s = self.sp() + s
            if self.rng.random() < 0.2:
                s = s + self.sp()
            if self.rng.random() < 0.15:
                s = s + self.osp() + "# " + self.rng.choice(["comment", "end loop", "1 2 3", "(", "é汉", "wrapped \\", "\\", "a \\ b \\", "3 µs → grün", "next\u0085line", "sep\u2028", "para\u2029# more", "\u0085", "form\x0cfeed", "vt\x0b", "1 \u2028 1"])
        self.lines.append(s)
        if self.fancy and self.rng.random() < 0.15:
            for _ in range(self.rng.randrange(1, 3)):
                self.lines.append(self.rng.choice(["", "   ", "# only a comment", "\t#x", "# ends in a backslash \\", "#\\", "# grün → 3 µs", "# a\u0085", "#\u2028", "# p\u2029# q", "# ff\x0c"]))

    def row_text(self, ents):
        texts = [self.entry(e) for e in ents]
        if not self.fancy:
            return " ".join(texts)
        import re as _re
        out = texts[0] if texts else ""
        for prev, nxt in zip(texts, texts[1:]):
            touch = (self.rng.random() < 0.2 and (_re.fullmatch(r"[1-9][0-9]*", prev) or prev.endswith(")"))
                     and nxt[:1] in ("X", "x", "C", "c", "Z", "z", "("))
            out += ("" if touch else self.sp()) + nxt
        return out

    def stmts(self, body):
        for s in body:
            k = s[0]
            if k == "let":
                self.emit("let" + self.sp() + s[1] + self.osp() + "=" + self.osp() + self.pe(s[2]) + self.osp() + ";")
            elif k == "row":
                self.emit(self.row_text(s[1]))
                self.row_lines.append(self.line_of_last_emit)
            elif k == "loop":
                self.emit("loop" + self.osp() + "(" + self.osp() + s[1] + self.osp() + "," + self.osp() + self.pe(s[2]) + self.osp() + ")")
                self.stmts(s[3])
                self.emit("end" + self.sp() + "loop")
            elif k == "repeat":
                self.emit("repeat" + self.osp() + "(" + self.pe(s[1]) + ")" + self.sp() + self.row_text(s[2][1]))
                self.row_lines.append(self.line_of_last_emit)
            elif k == "while":
                self.emit("while" + self.osp() + "(" + self.pe(s[1]) + ")")
                self.stmts(s[2])
                self.emit("end" + self.sp() + "while")
            elif k == "reset":
                self.emit("resetRandom" + self.osp() + ";")
            elif k == "declare":
                self.emit("declare" + self.sp() + s[1] + self.osp() + "=" + self.osp() + self.pe(s[2]) + self.osp() + ";")
            else:
                raise ValueError(k)

    @property
    def line_of_last_emit(self):
        # index (1-based) of the statement line just emitted: trailing blank/comment lines were
        # appended after it, so search backwards for it
        return self._last_stmt_line

    def render(self, cols, body):
        self.lines = []
        self.row_lines = []
        for _ in range(self.lead_blank):
            self.lines.append(self.rng.choice(["", "  ", "\t"]) if self.fancy else "")
        hdr = self.sp().join(c[0] for c in cols)
        if self.fancy and self.rng.random() < 0.3:
            hdr = self.sp() + hdr + self.sp()
        self.lines.append(hdr)
        # wrap emit to track statement lines
        orig_emit = self.emit

        def tracking_emit(s):
            n_before = len(self.lines)
            orig_emit(s)
            self._last_stmt_line = n_before + 1
        self.emit = tracking_emit
        self.stmts(body)
        self.emit = orig_emit
        nl = "\r\n" if self.crlf else "\n"
        text = nl.join(self.lines)
        if self.trailing_nl:
            text += nl
        return text


# ------------------------------------------------------------------ driver scripts

def gen_script(rng, sigs_bound_names, sigs, virtual_count, reads, profile, reads_prog=None):
    """layout: indices into the bound signal list (given signals followed by virtual ones)"""
    out_idx = [i for i, s in enumerate(sigs) if s["typ"] in ("O", "B")]
    must = [i for i in out_idx if sigs[i]["name"] in reads]
    if profile.get("full_layout", False) or rng.random() < 0.5:
        layout = list(out_idx)
    else:
        layout = [i for i in out_idx if i in must or rng.random() < 0.7]
    if profile.get("drop_read", 0) > 0 and must and rng.random() < profile["drop_read"]:
        layout = [i for i in layout if i != rng.choice(must)]
    rng.shuffle(layout)
    nrows = rng.randrange(1, 6)
    table = []
    for _ in range(nrows):
        row = []
        for i in layout:
            x = rng.random()
            pz = profile.get("pZX", 0.05)
            if i in must and (reads_prog is None or sigs[i]["name"] in reads_prog):
                pz = profile.get("pZXread", 0.02)
            if x < pz:
                row.append(rng.choice(["Z", "X"]))
            elif profile.get("bigvals") and rng.random() < 0.4:
                row.append(str(rng.choice(B64)))
            else:
                row.append(str(rng.randrange(0, 2 ** min(sigs[i]["bits"], 8))))
        table.append(row)
    return {"layout": layout, "table": table, "echo": 1 if rng.random() < profile.get("echo", 0.5) else 0,
            "wdefault": 1 if rng.random() < 0.5 else 0, "faults": []}


def gen_faults(rng, script, nsigs, ncalls_hint, kinds):
    k = rng.randrange(0, max(1, ncalls_hint))
    kind = rng.choice(kinds)
    n = max(1, len(script["layout"]))
    if kind == "err":
        return [(k, "err %d" % rng.randrange(1, 1000))]
    if kind == "drop":
        return [(k, "drop %d" % rng.randrange(0, n))]
    if kind == "add":
        return [(k, "add %d" % rng.randrange(0, nsigs))]
    if kind == "dup":
        return [(k, "dup %d" % rng.randrange(0, n))]
    if kind == "swap":
        return [(k, "swap %d %d" % (rng.randrange(0, n), rng.randrange(0, n)))]
    if kind == "subst":
        return [(k, "subst %d %d" % (rng.randrange(0, n), rng.randrange(0, nsigs)))]
    if kind == "widen":
        return [(k, "widen %d" % rng.randrange(0, n))]
    if kind == "swapsig":
        return [(k, "swapsig %d %d" % (rng.randrange(0, nsigs), rng.randrange(0, nsigs)))]
    if kind == "addw":
        return [(k, "addw %d" % rng.randrange(0, nsigs))]
    raise ValueError(kind)


# ------------------------------------------------------------------ whole cases

DEFAULT_PROFILE = {"reads": 0.3, "random": 0, "declare": 0.0, "depth": 3, "maxdepth": 3, "budget": 12,
                   "small": True, "pC": 0.08, "pX": 0.08, "pZ": 0.04, "pbits": 0.05, "echo": 0.5}


def collect_reads(body, acc, decl_only=False, skip_declare=False):
    for s in body:
        k = s[0]
        if k == "let":
            used_names(s[2], acc)
        elif k == "row":
            for e in s[1]:
                if e[0] == "expr":
                    used_names(e[1], acc)
                elif e[0] == "bits":
                    used_names(e[2], acc)
        elif k == "loop":
            used_names(s[2], acc)
            collect_reads(s[3], acc, skip_declare=skip_declare)
        elif k == "repeat":
            used_names(s[1], acc)
            collect_reads([s[2]], acc, skip_declare=skip_declare)
        elif k == "while":
            used_names(s[1], acc)
            collect_reads(s[2], acc, skip_declare=skip_declare)
        elif k == "declare":
            if not skip_declare:
                used_names(s[2], acc)


def gen_run_case(cid, seed, profile=None):
    """a complete, mostly valid `run` case"""
    p = dict(DEFAULT_PROFILE)
    if profile:
        p.update(profile)
    rng = random.Random(seed)
    sigs = gen_signals(rng, wide=p.get("wide", False), odd_names=p.get("odd_names", False),
                       n_bidir=p.get("n_bidir"), scope_names=(rng.random() < p.get("scope_names", 0.0)),
                       many=p.get("many", 0), big_defaults=p.get("big_defaults", False))
    cols = gen_header(rng, sigs, full=p.get("full_header", False))
    if rng.random() < p.get("out_twin", 0.0):
        # a separate output literally named <bidirectional>_out, same width: a different signal, whatever its name suggests
        bi = [s_ for s_ in sigs if s_["typ"] == "B"]
        if bi:
            sigs.insert(rng.randrange(0, len(sigs) + 1), {"name": bi[0]["name"] + "_out", "typ": "O", "bits": bi[0]["bits"], "default": "-"})
    pg = ProgGen(rng, cols, sigs, p)
    body = pg.block([], 0, rng.randrange(2, 7))
    if not any(s[0] in ("row", "repeat", "loop", "while") for s in body):
        body.append(pg.row([]))
    # virtual signals get a column with some probability: add the column and an entry to every row
    vcols = []
    for v in pg.virtuals:
        if rng.random() < 0.7:
            vcols.append(v)
    if vcols:
        cols = cols + [(v, "out", v) for v in vcols]

        def widen(b):
            for s in b:
                if s[0] == "row":
                    for _ in vcols:
                        y = rng.random()
                        if y < 0.35:
                            s[1].append(("X",))
                        elif y < 0.42:
                            s[1].append(("Z",))
                        elif y < 0.55:
                            # a virtual signal is 64 bits wide: negative and large expected values stay as they are
                            s[1].append(("expr", ("num", rng.choice([-1, -2, -(2 ** 63), 2 ** 63 - 1, -255, 2 ** 40]))))
                        else:
                            s[1].append(("num", rng.randrange(0, 8)))
                elif s[0] == "repeat":
                    widen([s[2]])
                elif s[0] == "loop":
                    widen(s[3])
                elif s[0] == "while":
                    widen(s[2])
        widen(body)
    lay = Layout(rng, fancy=p.get("fancy", False), crlf=p.get("crlf", False) and rng.random() < 0.5,
                 radix_mix=p.get("radix_mix", False), redundant=p.get("redundant", 0.0),
                 trailing_nl=(rng.random() < p.get("trailing_nl", 0.9)),
                 lead_blank=(rng.randrange(0, 3) if p.get("lead_blank") else 0))
    text = lay.render(cols, body)
    reads = set()
    collect_reads(body, reads)
    # outputs read only by declarations may be Z / X like any other output (-> the virtual signal fails on that row)
    reads_prog = set()
    collect_reads(body, reads_prog, skip_declare=True)
    script = gen_script(rng, None, sigs, len(pg.virtuals), reads, p, reads_prog=reads_prog)
    case = {"id": cid, "kind": "run", "src": text, "sigs": sigs, "max": p.get("max", 200), "seed": seed & 0xFFFFFFFF,
            "gen": {"row_lines": lay.row_lines, "body": body, "cols": cols}}
    case.update(script)
    if rng.random() < p.get("cont", 0.0):
        case["cont"] = 1
    return case


def write_case(f, c):
    f.write("case %s\n" % c["id"])
    f.write("kind %s\n" % c.get("kind", "run"))
    if "src" in c:
        f.write("src %s\n" % hexs(c["src"]))
    if "xml" in c:
        f.write("xml %s\n" % hexs(c["xml"]))
    if "tree" in c:
        # kind dig: the XML tree of `xml` in prefix token form (tools/gen_dig.py); read by the model only
        f.write("tree %s\n" % c["tree"])
    for s in c.get("sigs", []):
        f.write("sig %s %s %d %s\n" % (hexs(s["name"]), s["typ"], s["bits"], s["default"]))
    if "layout" in c:
        f.write("layout %s\n" % " ".join(str(i) for i in c["layout"]))
    for row in c.get("table", []):
        f.write("row %s\n" % " ".join(row))
    if "echo" in c:
        f.write("echo %d\n" % c["echo"])
    if "wdefault" in c:
        f.write("wdefault %d\n" % c["wdefault"])
    for k, what in c.get("faults", []):
        f.write("fault %d %s\n" % (k, what))
    if "rng" in c:
        f.write("rng %s\n" % " ".join(c["rng"]))
    if "max" in c:
        f.write("max %d\n" % c["max"])
    if "seed" in c:
        f.write("seed %d\n" % c["seed"])
    if "fuel" in c:
        f.write("fuel %d\n" % c["fuel"])
    if "niter" in c:
        f.write("niter %d\n" % c["niter"])
    if c.get("cont"):
        f.write("cont 1\n")
    for i, b in c.get("rebits", []):
        f.write("rebits %d %d\n" % (i, b))
    if "sched" in c:
        f.write("sched %s\n" % " ".join(str(i) for i in c["sched"]))
    f.write("end\n")


if __name__ == "__main__":
    import sys
    c = gen_run_case("demo", int(sys.argv[1]) if len(sys.argv) > 1 else 1, {"fancy": True, "radix_mix": True})
    sys.stdout.write(c["src"])
    write_case(sys.stdout, c)


def wild_profile(rng):
    """a profile with every dial set at random, many of them to an extreme: the point is to reach combinations of
    input features nobody thought of (many columns, deep nesting, every kind of name, every kind of entry, every layout)"""
    def pr(hi=1.0, zero=0.4):
        x = rng.random()
        if x < zero:
            return 0.0
        if x < zero + 0.2:
            return hi
        return round(rng.random() * hi, 2)
    p = {"reads": pr(0.9, 0.3), "random": pr(0.7, 0.5), "declare": pr(1.0, 0.4), "declare_random": rng.random() < 0.3,
         "maxdepth": rng.choice([1, 2, 3, 3, 4, 6, 9, 11]), "budget": rng.choice([4, 8, 12, 16, 24, 40]), "depth": rng.choice([1, 2, 3, 4, 5]),
         "wrow": rng.choice([0.2, 0.35, 0.45, 0.7]), "wlet": rng.choice([0.0, 0.1, 0.2, 0.35]),
         "pC": pr(0.5), "pX": pr(0.5), "pZ": pr(0.3), "pXout": pr(0.6, 0.2), "pZout": pr(0.4), "pC_out": pr(0.15, 0.7), "pbits": pr(0.4),
         "pexpr": rng.choice([0.1, 0.4, 0.8]), "bigvals": rng.random() < 0.4, "small": rng.random() < 0.5, "div": rng.random() < 0.7,
         "shift_small": rng.random() < 0.5, "fn": rng.random() < 0.8,
         "shadow_out": pr(0.8), "scope_names": pr(0.9, 0.5), "dead_names": pr(0.6, 0.5), "self_ref": pr(0.6, 0.3), "kw_names": pr(0.7, 0.5),
         "own_counter": pr(0.4, 0.5), "own_bound": pr(0.3, 0.7), "while_binds": pr(0.6, 0.4), "while_neg": pr(0.5, 0.4), "while_random": pr(0.5, 0.5),
         "read_virtual": pr(0.3, 0.8), "rebind_counter": 0.0, "out_twin": pr(0.8, 0.6), "n_bidir": rng.choice([None, 0, 1, 2]),
         "wide": rng.random() < 0.5, "odd_names": rng.random() < 0.3, "many": rng.choice([0, 0, 0, 3, 8, 14, 20, 40, 66]), "big_defaults": rng.random() < 0.3,
         "full_header": rng.random() < 0.5, "full_layout": rng.random() < 0.5, "pZX": pr(0.3, 0.5), "pZXread": pr(0.1, 0.7), "drop_read": pr(0.2, 0.8),
         "echo": rng.choice([0.0, 0.5, 1.0]), "fancy": rng.random() < 0.4, "crlf": rng.random() < 0.3, "radix_mix": rng.random() < 0.5,
         "redundant": pr(0.4, 0.5), "trailing_nl": rng.choice([0.0, 0.9, 1.0]), "lead_blank": rng.random() < 0.3,
         "cont": rng.choice([0.0, 1.0]), "max": 150}
    return p


def wild_cases(prefix, seed, n):
    out = []
    for i in range(n):
        s0 = (seed * 9176 + i * 7919 + 13) & 0x7FFFFFFF
        rng = random.Random(s0 ^ 0x771D)
        p = wild_profile(rng)
        c = gen_run_case("%s-wild-%d-%d" % (prefix, seed & 0xFFFF, i), s0, p)
        if p["cont"]:
            c["cont"] = 1
        out.append(c)
    return out
