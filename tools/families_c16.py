#!/usr/bin/env python3
"""C16 (.dig loading): generator families, projection, intrinsic oracles.  Imported at the end of
tools/families.py (PROPS["C16"] = PROP_C16).  The cases come from tools/gen_dig.py."""
import os
import re

import gen_dig
from gen import hexs

REPO = os.environ.get("VERIF_REPO", "/repo")

C16_TAGS = ("DIG", "MISSING", "SIGNALS", "TEST")


# ------------------------------------------------------------------ cases

def repo_dig_files():
    """the crate's own .dig files (tests/data): tree obtained with an independent XML parser (expat)"""
    out = []
    d = os.path.join(REPO, "tests", "data")
    if not os.path.isdir(d):
        return out
    for fn in sorted(os.listdir(d)):
        if not fn.endswith(".dig"):
            continue
        try:
            text = open(os.path.join(d, fn), encoding="utf-8").read()
        except (OSError, UnicodeDecodeError):
            continue
        c = {"id": "c16-file-" + re.sub(r"[^A-Za-z0-9_]", "_", fn), "kind": "dig", "xml": text,
             "c16": {"family": "file", "features": ["file:" + fn]}}
        tree = gen_dig.tree_from_expat(text)
        if tree is None:
            c["no_model"] = True          # not well-formed for expat either (xml-error.dig)
        else:
            c["tree"] = tree
        out.append(c)
    return out


def c16_cases(seed, tier):
    if tier == "quick":
        na, nb, nc = 200, 140, 60
    else:
        na, nb, nc = 9000, 7000, 4000
    return repo_dig_files() + gen_dig.cases(seed & 0xFFFFFF, na, nb, nc)


# ------------------------------------------------------------------ (i) never a panic

def c16_no_panic(case, trace):
    if not trace:
        yield "the implementation produced no trace for this document"
        return
    for t, r in trace:
        if "panic" in r.lower() or t in ("HANG", "ABORT"):
            yield "loading the document did not end with a file or an error: %s %s" % (t, r[:300])
    if not any(t == "DIG" for t, _ in trace):
        yield "no DIG line in the trace"


# ------------------------------------------------------------------ (ii) load_test / load_test_by_name

def c16_load_oracle(case, trace):
    dig = [r for t, r in trace if t == "DIG"]
    if not dig or dig[0].strip() != "ok":
        return
    ntests = sum(1 for t, _ in trace if t == "TEST")
    loads = [r for t, r in trace if t == "LOAD"]
    if len(loads) != ntests:
        yield "%d tests but %d LOAD lines" % (ntests, len(loads))
    for r in loads:
        f = r.split()
        if len(f) < 3 or f[1] not in ("equal-ok", "equal-err"):
            yield "load_test(%s) differs from parsing source %s and binding it to the file's signals: %s" % (f[0], f[0], r)
        elif f[2] != "byname=first":
            yield "load_test_by_name(label of test %s) is not the first test with that label: %s" % (f[0], r)
    for t, r in trace:
        if t == "LOADRENDER" and r.split()[-1] in ("FAILED", "PANIC"):
            yield "the error of load_test(%s) cannot be rendered as a diagnostic (a location outside the attached source?): %s" % (r.split()[0], r)
    for t, r in trace:
        if t == "LOADSRC" and r.split()[-1] in ("DIFFERENT", "PANIC"):
            yield "the error of load_test(%s) does not carry the source text of that test: %s" % (r.split()[0], r)
        if t == "LOADAT" and r.split()[1] != "same":
            yield "the error of load_test(%s) is not the error (message, locations) of parsing that source and binding it: %s" % (r.split()[0], r[:300])
        if t == "LOADEDIT" and r.split()[1] != "same":
            yield "after an edit of the public test_cases[%s].source / signals, load_test is not parse + bind of the edited data: %s" % (r.split()[0], r[:300])
        if t == "LOADNAME" and not r.startswith("same"):
            yield "after a rename of a test (public field test_cases[i].name) load_test_by_name does not go by the names the file has now: %s" % r[:300]
        if t == "ENTRY" and not r.startswith("same"):
            yield "File::parse, the FromStr impl and File::open (on a file with the same text) disagree: %s" % r[:300]
    oob = [r for t, r in trace if t == "LOADOOB"]
    unk = [r for t, r in trace if t == "LOADUNK"]
    if oob != ["err"]:
        yield "load_test(number of tests) is not an error: %s" % oob
    if unk != ["err"]:
        yield "load_test_by_name(unknown label) is not an error: %s" % unk


# ------------------------------------------------------------------ (iii) the property, read off the description

def nm(s):
    return s if s and re.fullmatch(r"[A-Za-z0-9_]+", s) else "%" + hexs(s)


def parse_usize(s):
    if re.fullmatch(r"\+?[0-9]+", s) and int(s) < 2 ** 64:
        return int(s)
    return None


def parse_i64(s):
    if re.fullmatch(r"[+-]?[0-9]+", s) and -2 ** 63 <= int(s) < 2 ** 63:
        return int(s)
    return None


def header_of(src):
    """column names of a test source: the first line that has any, which must be ended by a line feed and
    must not repeat a name; None if there is none.  Blank = space, TAB, CR, FF."""
    pieces = src.split("\n")
    for line in pieces[:-1]:
        names = [w for w in re.split(r"[ \t\r\f]+", line) if w]
        if names:
            return names if len(set(names)) == len(names) else None
    return None


def expected_of_desc(desc):
    """what the property promises for a circuit description -> list of expected trace lines"""
    ins, outs = [], []
    for it in desc["items"]:
        if it["k"] != "pin" or not it["label"]:
            continue
        bits = parse_usize(it["bits"]) if it["bits"] is not None else None
        if bits is None:
            bits = 1
        if it["elem"] in ("In", "Clock"):
            d = it["indefault"]
            default = "0"
            if d is not None and d["form"] == "value":
                if d["z"] == "true":
                    default = "Z"
                elif d["v"] is not None and parse_i64(d["v"]) is not None:
                    default = str(parse_i64(d["v"]))
            ins.append([it["label"], "I", bits, default])
        else:
            outs.append([it["label"], "O", bits, None])
    signals = ins + outs
    tests = [(t["label"] if t["label"] is not None else "(unnamed)", t["source"] or "")
             for t in desc["items"] if t["k"] == "test"]
    pin_names = set(s[0] for s in signals)
    used, bidir = set(), set()
    for _, src in tests:
        h = header_of(src)
        if h is None:
            return ["DIG err EmptyTest"]
        for n in h:
            if n.endswith("_out") and n not in pin_names and any(s[0] == n[:-4] and s[1] == "I" for s in ins):
                bidir.add(n[:-4])
            else:
                used.add(n)
    missing = used - pin_names
    if missing:
        return ["DIG err MissingSignals", ("MISSING " + " ".join(nm(n) for n in sorted(missing))).rstrip()]
    for b in bidir:
        for s in signals:
            if s[0] == b and s[1] == "I":
                s[1] = "B"
                break
    lines = ["DIG ok", ("SIGNALS " + " ".join("%s:%s:%d%s" % (nm(n), t, b, "" if d is None else ":" + d)
                                               for n, t, b, d in signals)).rstrip()]
    for i, (label, src) in enumerate(tests):
        lines.append(("TEST %d %s %s" % (i, nm(label), hexs(src))).rstrip())
    return lines


def impl_lines(trace):
    out = []
    for t, r in trace:
        if t in C16_TAGS:
            out.append((t + " " + r.split(" #")[0]).rstrip())
    return out


def c16_desc_oracle(case, trace):
    desc = case.get("c16", {}).get("desc")
    if desc is None:
        return
    want = expected_of_desc(desc)
    got = impl_lines(trace)
    if want != got:
        for i in range(max(len(want), len(got))):
            w = want[i] if i < len(want) else "<nothing>"
            g = got[i] if i < len(got) else "<nothing>"
            if w != g:
                yield "the loaded file differs from the circuit description: expected `%s`, the implementation gives `%s`" % (w[:300], g[:300])
                return


# ------------------------------------------------------------------ non-trivial

def c16_nontrivial(case, trace):
    for t, r in trace:
        if t == "DIG":
            if r.startswith("err") and "XMLError" not in r:
                return True
            if r.strip() == "ok":
                return any(t2 == "TEST" for t2, _ in trace) or any(t2 == "SIGNALS" and r2.strip() for t2, r2 in trace)
    return False


PROP_C16 = {
    "cases": c16_cases,
    "tags": C16_TAGS,
    "nontrivial": c16_nontrivial,
    "classify": gen_dig.classify,
    "oracles": [c16_no_panic, c16_load_oracle, c16_desc_oracle],
    "rule": "every case is built from an explicit XML tree that is serialised both to XML text (implementation, through roxmltree) and to the token form of "
            "Xml.xdoc (model): (a) circuit descriptions written the way Digital writes them - any number/order of In, Clock, Out pins and other components, labels "
            "(duplicate, empty, absent, non-ASCII, ending in _out: pin C_out next to input C, header X_out without pin X, Q_out for an output Q), Bits absent/plain/garbage/huge, "
            "InDefault with v/z combinations, 0-4 test cases (duplicate/empty/absent labels; headers over subsets of the pins, <name>_out columns, unknown names, duplicate columns; "
            "empty, blank-only and unterminated sources), compact / indented / randomly spaced, LF or CRLF, CDATA and character references; "
            "(b) structural variations (Testdata value not testData, dataString not first, entries without element children or with 1 or 3, extra nesting, nested and displaced "
            "visualElements, elementName missing/empty/moved/nested, comments and PIs inside text, attribute order, namespace prefixes and namespaced attributes, duplicated entries, "
            "empty text nodes) and random trees over dig.rs's vocabulary; (c) byte-level corruptions (truncation, one-sided tag rename, broken entities, byte flips, deleted "
            "delimiters, insertions, special documents): no tree, implementation only; plus the crate's own tests/data/*.dig with the tree taken from expat. "
            "Projection = DIG verdict with error kind, set of missing names, signal list (name, direction, width, default), tests (index, label, source verbatim). "
            "Non-trivial = accepted by roxmltree and (a signal, a test, or a dig-level error); distinct = hash of the projection",
    "proved": "dig_parse (File::parse from the tree on) is total: never a panic site, never out of fuel (DigProof); its Ok results are characterised by DigSpec: inputs (In/Clock) in document "
              "order then outputs, width = parsed Bits or 1, default = Z / parsed v / 0, bidirectional exactly by the <name>_out rule, tests verbatim in document order; "
              "load_test i = parse source i then bind to the file's signals; load_test_by_name = first test with that label; out-of-range index / unknown label is an error",
    "validated_only": "the step XML text -> tree (third-party crate roxmltree 0.20) is not modelled: the generator writes both forms of one tree, so a roxmltree behaviour the "
                      "serialiser does not know shows up as a disagreement; that src/dig.rs walks the tree as Dig.v does (compared on every case with a tree); totality on arbitrary "
                      "text (family c) is exercised on the implementation only",
    "assumptions": ["Dig.v / Xml.v model src/dig.rs and the roxmltree navigation it uses (checked by the correspondence runs of this check)",
                    "roxmltree turns the XML text into the tree the generator started from (same runs)"],
    "trusted_base": ["roxmltree 0.20 (XML text -> tree; not modelled)", "tools/gen_dig.py (one tree, two serialisations)"],
}
