#!/usr/bin/env python3
"""Writes MANIFEST.json from tools/manifest_data.py (one entry per claimed property)."""
import json, os, sys
ROOT = os.path.abspath(os.path.join(os.path.dirname(os.path.abspath(__file__)), ".."))
sys.path.insert(0, os.path.join(ROOT, "tools"))
import manifest_data as md

props = [json.loads(l)["id"] for l in open(os.path.join(ROOT, "properties.jsonl")) if l.strip()]
checks = []
for pid in props:
    if pid not in md.CLAIMED:
        continue
    c = md.CLAIMED[pid]
    checks.append({
        "property_id": pid,
        "quick_cmd": "./check %s --tier quick" % pid,
        "thorough_cmd": "./check %s --tier thorough" % pid,
        "evidence_file": "evidence/%s.json" % pid,
        "replay_cmd_template": "./check --replay {path}",
        "engine": "coq-proof+correspondence",
        "level_claimed": {"category": c.get("category", "proof"), "text": c["text"], "design_ref": c.get("design_ref", "DESIGN.md section 5, " + pid)},
        "level_note": c["note"],
        "technique": c.get("technique", "machine-checked proof in Coq 8.16 about a Gallina model + differential correspondence check of the model against the crate"),
    })
na = [{"property_id": pid, "reason": md.NOT_CLAIMED.get(pid, "not yet claimed: theorems for this property are not finished")}
      for pid in props if pid not in md.CLAIMED]
m = {
    "version": 1,
    "setup_cmd": "./setup",
    "hooks": {
        "guard": "cargo feature verif-hooks",
        "enable": "harness/Cargo.toml depends on the crate at /repo by path with features = [\"verif-hooks\"]",
        "baseline_off_cmd": "cd /repo && cargo test --workspace --no-fail-fast --offline",
        "source_commits": md.HOOK_COMMITS,
        "add_only": True,
    },
    "engines": [{
        "name": "coq-proof+correspondence",
        "path": "tools/check.py",
        "serves_properties": [c["property_id"] for c in checks],
        "kind_free_text": "Coq 8.16.1 theorems about a hand-written executable Gallina model (coq/theories), tied to /repo on every run by a differential correspondence check: extracted OCaml model (ocaml/) vs the crate (harness/, rebuilt from /repo's working tree with the verif-hooks feature) on generated inputs, plus intrinsic oracles",
    }],
    "checks": checks,
    "not_applicable": na,
    "notes": md.NOTES,
}
json.dump(m, open(os.path.join(ROOT, "MANIFEST.json"), "w"), indent=1)
print("MANIFEST.json: %d checks, %d not claimed" % (len(checks), len(na)))
