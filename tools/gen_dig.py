#!/usr/bin/env python3
"""Seeded generator of `.dig` documents for property C16 (tools/families_c16.py).

Every case is built from an explicit XML TREE (elements, attributes, text nodes, comments,
processing instructions).  That one tree is serialised twice:
  * to XML text  (field `xml`,  read by the implementation through roxmltree), and
  * to the prefix token encoding of coq/theories/Xml.v's `xdoc` (field `tree`, read by the model):

      node ::= E <tag> <nattrs> (<key> <value>)^nattrs <nchildren> node^nchildren
             | T <text>
             | O                                   (comment / processing instruction)

    <tag> <key> <value> <text>: hex of the UTF-8 bytes, `-` for the empty string; the document
    is the sequence of the children of roxmltree's Root node (top-level comments / PIs and the
    root element; white space outside the root element is not a node).  Tag and attribute names
    are LOCAL names; namespace declarations and namespaced attributes are left out.

so that the two are consistent by construction.  What the serialiser relies on in roxmltree 0.20
(src/parse.rs, src/tokenizer.rs):
  * white space between elements INSIDE the root element is a text node; outside it is skipped;
  * adjacent text and CDATA sections are merged into one text node; a comment / PI separates them;
    `<a></a>` and `<a/>` have no children; `<![CDATA[]]>` alone gives an EMPTY text node;
  * `&lt; &gt; &amp; &quot; &apos; &#d; &#xh;` are expanded, in text and in attribute values; there is
    no DTD (Document::parse rejects `<!DOCTYPE`), hence no other entities;
  * a literal CR LF or CR in text or CDATA becomes LF; `&#13;` stays CR.  The tree always holds the
    normalised text; a CR in the tree is written `&#13;`; in `crlf` style every LF of a text node is
    written CR LF;
  * literal TAB / LF / CR in an attribute value become a space: the serialiser writes them as
    character references, which are kept verbatim;
  * text must consist of XML Chars (TAB, LF, CR, >= U+0020 except U+FFFE/U+FFFF);
  * `tag_name().name()` is the local name; `attribute("z")` only sees attributes without prefix.

Families (tools/families_c16.py: PROP_C16):
  (a) `desc`     circuit descriptions rendered the way Digital writes them; an abstract DESCRIPTION
                 (pins, other components, test cases) is kept in the case for the Python oracle
  (b) `struct`   structural variations of such trees, and random trees over dig.rs's vocabulary
  (c) `corrupt`  byte-level corruptions of rendered documents: no tree, model side skipped
"""
import random
import re
import sys

from gen import hexs


# ------------------------------------------------------------------ the tree

class E:
    """element; `attrs` are the attributes WITHOUT namespace, in document order.
    prefix / nsdecl / nsattrs only influence the XML text (namespaces are invisible to dig.rs)."""
    __slots__ = ("tag", "attrs", "kids", "prefix", "nsdecl", "nsattrs")

    def __init__(self, tag, attrs=None, kids=None):
        self.tag = tag
        self.attrs = list(attrs or [])
        self.kids = list(kids or [])
        self.prefix = None
        self.nsdecl = []      # [(prefix or None, uri)]
        self.nsattrs = []     # [(qualified name, value)]  - written, not part of the tree


class T:
    __slots__ = ("text",)

    def __init__(self, text):
        self.text = text


class C:
    """comment"""
    __slots__ = ("body",)

    def __init__(self, body):
        self.body = body


class PI:
    __slots__ = ("target", "body")

    def __init__(self, target, body):
        self.target = target
        self.body = body


def el(tag, *kids, **attrs):
    return E(tag, list(attrs.items()), list(kids))


def txt(tag, s):
    """<tag>s</tag>; an empty string gives an element without children"""
    return E(tag, [], [T(s)] if s else [])


def walk(n, parent=None):
    """(node, parent) for the node and all its descendants, document order"""
    yield n, parent
    if isinstance(n, E):
        for k in list(n.kids):
            for x in walk(k, n):
                yield x


def find_all(root, tag):
    return [(n, p) for n, p in walk(root) if isinstance(n, E) and n.tag == tag]


def merge_text(e):
    """two text nodes that became neighbours (an element between them was moved away) are one text node"""
    if not isinstance(e, E):
        return
    new = []
    for k in e.kids:
        if isinstance(k, T) and new and isinstance(new[-1], T):
            new[-1] = T(new[-1].text + k.text)
        else:
            new.append(k)
    if len(new) > 1:
        new = [k for k in new if not (isinstance(k, T) and k.text == "")]
    e.kids = new
    for k in e.kids:
        merge_text(k)


def check_tree(nodes):
    """generator self-check: never an empty text node (except a lone one, written as an empty CDATA
    section), never two adjacent text nodes, text made of XML Chars only"""
    for top in nodes:
        assert not isinstance(top, T), "text at top level"
        for n, _ in walk(top):
            if isinstance(n, E):
                assert n.tag and is_name(n.tag), n.tag
                keys = [k for k, _ in n.attrs]
                assert len(set(keys)) == len(keys), keys
                prev_text = False
                for k in n.kids:
                    if isinstance(k, T):
                        assert not prev_text, "adjacent text nodes"
                        assert k.text != "" or len([x for x in n.kids if isinstance(x, T)]) == 1
                        assert xml_chars(k.text), repr(k.text)
                        prev_text = True
                    else:
                        prev_text = False
                for _, v in n.attrs:
                    assert xml_chars(v), repr(v)


def xml_chars(s):
    for ch in s:
        o = ord(ch)
        if o < 0x20 and ch not in "\t\n\r":
            return False
        if o in (0xFFFE, 0xFFFF) or 0xD800 <= o <= 0xDFFF:
            return False
    return True


def is_name(s):
    return re.fullmatch(r"[A-Za-z_][A-Za-z0-9_.\-]*", s) is not None


# ------------------------------------------------------------------ tree -> tokens

def hx(s):
    return hexs(s) if s else "-"


def _tok(n, out):
    if isinstance(n, E):
        out.append("E")
        out.append(hx(n.tag))
        out.append(str(len(n.attrs)))
        for k, v in n.attrs:
            out.append(hx(k))
            out.append(hx(v))
        out.append(str(len(n.kids)))
        for k in n.kids:
            _tok(k, out)
    elif isinstance(n, T):
        out.append("T")
        out.append(hx(n.text))
    else:
        out.append("O")


def tokens(nodes):
    out = []
    for n in nodes:
        _tok(n, out)
    return " ".join(out)


def tree_from_expat(text):
    """the token form of the tree of a well-formed document according to an independent XML parser
    (expat through xml.dom.minidom); None if expat rejects it or it has a DOCTYPE (roxmltree rejects those).
    Used for the crate's own .dig files and for the generator's self-test (`gen_dig.py selftest`)."""
    import xml.dom.minidom as md
    try:
        dom = md.parseString(text.encode("utf-8"))
    except Exception:
        return None

    def conv(n):
        if n.nodeType == n.ELEMENT_NODE:
            e = E(n.localName or n.tagName)
            for i in range(n.attributes.length):
                a = n.attributes.item(i)
                if a.prefix or a.name == "xmlns" or a.name.startswith("xmlns:"):
                    continue
                e.attrs.append((a.name, a.value))
            for k in n.childNodes:
                c = conv(k)
                if isinstance(c, T) and e.kids and isinstance(e.kids[-1], T):
                    e.kids[-1] = T(e.kids[-1].text + c.text)
                elif c is not None:
                    e.kids.append(c)
            return e
        if n.nodeType in (n.TEXT_NODE, n.CDATA_SECTION_NODE):
            return T(n.data)
        if n.nodeType == n.COMMENT_NODE:
            return C(n.data)
        if n.nodeType == n.PROCESSING_INSTRUCTION_NODE:
            return PI(n.target, n.data)
        raise ValueError("doctype")

    try:
        return tokens([conv(k) for k in dom.childNodes])
    except ValueError:
        return None


# ------------------------------------------------------------------ tree -> XML text

PLAIN = {"crlf": False, "cdata": 0.0, "charref": 0.0, "squote": 0.0, "selfclose": 1.0, "quot": 0.0,
         "gt": 1.0, "space": 0.0, "decl": 1.0, "bom": 0.0}


def style(rng, fancy):
    """serialisation choices; `fancy` in [0,1] scales how far from Digital's own writer we go"""
    if rng.random() >= fancy:
        st = dict(PLAIN)
        st["crlf"] = rng.random() < 0.1
        st["decl"] = 1.0 if rng.random() < 0.9 else 0.0
        return st
    return {"crlf": rng.random() < 0.3, "cdata": rng.choice([0.0, 0.15, 0.5]), "charref": rng.choice([0.0, 0.02, 0.2]),
            "squote": rng.choice([0.0, 0.5, 1.0]), "selfclose": rng.choice([0.0, 0.5, 1.0]),
            "quot": rng.choice([0.0, 0.5]), "gt": rng.choice([0.0, 0.5, 1.0]), "space": rng.choice([0.0, 0.3]),
            "decl": rng.choice([0.0, 1.0]), "bom": 0.1 if rng.random() < 0.3 else 0.0}


def charref(ch, rng):
    return "&#x%X;" % ord(ch) if rng.random() < 0.5 else "&#%d;" % ord(ch)


def esc_run(s, rng, st):
    """character data for (part of) a text node; `s` non-empty"""
    out = []
    prev2 = ""       # the last two characters as they will read after expansion (for the `]]>` rule)
    for ch in s:
        if ch == "&":
            out.append("&amp;" if rng.random() >= st["charref"] else charref(ch, rng))
        elif ch == "<":
            out.append("&lt;" if rng.random() >= st["charref"] else charref(ch, rng))
        elif ch == ">":
            if prev2 == "]]" or rng.random() < st["gt"]:
                out.append("&gt;")
            else:
                out.append(">")
        elif ch == "\r":
            out.append("&#13;" if rng.random() < 0.5 else "&#xD;")
        elif ch == "\n":
            if rng.random() < st["charref"]:
                out.append("&#10;")
            else:
                out.append("\r\n" if st["crlf"] else "\n")
        elif ch == '"' and rng.random() < st["quot"]:
            out.append("&quot;")
        elif ch == "'" and rng.random() < st["quot"]:
            out.append("&apos;")
        elif rng.random() < st["charref"]:
            out.append(charref(ch, rng))
        else:
            out.append(ch)
        prev2 = (prev2 + ch)[-2:]
    return "".join(out)


def cdata(s, st):
    assert "]]>" not in s and "\r" not in s
    return "<![CDATA[" + (s.replace("\n", "\r\n") if st["crlf"] else s) + "]]>"


def ser_text(s, rng, st):
    if s == "":
        return "<![CDATA[]]>"          # the only way to write an empty text node
    if rng.random() < st["cdata"]:
        i = rng.randrange(0, len(s) + 1)
        j = rng.randrange(i, len(s) + 1)
        mid = s[i:j]
        if mid and "]]>" not in mid and "\r" not in mid:
            return (esc_run(s[:i], rng, st) if i else "") + cdata(mid, st) + (esc_run(s[j:], rng, st) if j < len(s) else "")
    return esc_run(s, rng, st)


def ser_attr_value(v, rng, st):
    q = "'" if rng.random() < st["squote"] else '"'
    out = []
    for ch in v:
        if ch == "&":
            out.append("&amp;")
        elif ch == "<":
            out.append("&lt;")
        elif ch == q:
            out.append("&quot;" if q == '"' else "&apos;")
        elif ch in "\t\n\r":
            out.append("&#%d;" % ord(ch))
        elif ch == ">" and rng.random() < st["gt"]:
            out.append("&gt;")
        elif ch not in " " and rng.random() < st["charref"]:
            out.append(charref(ch, rng))
        else:
            out.append(ch)
    return q + "".join(out) + q


def ser_node(n, rng, st, out):
    if isinstance(n, T):
        out.append(ser_text(n.text, rng, st))
    elif isinstance(n, C):
        out.append("<!--" + n.body + "-->")
    elif isinstance(n, PI):
        out.append("<?" + n.target + (" " + n.body if n.body else "") + "?>")
    else:
        q = (n.prefix + ":" if n.prefix else "") + n.tag
        sp = lambda: rng.choice([" ", "  ", "\n", "\t"]) if rng.random() < st["space"] else " "
        parts = ["<" + q]
        for p, u in n.nsdecl:
            parts.append(sp() + ("xmlns:" + p if p else "xmlns") + "=" + ser_attr_value(u, rng, st))
        attrs = [(k, v) for k, v in n.attrs]
        extra = list(n.nsattrs)
        # namespaced attributes go anywhere between the plain ones (the order of the plain ones is kept)
        seq = list(attrs)
        for a in extra:
            seq.insert(rng.randrange(0, len(seq) + 1), a)
        for k, v in seq:
            eq = " = " if rng.random() < st["space"] else "="
            parts.append(sp() + k + eq + ser_attr_value(v, rng, st))
        if rng.random() < st["space"]:
            parts.append(" ")
        if not n.kids and rng.random() < st["selfclose"]:
            parts.append("/>")
            out.append("".join(parts))
            return
        parts.append(">")
        out.append("".join(parts))
        for k in n.kids:
            ser_node(k, rng, st, out)
        out.append("</" + q + (" " if rng.random() < st["space"] else "") + ">")


def ser_doc(nodes, rng, st):
    out = []
    if rng.random() < st["bom"]:
        out.append("\ufeff")
    nl = "\r\n" if st["crlf"] else "\n"
    if rng.random() < st["decl"]:
        out.append(rng.choice(['<?xml version="1.0" encoding="utf-8"?>', '<?xml version="1.0" encoding="utf-8"?>',
                               "<?xml version='1.0'?>", '<?xml version="1.0" encoding="UTF-8" standalone="no" ?>']))
        out.append(nl if rng.random() < 0.9 else "")
    for i, n in enumerate(nodes):
        ser_node(n, rng, st, out)
        # white space between top-level nodes is not a node
        out.append(nl if rng.random() < 0.8 else rng.choice(["", " ", "\n\n"]))
    return "".join(out)


# ------------------------------------------------------------------ white space (a tree transformation)

def indent(e, depth=0, unit="  "):
    """the way Digital (XStream) pretty-prints: an element whose children are elements only gets one child per line"""
    if not isinstance(e, E):
        return
    if e.kids and not any(isinstance(k, T) for k in e.kids):
        new = []
        for k in e.kids:
            new.append(T("\n" + unit * (depth + 1)))
            new.append(k)
        new.append(T("\n" + unit * depth))
        e.kids = new
    for k in e.kids:
        indent(k, depth + 1, unit)


def sprinkle(e, rng, p, leaves=True):
    """white-space-only text nodes at random places where no text node is adjacent; with leaves=False an
    element without children stays without (white space inside <string></string> would BE its text)"""
    if not isinstance(e, E):
        return
    if not e.kids and not leaves:
        return
    for k in e.kids:
        sprinkle(k, rng, p, leaves)
    new = []
    kids = e.kids
    for i in range(len(kids) + 1):
        left = kids[i - 1] if i > 0 else None
        right = kids[i] if i < len(kids) else None
        if not isinstance(left, T) and not isinstance(right, T) and (kids or rng.random() < 0.3) and rng.random() < p:
            new.append(T(rng.choice([" ", "\n", "\t", "\n  ", "  \n", "\n\n", " \t "])))
        if right is not None:
            new.append(right)
    e.kids = new


# ------------------------------------------------------------------ descriptions (family a)

PIN_NAMES = ["A", "B", "C", "D", "Q", "S", "Y", "CLK", "Cin", "sel", "d0", "d1", "n_1", "EN", "R", "W"]
ODD_NAMES = ["Ä", "信号", "a.b", "n-1", "1", "_", "out", "x<y", "a&b", "q\"r", "p'q", "A]]>B", "α_out", "Z", "X", "C"]
OTHER_ELEMS = ["And", "Or", "Not", "NAnd", "XOr", "Const", "Text", "Add", "Splitter", "Tunnel", "LED", "Button", "Probe",
               "Register", "D_FF", "Multiplexer", "Ground", "VDD", "Rectangle", "in", "out", "IN", "Input", "Output",
               "clock", "TestCase", "testcase", "In ", "Out2"]
BITS_OK = ["1", "2", "4", "8", "16", "32", "64", "3", "7"]
BITS_ODD = ["+4", " 4", "4 ", "abc", "", "0", "65", "128", "18446744073709551615", "18446744073709551616",
            "99999999999999999999999", "-1", "-0", "+", "0x10", "4.0", "1e3", "٤", "007", "+0008"]
V_OK = ["0", "1", "3", "5", "15", "255", "7"]
V_ODD = ["-1", "-5", "+7", "abc", "", " 3", "9223372036854775807", "9223372036854775808", "-9223372036854775808",
         "-9223372036854775809", "0x1F", "1.5", "--1", "+-1", "-", "00012", "٣"]
Z_VALS = ["false", "true", "true", "TRUE", "True", "1", "", "yes", " true", "false "]


def gen_pin(rng, elem, label, odd):
    it = {"k": "pin", "elem": elem, "label": label, "bits": None, "indefault": None, "noise": []}
    r = rng.random()
    if r < 0.55:
        it["bits"] = rng.choice(BITS_OK)
    elif r < 0.55 + 0.25 * odd:
        it["bits"] = rng.choice(BITS_ODD)
    if elem != "Out" or rng.random() < 0.1:
        r = rng.random()
        if r < 0.5:
            v = rng.choice(V_OK) if rng.random() > 0.4 * odd else rng.choice(V_ODD)
            z = "true" if rng.random() < 0.15 else "false" if rng.random() > 0.5 * odd else rng.choice(Z_VALS)
            d = {"form": "value", "v": v, "z": z}
            if rng.random() < 0.15 * odd:
                d["v"] = None
            if rng.random() < 0.15 * odd:
                d["z"] = None
            if rng.random() < 0.3:
                d["order"] = "zv"
            it["indefault"] = d
        elif r < 0.5 + 0.1 * odd:
            it["indefault"] = {"form": "long", "text": rng.choice(V_OK)}
    for _ in range(rng.choice([0, 0, 1, 2])):
        it["noise"].append(rng.choice(["rotation", "Description", "DescriptionLabel", "isHighZ", "Frequency", "runRealTime",
                                       "small", "intFormat", "pinNumber", "Color"]))
    return it


def gen_source(rng, header, col_kinds, odd):
    """test source text: `header` = list of column names, col_kinds = 'i' | 'o' per column"""
    nl = "\r\n" if rng.random() < 0.08 else "\n"
    lead = ""
    r = rng.random()
    if r < 0.12:
        lead = rng.choice(["\n", "\n\n", "  \n", "\t\n \n", " \r\n"])
    # blanks between entries: space and TAB, sometimes a lone CR or FF (both are blanks, neither is a line break)
    odd_sep = rng.random() < 0.12 * (1 + odd)
    sep = lambda: rng.choice([" ", " ", " ", "  ", "\t", " \t"] + ([" \r", "\r", " \r "] if odd_sep else []))
    h = (rng.choice(["", "", "", " ", "\t"]) + "".join(n + sep() for n in header)).rstrip(" \t") + rng.choice(["", "", " ", "\t"])
    if not header:
        h = ""
    if header and rng.random() < 0.05 * (1 + odd):
        # a character that other notions of white space know, in front of / inside the header line: it is part of a NAME
        ch = rng.choice(["\u00a0", "\u0085", "\u2003", "\u2028", "\u3000", "\ufeff"])
        h = rng.choice([ch + h, h.replace(header[0], header[0] + ch, 1), h + ch])
    lines = [lead + h]
    nrows = rng.choice([0, 1, 1, 2, 3, 4])
    body_ok = True
    for _ in range(nrows):
        r = rng.random()
        if r < 0.08:
            lines.append("# " + rng.choice(["plain comment", "a<b && c>d", "<b>bold</b> &amp; ]]> \"q\" 'a'", "äöü 信"]))
        elif r < 0.12 * (1 + odd):
            lines.append(rng.choice(["let x = 1 << 2;", "let y = (3 > 2) & 1;", "&&& <>", "1 1", "end loop", "]]>"]))
        else:
            row = []
            for kd in col_kinds:
                if kd == "i":
                    row.append(rng.choice(["0", "1", "0", "1", "0", "1", "3", "0xF", "C", "X", "Z"]))
                else:
                    row.append(rng.choice(["0", "1", "0", "1", "X", "Z", "2", "0b11"]))
            lines.append(" ".join(row))
    s = nl.join(lines)
    r = rng.random()
    if r < 0.88:
        s += nl
    elif r < 0.94:
        s += nl + nl
    # else: no final newline (a header-only source without one cannot be parsed: EmptyTest)
    if header and rng.random() < 0.08 * (1 + 2 * odd):
        # a test that is broken at its very end, followed by blank space: the error is located at / near the end of
        # the source, and load_test must attach a source text that contains that location
        s = s.rstrip("\r\n") + nl + rng.choice(["loop(i,2)" + nl + " ".join(["1"] * len(header)), "while(1)", "let q = ", "let q = (1 +",
                                                 " ".join(["1"] * (len(header) + 2)), "loop(i,2)", "bits(70,1)", "1 $"]) + \
            rng.choice(["", " ", "   ", nl + "  ", nl + nl + " \t", " " + nl + " ", "\t\t" + nl])
    return s


def gen_desc(rng, odd=0.5):
    """an abstract circuit description: pins, other components, test cases, in document order.
    `odd` in [0,1]: how often unusual features are used (errors become more likely)."""
    items = []
    pool = list(PIN_NAMES)
    rng.shuffle(pool)
    n_in = rng.choice([0, 1, 1, 2, 2, 3, 4, 6])
    n_clk = rng.choice([0, 0, 0, 1, 1, 2])
    n_out = rng.choice([0, 1, 1, 2, 2, 3, 4])
    ins, clks, outs = [], [], []

    def fresh():
        if rng.random() < 0.25 * odd:
            return rng.choice(ODD_NAMES)
        return pool.pop() if pool else "P%d" % rng.randrange(100)

    for _ in range(n_in):
        ins.append(fresh())
    for _ in range(n_clk):
        clks.append(fresh() if rng.random() < 0.5 else rng.choice(["CLK", "C", "clk"]))
    for _ in range(n_out):
        outs.append(fresh())
    # names ending in _out
    feats = []
    if (ins or clks) and rng.random() < 0.35 * (0.3 + odd):
        base = rng.choice(ins + clks)
        (outs if rng.random() < 0.6 else ins).append(base + "_out")       # a pin labelled <input>_out
        feats.append("pin-named-in_out")
    if outs and rng.random() < 0.1 * odd:
        outs.append(rng.choice(outs) + "_out")
    if rng.random() < 0.06 * odd:
        (ins if rng.random() < 0.5 else outs).append("_out")
    # duplicates
    if rng.random() < 0.12 * odd and (ins or outs):
        allp = ins + clks + outs
        (ins if rng.random() < 0.5 else outs).append(rng.choice(allp))
        feats.append("dup-label")
    pins = [gen_pin(rng, "In", n, odd) for n in ins] + [gen_pin(rng, "Clock", n, odd) for n in clks] + \
           [gen_pin(rng, "Out", n, odd) for n in outs]
    for p in pins:
        r = rng.random()
        if r < 0.06 * odd:
            p["label"] = None          # no Label entry
        elif r < 0.12 * odd:
            p["label"] = ""            # <string></string>
        elif r < 0.15 * odd:
            p["label"] = p["label"] + rng.choice([" ", " x", "\t"])      # a label that no header column can spell
    others = []
    for _ in range(rng.choice([0, 1, 2, 3, 5])):
        others.append({"k": "other", "elem": rng.choice(OTHER_ELEMS),
                       "label": rng.choice([None, None, "A", "B", "Q", "L1", "CLK"]), "bits": rng.choice([None, "8"])})
    # test cases
    in_names = [p["label"] for p in pins if p["elem"] != "Out" and p["label"]]
    out_names = [p["label"] for p in pins if p["elem"] == "Out" and p["label"]]
    all_names = [p["label"] for p in pins if p["label"]]
    usable = lambda n: n and not re.search(r"[ \t\r\n\f]", n)
    tests = []
    n_tests = rng.choice([0, 1, 1, 1, 2, 2, 3, 4])
    tlabels = ["Simple", "Failing", "t1", "test 2", "Übung", "a<b", "T&C", "x", "Simple"]
    for ti in range(n_tests):
        t = {"k": "test", "label": rng.choice(tlabels), "source": None}
        r = rng.random()
        if r < 0.08:
            t["label"] = None
        elif r < 0.16:
            t["label"] = ""
        elif r < 0.3 and tests:
            t["label"] = tests[0]["label"]           # duplicate label
        r = rng.random()
        if r < 0.04 * (0.5 + odd):
            t["source"] = None                       # <dataString/>
            feats.append("src-empty")
        elif r < 0.08 * (0.5 + odd):
            t["source"] = rng.choice(["\n", "\n\n\n", "  \n\t\n", " ", "\r\n\r\n", "   ", "\r", "\t\r\n \r\n"])
            feats.append("src-blank")
        else:
            cols = [n for n in dict.fromkeys(all_names) if usable(n) and rng.random() < 0.8]
            kinds = {}
            for n in cols:
                kinds[n] = "i" if n in in_names else "o"
            ins_ok = [n for n in dict.fromkeys(in_names) if usable(n)]
            if ins_ok and rng.random() < 0.35:
                n = rng.choice(ins_ok) + "_out"
                if n not in cols:
                    cols.append(n)
                    kinds[n] = "o"
                    feats.append("hdr-in_out")
            if rng.random() < 0.07 * (0.3 + odd):
                outs_ok = [n for n in out_names if usable(n)]
                n = (rng.choice(outs_ok) if outs_ok and rng.random() < 0.6 else rng.choice(["X", "nopin", "Ä"])) + "_out"
                if n not in cols:
                    cols.append(n)
                    kinds[n] = "o"
                    feats.append("hdr-other_out")
            if rng.random() < 0.06 * (0.3 + odd):
                # U+00A0, U+2003, U+0085, U+2028 are not blank for the header lexer: they are (part of) a name
                n = rng.choice(["unknown", "U", "a", "信", "A,B", "q;", "_out", "out_", "A_OUT", "A\u00a0B", "\u2003", "x\u0085y",
                                "\u2028", "#c", "(A)", "A_out_out", "__out"])
                if n not in cols:
                    cols.append(n)
                    kinds[n] = "o"
                    feats.append("hdr-unknown")
            if not cols:
                first = [n for n in dict.fromkeys(all_names) if usable(n)]
                if first:
                    cols.append(rng.choice(first))
                    kinds[cols[0]] = "i" if cols[0] in in_names else "o"
            rng.shuffle(cols)
            if cols and rng.random() < 0.03 * (0.3 + odd):
                cols.append(rng.choice(cols))        # a duplicate column: header error
                feats.append("hdr-dup")
            src = gen_source(rng, cols, [kinds[c] for c in cols], odd)
            if rng.random() < 0.03 * (0.3 + odd):
                src = src.rstrip("\r\n").split("\n")[0].rstrip("\r")     # header only, not terminated
                feats.append("hdr-unterminated")
            if src == "":
                src = None
            t["source"] = src
        tests.append(t)
    # document order: Digital writes components in insertion order - any interleaving
    items = pins + others + tests
    r = rng.random()
    if r < 0.6:
        rng.shuffle(items)
    elif r < 0.8:
        items = tests + others + list(reversed(pins))
    return {"items": items, "features": sorted(set(feats))}


NOISE_VALUES = {
    "rotation": lambda rng: E("rotation", [("rotation", str(rng.randrange(4)))]),
    "Description": lambda rng: txt("string", rng.choice(["Label", "Bits", "an input", "InDefault", "x < y & z"])),
    "DescriptionLabel": lambda rng: txt("string", "Label"),
    "isHighZ": lambda rng: txt("boolean", "true"),
    "Frequency": lambda rng: txt("int", "10"),
    "runRealTime": lambda rng: txt("boolean", "true"),
    "small": lambda rng: txt("boolean", "true"),
    "intFormat": lambda rng: txt("intFormat", "hex"),
    "pinNumber": lambda rng: txt("string", "3"),
    "Color": lambda rng: E("awt-color", [], [txt("red", "255"), txt("green", "0"), txt("blue", "0"), txt("alpha", "255")]),
}


def entry(key, value):
    return E("entry", [], [txt("string", key), value])


def visual_element(rng, name, entries):
    return E("visualElement", [], [txt("elementName", name), E("elementAttributes", [], entries),
                                   E("pos", [("x", str(20 * rng.randrange(-5, 60))), ("y", str(20 * rng.randrange(-5, 40)))])])


def item_tree(rng, it):
    entries = []
    if it["k"] in ("pin", "other"):
        if it["label"] is not None:
            entries.append(entry("Label", txt("string", it["label"])))
        if it.get("bits") is not None:
            entries.append(entry("Bits", txt("int", it["bits"])))
        d = it.get("indefault")
        if d:
            if d["form"] == "long":
                entries.append(entry("InDefault", txt("long", d["text"])))
            else:
                attrs = []
                if d["v"] is not None:
                    attrs.append(("v", d["v"]))
                if d["z"] is not None:
                    attrs.append(("z", d["z"]))
                if d.get("order") == "zv":
                    attrs.reverse()
                entries.append(entry("InDefault", E("value", attrs)))
        for key in it.get("noise", []):
            k2 = "Description" if key == "DescriptionLabel" else key
            if not any(e.kids[0].kids[0].text == k2 for e in entries):
                entries.append(entry(k2, NOISE_VALUES[key](rng)))
        rng.shuffle(entries)
        return visual_element(rng, it["elem"], entries)
    # test case
    if it["label"] is not None:
        entries.append(entry("Label", txt("string", it["label"])))
    entries.append(entry("Testdata", E("testData", [], [txt("dataString", it["source"] or "")])))
    if rng.random() < 0.3:
        rng.shuffle(entries)
    return visual_element(rng, "Testcase", entries)


def desc_tree(rng, desc):
    ves = [item_tree(rng, it) for it in desc["items"]]
    attributes = E("attributes")
    if rng.random() < 0.3:
        attributes.kids.append(entry("shapeType", txt("shapeType", "DIL")))
    if rng.random() < 0.15:
        attributes.kids.append(entry("Label", txt("string", "circuit label")))     # a Label outside any visualElement
    wires = E("wires")
    for _ in range(rng.choice([0, 0, 1, 3])):
        wires.kids.append(E("wire", [], [E("p1", [("x", str(20 * rng.randrange(40))), ("y", str(20 * rng.randrange(40)))]),
                                         E("p2", [("x", str(20 * rng.randrange(40))), ("y", str(20 * rng.randrange(40)))])]))
    kids = [txt("version", rng.choice(["1", "2"])), attributes, E("visualElements", [], ves), wires, E("measurementOrdering")]
    return E("circuit", [], kids)


def top_level(rng, root, p=0.15):
    nodes = []
    if rng.random() < p:
        nodes.append(C(rng.choice([" generated ", "visualElement", "<visualElement/>"])))
    if rng.random() < p / 2:
        nodes.append(PI("pi", "some data"))
    nodes.append(root)
    if rng.random() < p:
        nodes.append(C(" end "))
    return nodes


# ------------------------------------------------------------------ structural variations (family b)

def _pick(rng, l):
    return rng.choice(l) if l else None


def m_testdata_tag(rng, root):
    x = _pick(rng, find_all(root, "testData"))
    if not x:
        return None
    x[0].tag = rng.choice(["testdata", "string", "TestData", "data", "testData2"])
    return "testdata-tag"


def m_datastring_not_first(rng, root):
    x = _pick(rng, find_all(root, "testData"))
    if not x:
        return None
    td = x[0]
    r = rng.random()
    if r < 0.4:
        td.kids.insert(0, rng.choice([E("x"), txt("dataString2", "A B\n0 0\n"), txt("string", "A\n1\n")]))
        return "datastring-not-first"
    if r < 0.6:
        td.kids.insert(0, C(" the data "))
        return "comment-before-datastring"
    if r < 0.8:
        td.kids.append(txt("dataString", "Zz Yy\n0 0\n"))
        return "second-datastring"
    td.kids = []
    return "testdata-empty"


def m_entry_no_elem(rng, root):
    x = _pick(rng, find_all(root, "elementAttributes"))
    if not x:
        return None
    e = rng.choice([E("entry"), E("entry", [], [T("Label")]), E("entry", [], [C("c")]), E("entry", [], [T("\n  ")])])
    x[0].kids.insert(rng.randrange(len(x[0].kids) + 1), e)
    return "entry-without-elements"


def m_wrap(rng, root):
    x = _pick(rng, find_all(root, "elementAttributes"))
    if not x:
        return None
    ea, parent = x
    r = rng.random()
    if r < 0.4:
        ea.kids = [E(rng.choice(["wrapper", "entry", "map"]), [], ea.kids)]
        return "entries-wrapped"
    if r < 0.7 and parent is not None:
        i = parent.kids.index(ea)
        parent.kids[i] = E(rng.choice(["extra", "elementName", "x"]), [], [ea])
        return "attributes-wrapped"
    ens = [n for n in (parent.kids if parent else []) if isinstance(n, E) and n.tag == "elementName"]
    if ens:
        i = parent.kids.index(ens[0])
        parent.kids[i] = E("x", [], [ens[0]])
        return "elementname-wrapped"
    return None


def m_nest_ve(rng, root):
    ves = find_all(root, "visualElement")
    if len(ves) < 2:
        return None
    (a, pa), (b, pb) = rng.sample(ves, 2)
    if any(n is a for n, _ in walk(b)) or pb is None:
        return None
    pb.kids.remove(b)
    r = rng.random()
    if r < 0.4:
        a.kids.insert(0, b)
        return "nested-visualElement-first"
    if r < 0.7:
        a.kids.append(b)
        return "nested-visualElement-last"
    eas = [n for n in a.kids if isinstance(n, E) and n.tag == "elementAttributes"]
    if eas:
        eas[0].kids.insert(rng.randrange(len(eas[0].kids) + 1), b)
        return "nested-visualElement-in-attributes"
    a.kids.append(b)
    return "nested-visualElement-last"


def m_elemname(rng, root):
    x = _pick(rng, find_all(root, "elementName"))
    if not x or x[1] is None:
        return None
    en, parent = x
    r = rng.random()
    if r < 0.3:
        parent.kids.remove(en)
        return "elementName-missing"
    if r < 0.45:
        en.kids = []
        return "elementName-empty"
    if r < 0.7:
        parent.kids.remove(en)
        parent.kids.append(en)
        return "elementName-last"
    if r < 0.85:
        parent.kids.insert(0, txt("elementName", rng.choice(["In", "Out", "Testcase", "Clock", "And"])))
        return "elementName-twice"
    en.kids = [E("b", [], en.kids)]
    return "elementName-nested-text"


def m_comment_in_text(rng, root):
    cands = [(n, p) for n, p in walk(root) if isinstance(n, E) and n.tag in ("string", "elementName", "int", "dataString", "long")
             and len(n.kids) == 1 and isinstance(n.kids[0], T) and n.kids[0].text]
    x = _pick(rng, cands)
    if not x:
        return None
    n = x[0]
    s = n.kids[0].text
    i = rng.choice([0, len(s), rng.randrange(len(s) + 1), rng.randrange(len(s) + 1)])
    mid = C(rng.choice(["", " c ", "Label", "x"])) if rng.random() < 0.8 else PI("p", "q")
    kids = []
    if s[:i]:
        kids.append(T(s[:i]))
    kids.append(mid)
    if s[i:]:
        kids.append(T(s[i:]))
    n.kids = kids
    return "comment-in-" + n.tag


def m_value_attrs(rng, root):
    x = _pick(rng, find_all(root, "value"))
    if not x:
        return None
    v = x[0]
    r = rng.random()
    if r < 0.3:
        rng.shuffle(v.attrs)
        if not any(k == "w" for k, _ in v.attrs):
            v.attrs.insert(rng.randrange(len(v.attrs) + 1), ("w", "9"))
        return "value-extra-attr"
    if r < 0.6:
        v.nsdecl = [("d", "urn:x-dig")]
        v.nsattrs = [("d:z", "true")] + ([("d:v", "77")] if rng.random() < 0.5 else [])
        if rng.random() < 0.5:
            v.attrs = [a for a in v.attrs if a[0] != "z"]
        return "value-namespaced-attr"
    if r < 0.8:
        v.attrs = [(k, (val + " ") if k == "z" else val) for k, val in v.attrs]
        return "value-z-padded"
    v.kids = [T("5")]
    return "value-with-text"


def m_dup_entry(rng, root):
    x = _pick(rng, find_all(root, "elementAttributes"))
    if not x:
        return None
    ea = x[0]
    key = rng.choice(["Label", "Bits", "InDefault", "Testdata"])
    if key == "Label":
        e = entry("Label", txt("string", rng.choice(["DUP", "A", "Q", ""])))
    elif key == "Bits":
        e = entry("Bits", txt("int", rng.choice(["5", "x", ""])))
    elif key == "InDefault":
        e = entry("InDefault", E("value", [("v", "9"), ("z", rng.choice(["true", "false"]))]))
    else:
        e = entry("Testdata", E("testData", [], [txt("dataString", rng.choice(["A Q\n0 1\n", "", "unknownsig\n0\n"]))]))
    ea.kids.insert(rng.choice([0, len(ea.kids)]), e)
    return "extra-entry-" + key


def m_entry_arity(rng, root):
    cands = [(n, p) for n, p in find_all(root, "entry") if len([k for k in n.kids if isinstance(k, E)]) == 2]
    x = _pick(rng, cands)
    if not x:
        return None
    en = x[0]
    r = rng.random()
    if r < 0.4:
        en.kids.append(rng.choice([txt("string", "ZZ"), txt("int", "3"), E("value", [("v", "1"), ("z", "true")]), E("x")]))
        return "entry-three-children"
    if r < 0.7:
        en.kids = [k for k in en.kids if isinstance(k, E)][:1]
        return "entry-one-child"
    en.kids.reverse()
    return "entry-reversed"


def m_two_attrs(rng, root):
    x = _pick(rng, find_all(root, "visualElement"))
    if not x:
        return None
    ve = x[0]
    ea = E("elementAttributes", [], [entry("Label", txt("string", rng.choice(["SECOND", "A", "Q"])))] if rng.random() < 0.7 else [])
    r = rng.random()
    if r < 0.5:
        ve.kids.insert(0, ea)
        return "second-elementAttributes-first"
    if r < 0.8:
        ve.kids.append(ea)
        return "second-elementAttributes-last"
    ve.kids = [k for k in ve.kids if not (isinstance(k, E) and k.tag == "elementAttributes")]
    return "elementAttributes-missing"


def m_ve_outside(rng, root):
    x = _pick(rng, find_all(root, "visualElement"))
    if not x or x[1] is None:
        return None
    ve, parent = x
    if parent is root:
        return None
    parent.kids.remove(ve)
    tgt = rng.choice([k for k in root.kids if isinstance(k, E)] + [root])
    if any(n is tgt for n, _ in walk(ve)):
        tgt = root
    tgt.kids.insert(rng.randrange(len(tgt.kids) + 1) if not any(isinstance(k, T) for k in tgt.kids) else 0, ve)
    return "visualElement-moved"


def m_key_tag(rng, root):
    cands = [(n, p) for n, p in find_all(root, "entry") if n.kids and isinstance(n.kids[0], E) and n.kids[0].tag == "string"]
    x = _pick(rng, cands)
    if not x:
        return None
    x[0].kids[0].tag = rng.choice(["String", "str", "int", "strin", "string2"])
    return "key-not-string"


def m_value_tag(rng, root):
    cands = [(n, p) for n, p in find_all(root, "entry") if len(n.kids) == 2 and isinstance(n.kids[1], E)
             and n.kids[1].tag in ("string", "int")]
    x = _pick(rng, cands)
    if not x:
        return None
    v = x[0].kids[1]
    v.tag = rng.choice(["int", "long", "string", "label", "x"])
    return "value-tag-changed"


def m_prefix(rng, root):
    r = rng.random()
    if r < 0.3:
        root.nsdecl = [(None, "urn:digital")]
        return "default-namespace"
    cands = [(n, p) for n, p in walk(root) if isinstance(n, E) and n.tag in ("visualElement", "string", "entry", "elementName",
                                                                            "elementAttributes", "testData", "dataString")]
    x = _pick(rng, cands)
    if not x:
        return None
    x[0].prefix = "d"
    x[0].nsdecl = [("d", "urn:x-dig")]
    return "prefixed-" + x[0].tag


def m_text_in_entry(rng, root):
    x = _pick(rng, find_all(root, "entry") + find_all(root, "elementAttributes") + find_all(root, "visualElement"))
    if not x:
        return None
    n = x[0]
    if n.kids and isinstance(n.kids[0], T):
        return None
    n.kids.insert(0, T(rng.choice(["Label", "junk", "In", "x y"])))
    return "text-first-in-" + n.tag


def m_empty_cdata(rng, root):
    cands = [(n, p) for n, p in walk(root) if isinstance(n, E) and n.tag in ("string", "dataString", "elementName", "int") and not n.kids]
    x = _pick(rng, cands)
    if not x:
        return None
    x[0].kids = [T("")]
    return "empty-text-node-in-" + x[0].tag


def m_shuffle_ve(rng, root):
    x = _pick(rng, find_all(root, "visualElement"))
    if not x:
        return None
    rng.shuffle(x[0].kids)
    return "visualElement-children-shuffled"


def m_root(rng, root):
    r = rng.random()
    if r < 0.4:
        root.tag = rng.choice(["visualElement", "entry", "elementAttributes", "Circuit"])
        return "root-renamed"
    ves = find_all(root, "visualElements")
    if ves and ves[0][1] is not None:
        ves[0][0].tag = rng.choice(["visualelements", "x", "visualElement"])
        return "visualElements-renamed"
    return None


MUTATIONS = [m_testdata_tag, m_datastring_not_first, m_entry_no_elem, m_wrap, m_nest_ve, m_elemname, m_comment_in_text,
             m_comment_in_text, m_value_attrs, m_dup_entry, m_entry_arity, m_two_attrs, m_ve_outside, m_key_tag, m_value_tag,
             m_prefix, m_text_in_entry, m_empty_cdata, m_shuffle_ve, m_root]

VOCAB_TAGS = ["visualElement", "visualElement", "elementName", "elementAttributes", "entry", "entry", "string", "string", "int",
              "testData", "dataString", "value", "circuit", "visualElements", "x"]
VOCAB_TEXT = ["In", "Out", "Clock", "Testcase", "Label", "Bits", "InDefault", "Testdata", "A", "B", "Q", "A_out", "4", "+2",
              "A B\n0 1\n", "A Q\n1 1\n", "A A_out\n0 0\n", "Q\n", "\n", " ", "zz\n1\n"]


def random_tree(rng, depth):
    tag = rng.choice(VOCAB_TAGS)
    e = E(tag)
    if tag == "value":
        for k in rng.sample(["v", "z", "w"], rng.randrange(0, 4)):
            e.attrs.append((k, rng.choice(["true", "false", "1", "-3", "x"])))
    n = rng.choice([0, 1, 1, 2, 3, 4]) if depth > 0 else rng.choice([0, 1])
    prev_text = False
    for _ in range(n):
        r = rng.random()
        if (r < 0.3 or depth == 0) and not prev_text:
            e.kids.append(T(rng.choice(VOCAB_TEXT)))
            prev_text = True
        elif r < 0.36:
            e.kids.append(C(" c "))
            prev_text = False
        elif depth > 0:
            e.kids.append(random_tree(rng, depth - 1))
            prev_text = False
    return e


def grammar_tree(rng):
    """random trees that follow dig.rs's expectations loosely: visualElements with random entry lists"""
    ves = []
    for _ in range(rng.randrange(1, 6)):
        entries = []
        for _ in range(rng.randrange(0, 5)):
            key = rng.choice(["Label", "Bits", "InDefault", "Testdata", "Label", "other"])
            val = rng.choice([txt("string", rng.choice(["A", "B", "Q", "A_out", "", "t"])), txt("int", rng.choice(["2", "x", ""])),
                              E("value", [("v", rng.choice(["1", "-2", "q"])), ("z", rng.choice(["true", "false"]))]),
                              E("testData", [], [txt("dataString", rng.choice(["A B\n0 1\n", "A Q\n1 1\n", "A A_out\n0 0\n", "Q\n", "", "\n", "B_out\n1\n"]))]),
                              E("testData")])
            kids = [txt("string", key), val]
            if rng.random() < 0.15:
                kids = kids[:1]
            if rng.random() < 0.1:
                kids.append(txt("string", "last"))
            entries.append(E("entry", [], kids))
        name = rng.choice(["In", "In", "Out", "Out", "Clock", "Testcase", "Testcase", "And"])
        ves.append(E("visualElement", [], [txt("elementName", name), E("elementAttributes", [], entries)]))
    return E("circuit", [], [E("visualElements", [], ves)])


# ------------------------------------------------------------------ byte-level corruptions (family c)

SPECIAL_DOCS = ["", " ", "\n", "<", "<a", "<a>", "</a>", "<a></b>", "\ufeff", "\ufeff<a/>", "<?xml version=\"1.0\"?>", "<?xml version=\"1.0\"?>\n",
                "<!DOCTYPE circuit><circuit/>", "<!DOCTYPE c [<!ENTITY e 'x'>]><c>&e;</c>", "<a/><b/>", "<a/>text", "text<a/>",
                "<a>\x00</a>", "<a>\x0c</a>", "<a>\uffff</a>", "<a b='1' b='2'/>", "<a>&foo;</a>", "<a>&#0;</a>", "<a>&#x110000;</a>",
                "<a>&#xD800;</a>", "<a>&amp</a>", "<a>]]></a>", "<a><![CDATA[x</a>", "<a><!-- -- --></a>", "<a><!--x</a>", "<x:a/>",
                "<a x:b='1'/>", "<a xmlns:x='u' x:b='1' x:b='2'/>", "<?xml version=\"1.0\"?><?xml version=\"1.0\"?><a/>",
                " <?xml version=\"1.0\"?><a/>", "<a b=1/>", "<a b/>", "<a 1='2'/>", "<1/>", "<a><?xml x?></a>", "\r\n\r\n<a/>\r\n",
                "<a>\r</a>\r", "<a>" + "<b>" * 200 + "</b>" * 200 + "</a>", "<circuit><visualElement><elementName>In</elementName>",
                "<a>&#x26;#x26;</a>", "<a b='&lt;'/>", "<a b='<'/>", "<a>&lt;![CDATA[</a>", "<a><![CDATA[]]></a>", "<?pi?>", "<!---->",
                # unterminated constructs that END WITH A LINE BREAK (the error position is then on a row past the last line)
                "<!--\n", "<a><!--\n", "<a><!-- x\n\n", "<![CDATA[\n", "<a><![CDATA[x\n", "<?xml\n", "<?xml version=\"1.0\"\n", "<a\n", "<a b='\n", "<a>\n",
                "<a>&\n", "<?pi\n", "<!DOCTYPE a [\n", "<a></a\n", "\n\n", "\r\n", "<a>\r\n<!--\r\n"]


def corrupt(rng, xml):
    """-> (text, what).  Works on the UTF-8 bytes; the result is decoded leniently (the API takes &str)."""
    b = bytearray(xml.encode("utf-8"))
    r = rng.random()
    what = None
    if r < 0.25 and len(b) > 1:
        k = rng.randrange(0, len(b))
        b = b[:k]
        what = "truncated"
        if rng.random() < 0.3:
            b += rng.choice([b"\n", b"\r\n", b"\n\n"])
            what = "truncated+newline"
    elif r < 0.40:
        ms = list(re.finditer(rb"<(/?)([A-Za-z][A-Za-z0-9]*)", bytes(b)))
        if ms:
            m = rng.choice(ms)
            new = rng.choice([b"x", m.group(2) + b"2", m.group(2)[:-1] or b"y", m.group(2).upper()])
            b[m.start(2):m.end(2)] = new
            what = "tag-renamed-one-side"
    elif r < 0.55:
        ms = [m.start() for m in re.finditer(rb"&[a-z#0-9A-Fx]+;", bytes(b))]
        if ms and rng.random() < 0.6:
            i = rng.choice(ms)
            j = bytes(b).index(b";", i)
            b[i:j + 1] = rng.choice([b"&amp", b"&;", b"&foo;", b"&#xZZ;", b"&#0;", b"&", b"&#;", b"&#x;", b"& amp;", b"&#99999999999;", b"&#xFFFF;"])
        else:
            i = rng.randrange(0, len(b) + 1)
            b[i:i] = rng.choice([b"&", b"&foo;", b"&#0;", b"&#x1F;", b"&amp", b"&#xD800;", b"&lt", b"&#1114112;"])
        what = "broken-entity"
    elif r < 0.80:
        for _ in range(rng.choice([1, 1, 2, 4])):
            if b:
                i = rng.randrange(len(b))
                b[i] = rng.choice([rng.randrange(256), rng.randrange(128), ord("<"), ord(">"), ord("&"), ord('"'), 0, 0x0C, ord("/"), ord("]")])
        what = "byte-flips"
    elif r < 0.90:
        chars = [i for i, c in enumerate(b) if c in b"<>\"'/=?!"]
        if chars:
            i = rng.choice(chars)
            del b[i]
            what = "delimiter-deleted"
    else:
        i = rng.randrange(0, len(b) + 1)
        ins = rng.choice([b"<!DOCTYPE circuit>", b"<circuit/>", b"\x00", b"\xef\xbf\xbf", b"<![CDATA[", b"]]>", b"<!--", b"-->", b"<?xml version=\"1.0\"?>",
                          b"\xef\xbb\xbf", b"\r", b"<a b='1' b='2'/>", b"</x>", b"<x>", b"\xff", b"\xc3"])
        b[i:i] = ins
        what = "insertion"
    if what is None:
        b = b[: len(b) // 2]
        what = "truncated"
    return bytes(b).decode("utf-8", "replace"), what


# ------------------------------------------------------------------ cases

def features_of_desc(desc):
    f = list(desc.get("features", []))
    pins = [i for i in desc["items"] if i["k"] == "pin"]
    tests = [i for i in desc["items"] if i["k"] == "test"]
    for p in pins:
        if p["label"] is None:
            f.append("pin-no-label")
        elif p["label"] == "":
            f.append("pin-empty-label")
        elif not p["label"].isascii():
            f.append("label-non-ascii")
        if p["label"] and p["label"].endswith("_out"):
            f.append("pin-label-ends-_out")
        if p["bits"] is None:
            f.append("bits-absent")
        elif re.fullmatch(r"[0-9]+", p["bits"]) and int(p["bits"]) <= 64:
            f.append("bits-plain")
        else:
            f.append("bits-odd")
        d = p["indefault"]
        if d is None:
            f.append("indefault-absent")
        elif d["form"] == "long":
            f.append("indefault-long")
        else:
            if d["z"] == "true":
                f.append("indefault-z-true")
            if d["v"] is None:
                f.append("indefault-no-v")
            elif not re.fullmatch(r"[0-9]+", d["v"]):
                f.append("indefault-v-odd")
            else:
                f.append("indefault-v-plain")
    for t in tests:
        if t["label"] is None:
            f.append("test-no-label")
        elif t["label"] == "":
            f.append("test-empty-label")
    labels = [t["label"] for t in tests]
    if len(set(labels)) < len(labels):
        f.append("test-dup-label")
    f.append("pins:%s" % bucket(len(pins)))
    f.append("tests:%d" % len(tests))
    return sorted(set(f))


def bucket(n):
    return str(n) if n < 3 else "3-5" if n < 6 else "6+"


def make_case(cid, rng, nodes, st, family, extra):
    check_tree(nodes)
    xml = ser_doc(nodes, rng, st)
    c = {"id": cid, "kind": "dig", "xml": xml, "tree": tokens(nodes), "c16": dict(extra, family=family)}
    return c


def gen_desc_case(cid, seed):
    rng = random.Random(seed)
    odd = rng.choice([0.0, 0.2, 0.5, 0.5, 1.0])
    desc = gen_desc(rng, odd)
    root = desc_tree(rng, desc)
    r = rng.random()
    ws = "none"
    if r < 0.6:
        indent(root, 0, rng.choice(["  ", "  ", "    ", "\t"]))
        ws = "indent"
    elif r < 0.75:
        sprinkle(root, rng, 0.3, leaves=False)
        ws = "sprinkled"
    nodes = top_level(rng, root, 0.1)
    st = style(rng, rng.choice([0.0, 0.3, 1.0]))
    feats = features_of_desc(desc) + ["ws:" + ws] + (["crlf"] if st["crlf"] else []) + (["cdata"] if st["cdata"] else []) + \
            (["charrefs"] if st["charref"] else [])
    return make_case(cid, rng, nodes, st, "desc", {"desc": desc, "features": feats})


def gen_struct_case(cid, seed):
    rng = random.Random(seed)
    r = rng.random()
    feats = []
    if r < 0.70:
        desc = gen_desc(rng, rng.choice([0.0, 0.2, 0.5]))
        root = desc_tree(rng, desc)
        for _ in range(rng.choice([1, 1, 2, 3])):
            what = rng.choice(MUTATIONS)(rng, root)
            if what:
                feats.append("mut:" + what)
        if not feats:
            feats.append("mut:none-applicable")
        merge_text(root)
    elif r < 0.85:
        root = grammar_tree(rng)
        feats.append("grammar-tree")
    else:
        root = random_tree(rng, rng.choice([2, 3, 4, 5]))
        feats.append("random-tree")
    r = rng.random()
    if r < 0.35:
        indent(root, 0, rng.choice(["  ", "\t", " "]))
        feats.append("ws:indent")
    elif r < 0.7:
        sprinkle(root, rng, rng.choice([0.1, 0.3, 0.7]))
        feats.append("ws:sprinkled")
    else:
        feats.append("ws:none")
    nodes = top_level(rng, root, 0.3)
    st = style(rng, rng.choice([0.3, 1.0]))
    if st["crlf"]:
        feats.append("crlf")
    if st["cdata"]:
        feats.append("cdata")
    return make_case(cid, rng, nodes, st, "struct", {"features": feats})


def gen_corrupt_case(cid, seed):
    rng = random.Random(seed)
    if rng.random() < 0.12:
        xml = rng.choice(SPECIAL_DOCS)
        what = "special"
    else:
        base = gen_desc_case("x", rng.randrange(1 << 30)) if rng.random() < 0.7 else gen_struct_case("x", rng.randrange(1 << 30))
        xml, what = corrupt(rng, base["xml"])
        if rng.random() < 0.15:
            xml, w2 = corrupt(rng, xml)
            what += "+" + w2
    # the case file format is line based and hex encoded: any text is representable
    return {"id": cid, "kind": "dig", "xml": xml, "no_model": True, "c16": {"family": "corrupt", "features": ["corrupt:" + what]}}


def cases(seed, n_desc, n_struct, n_corrupt):
    out = []
    for i in range(n_desc):
        out.append(gen_desc_case("c16-a-%d-%d" % (seed, i), (seed * 1000003 + i * 7919 + 1) & 0x7FFFFFFF))
    for i in range(n_struct):
        out.append(gen_struct_case("c16-b-%d-%d" % (seed, i), (seed * 1000003 + i * 7919 + 2) & 0x7FFFFFFF))
    # every special document, always (they are few)
    for i, xml in enumerate(SPECIAL_DOCS):
        out.append({"id": "c16-s-%d" % i, "kind": "dig", "xml": xml, "no_model": True, "c16": {"family": "corrupt", "features": ["corrupt:special"]}})
    for i in range(n_corrupt):
        out.append(gen_corrupt_case("c16-c-%d-%d" % (seed, i), (seed * 1000003 + i * 7919 + 3) & 0x7FFFFFFF))
    return out


def classify(case, trace):
    """distribution keys: what the generator produced and what the implementation answered"""
    info = case.get("c16", {})
    fam = info.get("family", "?")
    keys = ["family:" + fam]
    for f in info.get("features", []):
        keys.append(f if f.startswith(("mut:", "corrupt:")) else "%s:%s" % (fam, f))
    verdict = None
    for t, r in trace:
        if t == "DIG":
            verdict = r.split(" #")[0].strip()
        if t == "LOAD":
            keys.append("load:" + r.split()[1])
    keys.append("%s:DIG %s" % (fam, verdict))
    if fam == "corrupt":
        keys.append("corrupt:rejected-by-roxmltree" if verdict == "err XMLError" else "corrupt:accepted-by-roxmltree")
    if any("panic" in r.lower() for _, r in trace):
        keys.append("PANIC")
    return keys


def selftest(seed, n):
    """the XML text of every generated tree, read back by expat, is that tree (except for empty text nodes,
    which expat does not report)"""
    bad = 0
    for c in cases(seed, n, n, 0):
        back = tree_from_expat(c["xml"])
        if back != c["tree"] and not any("empty-text-node" in f for f in c["c16"]["features"]):
            bad += 1
            if bad <= 3:
                a, b = (back or "<rejected>").split(), c["tree"].split()
                i = next((i for i, (x, y) in enumerate(zip(a, b)) if x != y), min(len(a), len(b)))
                sys.stdout.write("MISMATCH %s at token %d: expat %s / generator %s\n%s\n" % (c["id"], i, a[i:i + 6], b[i:i + 6], c["xml"][:3000]))
    sys.stdout.write("selftest: %d documents, %d differ\n" % (2 * n, bad))
    return bad


if __name__ == "__main__":
    if len(sys.argv) > 1 and sys.argv[1] == "selftest":
        sys.exit(1 if selftest(int(sys.argv[2]) if len(sys.argv) > 2 else 1, int(sys.argv[3]) if len(sys.argv) > 3 else 500) else 0)
    seed = int(sys.argv[1]) if len(sys.argv) > 1 else 1
    which = sys.argv[2] if len(sys.argv) > 2 else "a"
    c = {"a": gen_desc_case, "b": gen_struct_case, "c": gen_corrupt_case}[which]("demo", seed)
    sys.stdout.write(c["xml"])
    sys.stdout.write("\n---- tree\n%s\n" % c.get("tree"))
    sys.stdout.write("---- %s\n" % (c["c16"],))
