#!/usr/bin/env python3
"""T4: shared-state audit (C15).  The model treats every iterator as owning all of its state and a
TestCase as immutable once built.  That is true of the code as long as the crate has no global or
interior-mutable state outside the allow-list below (one RefCell: the generator inside an
iterator's own EvalContext).  Syntactic; prints what it matched; exit 1 on anything unexpected."""
import os, re, sys

REPO = os.environ.get("VERIF_REPO", "/repo")
SKIP_FILES = {"tests.rs", "verif_hooks.rs"}
PAT = re.compile(r"\bstatic\s+mut\b|\bthread_local!|\blazy_static!|\bOnceCell\b|\bOnceLock\b|\bLazyLock\b|\bLazyCell\b|\bCell\s*<|\bRefCell\b|\bAtomic[A-Z]\w*|\bMutex\b|\bRwLock\b|\bUnsafeCell\b|\bunsafe\b|\bstatic\s+[A-Z_]+\s*:")
ALLOW = [
    ("src/eval_context.rs", "use std::{cell::RefCell, collections::HashMap};"),
    ("src/eval_context.rs", "rng: RefCell<StdRng>,"),
    ("src/eval_context.rs", "rng: RefCell::new(StdRng::seed_from_u64(seed)),"),
    ("src/eval_context.rs", "self.rng = RefCell::new(StdRng::seed_from_u64(self.seed));"),
]


def main():
    bad = 0
    matched = []
    for dp, _, fs in os.walk(os.path.join(REPO, "src")):
        for fn in sorted(fs):
            if not fn.endswith(".rs") or fn in SKIP_FILES:
                continue
            p = os.path.join(dp, fn)
            rel = os.path.relpath(p, REPO)
            for line in open(p, encoding="utf-8"):
                l = " ".join(line.split("//")[0].split())
                if l and PAT.search(l):
                    ok = (rel, l) in ALLOW
                    matched.append((rel, l, ok))
                    if not ok:
                        print("UNEXPECTED shared / interior-mutable state: %s: %s" % (rel, l))
                        bad += 1
    print("state audit: %d matches, %d outside the allow-list" % (len(matched), bad))
    return 1 if bad else 0


if __name__ == "__main__":
    sys.exit(main())
