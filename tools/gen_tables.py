#!/usr/bin/env python3
"""T1 (the small part kept of it): regenerate coq/theories/Generated.v from the sources.

  * unicode_nd: the Unicode decimal-digit ranges that logos' `\\d` stands for, read from the
    regex-syntax version pinned in /repo/Cargo.lock (cargo registry sources).

Everything else in the model is hand-written and tied to the code by the behavioural
correspondence check, so that a harmless rewrite of the source cannot break a syntactic pin.

The file is rewritten only if its content changes, so an untouched tree costs no recompilation.
"""
import glob, os, re, sys

REPO = os.environ.get("VERIF_REPO", "/repo")
OUT = os.path.join(os.path.dirname(os.path.abspath(__file__)), "..", "coq", "theories", "Generated.v")

def regex_syntax_version():
    lock = open(os.path.join(REPO, "Cargo.lock")).read()
    m = re.search(r'name = "regex-syntax"\nversion = "([^"]+)"', lock)
    return m.group(1) if m else None

def nd_table():
    ver = regex_syntax_version()
    cands = []
    if ver:
        for base in glob.glob(os.path.expanduser("~/.cargo/registry/src/*/regex-syntax-%s" % ver)):
            cands += [os.path.join(base, "src/unicode_tables/perl_decimal.rs"),
                      os.path.join(base, "src/unicode_tables/general_category.rs")]
    for c in cands:
        if os.path.exists(c):
            src = open(c, encoding="utf-8").read()
            m = re.search(r"pub const DECIMAL_NUMBER: &'static \[\(char, char\)\] = &\[(.*?)\];", src, re.S)
            if not m:
                continue
            out = []
            for a, b in re.findall(r"\('((?:\\u\{[0-9a-fA-F]+\})|.)', '((?:\\u\{[0-9a-fA-F]+\})|.)'\)", m.group(1)):
                def cp(x):
                    mm = re.match(r"\\u\{([0-9a-fA-F]+)\}", x)
                    return int(mm.group(1), 16) if mm else ord(x)
                out.append((cp(a), cp(b)))
            if out:
                return out, c
    return None, None

def token_table():
    src = open(os.path.join(REPO, "src/lexer/token.rs"), encoding="utf-8").read()
    # body of enum TokenKind
    m = re.search(r"pub\(crate\) enum TokenKind \{(.*?)\n\}", src, re.S)
    body = m.group(1) if m else ""
    toks = re.findall(r'#\[token\("((?:[^"\\]|\\.)*)"\)\]\s*(\w+)', body)
    regs = re.findall(r'#\[regex\(r?"((?:[^"\\]|\\.)*)"(?:,\s*[\w:]+)?\)\]\s*(\w+)', body)
    return toks, regs

def coq_string(s):
    return '"' + s.replace('"', '""') + '"'

BINOPS = ["Equal", "NotEqual", "GreaterThan", "LessThan", "GreaterThanOrEqual", "LessThanOrEqual", "Or", "Xor", "And",
          "ShiftLeft", "ShiftRight", "Plus", "Minus", "Times", "Divide", "Reminder"]
UNOPS = {"Minus": "UMinus", "LogicalNot": "ULogicalNot", "BinaryNot": "UBinaryNot"}


def fn_body(src, header_re):
    """text of the braces block following the first match of header_re"""
    m = re.search(header_re, src)
    if not m:
        return None
    i = src.index("{", m.end() - 1)
    depth, j = 0, i
    while j < len(src):
        if src[j] == "{":
            depth += 1
        elif src[j] == "}":
            depth -= 1
            if depth == 0:
                return src[i + 1:j]
        j += 1
    return None


def rd(rel):
    return re.sub(r"//[^\n]*", "", open(os.path.join(REPO, rel), encoding="utf-8").read())


def match_arms(body, prefix):
    """arms `P1 | P2 ... [if guard] => rhs,` of a match body; yields (list of constructor names, guard or None, rhs).
    Handles or-patterns and block right-hand sides; raises ValueError on anything else."""
    arms = []
    i, n = 0, len(body)
    while i < n:
        m = re.compile(r"\s*((?:%s(\w+)\s*\|?\s*)+)(?:if\s+(.+?)\s*)?=>\s*" % re.escape(prefix)).match(body, i)
        if not m:
            if body[i:].strip() in ("", ","):
                break
            raise ValueError("match arm not recognised near: %s" % " ".join(body[i:i + 60].split()))
        names = re.findall(re.escape(prefix) + r"(\w+)", m.group(1))
        j = m.end()
        if body[j] == "{":
            depth, k = 0, j
            while k < n:
                if body[k] == "{":
                    depth += 1
                elif body[k] == "}":
                    depth -= 1
                    if depth == 0:
                        break
                k += 1
            rhs = body[j:k + 1]
            i = k + 1
            while i < n and body[i] in " \t\n,":
                i += 1
        else:
            depth, k = 0, j
            while k < n and not (body[k] == "," and depth == 0):
                if body[k] in "([{":
                    depth += 1
                elif body[k] in ")]}":
                    depth -= 1
                k += 1
            rhs = body[j:k]
            i = k + 1
        arms.append((names, (m.group(3) or None), " ".join(rhs.split())))
    return arms


def sec_precedence():
    body = fn_body(rd("src/parser/binoptree.rs"), r"fn\s+precedence\s*\(\s*&self\s*\)\s*->\s*u8\s*\{")
    if body is None:
        raise ValueError("BinOp::precedence not found")
    m = re.search(r"match\s+self\s*\{(.*)\}", body, re.S)
    if not m:
        raise ValueError("BinOp::precedence: match not recognised")
    prec = {}
    for names, guard, rhs in match_arms(m.group(1), "Self::"):
        if guard or not re.fullmatch(r"\d+", rhs):
            raise ValueError("BinOp::precedence: arm %s => %s not recognised" % (names, rhs))
        for k in names:
            prec[k] = int(rhs)
    if set(prec) != set(BINOPS):
        raise ValueError("BinOp::precedence: arms %s" % sorted(prec))
    return ("Definition gen_precedence (op : binop) : N :=\n  match op with\n" +
            "".join("  | %s => %d\n" % (k, prec[k]) for k in BINOPS) + "  end.\n")


def sec_is_binary_op():
    body = fn_body(rd("src/parser/expr.rs"), r"fn\s+is_binary_op\s*\(\s*&self\s*\)\s*->\s*bool\s*\{")
    if body is None:
        raise ValueError("is_binary_op not found")
    norm = " ".join(body.split())
    if not re.fullmatch(r"matches!\( self, (?:\|\s*)?(?:TokenKind::\w+\s*\|?\s*)+\)", norm):
        raise ValueError("is_binary_op: body not recognised: %s" % norm[:120])
    toks = re.findall(r"TokenKind::(\w+)", body)
    return ("Definition gen_is_binary_op (k : tk) : bool :=\n  match k with\n  | " + " | ".join("T" + t for t in toks) +
            " => true\n  | _ => false\n  end.\n")


def sec_binop_of_token():
    body = fn_body(rd("src/parser/expr.rs"), r"impl\s+From<TokenKind>\s+for\s+BinOp\s*\{")
    pairs = re.findall(r"TokenKind::(\w+)\s*=>\s*(?:BinOp|Self)::(\w+)", body or "")
    if not pairs:
        raise ValueError("From<TokenKind> for BinOp not found")
    return ("Definition gen_binop_of_token (k : tk) : option binop :=\n  match k with\n" +
            "".join("  | T%s => Some %s\n" % p for p in pairs) + "  | _ => None\n  end.\n")


def sec_unop_of_token():
    body = fn_body(rd("src/parser/expr.rs"), r"impl\s+From<TokenKind>\s+for\s+UnaryOp\s*\{")
    pairs = re.findall(r"TokenKind::(\w+)\s*=>\s*(?:UnaryOp|Self)::(\w+)", body or "")
    if not pairs:
        raise ValueError("From<TokenKind> for UnaryOp not found")
    return ("Definition gen_unop_of_token (k : tk) : option unop :=\n  match k with\n" +
            "".join("  | T%s => Some %s\n" % (a, UNOPS[b]) for a, b in pairs) + "  | _ => None\n  end.\n")


def sec_func_table():
    ents = re.findall(r'FuncTableEntry\s*\{\s*name:\s*"(\w+)",\s*number_of_args:\s*(\d+)', rd("src/expr.rs"))
    if not ents:
        raise ValueError("FUNC_TABLE not found")
    return ("Definition gen_func_table : list (name * N) :=\n  [ " +
            "; ".join('(s2n "%s", %s)' % e for e in ents) + " ]%string.\n")


def sec_keywords():
    toks, regs = token_table()
    kws = [(t, k) for t, k in toks if re.fullmatch(r"[A-Za-z]+", t)]
    if not kws:
        raise ValueError("no keyword tokens found in TokenKind")
    return ("Definition gen_keywords : list (name * tk) :=\n  [ " +
            "; ".join('(s2n "%s", T%s)' % kw for kw in kws) + " ]%string.\n")


def sec_regexes():
    toks, regs = token_table()
    if not regs:
        raise ValueError("no #[regex] tokens found in TokenKind")
    return ("(* the regular expressions of the statement lexer, as written in src/lexer/token.rs *)\nDefinition gen_regexes : list (string * string) :=\n  [ " +
            "; ".join("(%s, %s)" % (coq_string(k), coq_string(r)) for r, k in regs) + " ]%string.\n")


def sec_header_regexes():
    src = open(os.path.join(REPO, "src/lexer/token.rs"), encoding="utf-8").read()
    m = re.search(r"pub\(crate\) enum HeaderTokenKind \{(.*?)\n\}", src, re.S)
    if not m:
        raise ValueError("enum HeaderTokenKind not found")
    body = m.group(1)
    regs = re.findall(r'#\[regex\(r?"((?:[^"\\]|\\.)*)"(?:,\s*[\w:]+)?\)\]\s*(\w+)', body)
    toks = re.findall(r'#\[token\("((?:[^"\\]|\\.)*)"\)\]\s*(\w+)', body)
    if not regs or not toks:
        raise ValueError("HeaderTokenKind: no #[regex] / #[token] attributes found")
    return ("(* the header lexer (HeaderTokenKind), as written in src/lexer/token.rs *)\nDefinition gen_header_regexes : list (string * string) :=\n  [ " +
            "; ".join("(%s, %s)" % (coq_string(k), coq_string(r)) for r, k in regs) + " ]%string.\n\n" +
            "Definition gen_header_tokens : list (string * string) :=\n  [ " +
            "; ".join("(%s, %s)" % (coq_string(k), coq_string(t)) for t, k in toks) + " ]%string.\n")


def sec_punct():
    toks, regs = token_table()
    punct = [(t, k) for t, k in toks if not re.fullmatch(r"[A-Za-z]+", t)]
    if not punct:
        raise ValueError("no punctuation tokens found in TokenKind")
    return ("(* the punctuation tokens *)\nDefinition gen_punct : list (string * tk) :=\n  [ " +
            "; ".join("(%s, T%s)" % (coq_string(t.replace("\\n", "\n")) if t != "\\n" else 'String (Ascii.ascii_of_nat 10) EmptyString', k) for t, k in punct) + " ]%string.\n")


CMPOPS = {"==": "(l =? r)", "!=": "(negb (l =? r))", ">": "(l >? r)", "<": "(l <? r)", ">=": "(l >=? r)", "<=": "(l <=? r)"}
BITOPS = {"|": "Z.lor", "^": "Z.lxor", "&": "Z.land"}
WRAPS = {"wrapping_add": "wadd", "wrapping_sub": "wsub", "wrapping_mul": "wmul", "wrapping_div": "wdiv", "wrapping_rem": "wrem"}
DIVZ = r"(?:return\s+)?Err\(ExprErrorKind::DivisionByZero(?:\.into\(\))?\)(?:\.into\(\))?;?"


def sec_binop_eval():
    body = fn_body(rd("src/expr.rs"), r"fn\s+eval\s*\(\s*&self\s*,\s*left:\s*i64\s*,\s*right:\s*i64\s*\)")
    if body is None:
        raise ValueError("BinOp::eval not found")
    guard = None
    g = re.search(r"if\s+right\s*==\s*0\s*&&\s*matches!\(\s*self\s*,([^)]*)\)\s*\{\s*" + DIVZ + r"\s*\}", body)
    if g:
        guard = re.findall(r"Self::(\w+)", g.group(1))
    m = re.search(r"Ok\(\s*match\s+self\s*\{(.*)\}\s*\)", body, re.S)
    if not m:
        raise ValueError("BinOp::eval: match not recognised")
    arms = {}
    for names, cond, rhs in match_arms(m.group(1), "Self::"):
        if cond is not None:
            # the zero guard written as a guarded first arm:  Self::Divide | Self::Reminder if right == 0 => return Err(DivisionByZero)
            if " ".join(cond.split()) == "right == 0" and re.fullmatch(r"\{?\s*" + DIVZ + r"\s*\}?", rhs) and guard is None and not arms:
                guard = names
                continue
            raise ValueError("BinOp::eval: guarded arm %s if %s not recognised" % (names, cond))
        for name in names:
            mm = re.fullmatch(r"\(left (==|!=|>=|<=|>|<) right\) as i64", rhs)
            if mm:
                arms[name] = "b2z %s" % CMPOPS[mm.group(1)]
                continue
            mm = re.fullmatch(r"left (\||\^|&) right", rhs)
            if mm:
                arms[name] = "%s l r" % BITOPS[mm.group(1)]
                continue
            mm = re.fullmatch(r"left\.(wrapping_\w+)\(right\)", rhs)
            if mm and mm.group(1) in WRAPS:
                arms[name] = "%s l r" % WRAPS[mm.group(1)]
                continue
            mm = re.fullmatch(r"left\.wrapping_(shl|shr)\(right as u32\)", rhs)
            if mm:
                arms[name] = "%s l r" % ("wshl" if mm.group(1) == "shl" else "wshr")
                continue
            raise ValueError("BinOp::eval: arm %s => %s not recognised" % (name, rhs))
    if guard is None:
        raise ValueError("BinOp::eval: division-by-zero guard not recognised")
    if set(arms) != set(BINOPS):
        raise ValueError("BinOp::eval: arms %s" % sorted(arms))
    return ("Definition gen_div_guard : list binop := [ " + "; ".join(guard) + " ].\n\n" +
            "Definition gen_binop_value (op : binop) (l r : Z) : Z :=\n  match op with\n" +
            "".join("  | %s => %s\n" % (k, arms[k]) for k in BINOPS) + "  end.\n")


def sec_unop_eval():
    body = fn_body(rd("src/expr.rs"), r"fn\s+eval\s*\(\s*&self\s*,\s*val:\s*i64\s*\)")
    if body is None:
        raise ValueError("UnaryOp::eval not found")
    m = re.search(r"match\s+self\s*\{(.*)\}", body, re.S)
    if not m:
        raise ValueError("UnaryOp::eval: match not recognised")
    uarms = {}
    for names, cond, rhs in match_arms(m.group(1), "Self::"):
        if cond:
            raise ValueError("UnaryOp::eval: guarded arm")
        for name in names:
            if rhs in ("val.wrapping_neg()", "0i64.wrapping_sub(val)", "0_i64.wrapping_sub(val)"):
                uarms[name] = "wneg v"
            elif rhs in ("(val == 0) as i64", "i64::from(val == 0)"):
                uarms[name] = "b2z (v =? 0)"
            elif rhs == "!val":
                uarms[name] = "Z.lnot v"
            else:
                raise ValueError("UnaryOp::eval: arm %s => %s not recognised" % (name, rhs))
    if set(uarms) != set(UNOPS):
        raise ValueError("UnaryOp::eval: arms %s" % sorted(uarms))
    return ("Definition gen_unop_value (op : unop) (v : Z) : Z :=\n  match op with\n" +
            "".join("  | %s => %s\n" % (UNOPS[k], uarms[k]) for k in UNOPS) + "  end.\n")


def sec_bit_mask():
    dri = rd("src/data_row_iterator.rs")
    body = fn_body(dri, r"fn\s+bit_mask\s*\(\s*bits:\s*usize\s*\)\s*->\s*i64")
    norm = " ".join((body or "").split())
    mm = re.fullmatch(r"if bits < (\d+) \{ \(\(1u64 << bits\) - 1\) as i64 \} else \{ -1 \}", norm)
    if not mm:
        raise ValueError("bit_mask: body not recognised: %s" % norm)
    sites = re.findall(r"(\w+)::Value\(n & bit_mask\(signal\.bits\)\)", dri)
    if sorted(sites) != ["ExpectedValue", "InputValue"]:
        raise ValueError("bit_mask call sites: %s" % sites)
    return "Definition gen_bit_mask (bits : N) : Z := if (bits <? %s)%%N then 2 ^ Z.of_N bits - 1 else -1.\n" % mm.group(1)


def sec_expected_check():
    body = fn_body(rd("src/value.rs"), r"pub\s+fn\s+check\s*\(\s*&self\s*,\s*other:\s*impl\s+Into<OutputValue>\s*\)")
    norm = " ".join((body or "").split())
    want = ("let other = other.into(); match self { ExpectedValue::Value(n) => matches!(other, OutputValue::Value(m) if *n == m), "
            "ExpectedValue::Z => matches!(other, OutputValue::Z), ExpectedValue::X => true, }")
    if norm != want:
        raise ValueError("ExpectedValue::check: body not recognised: %s" % norm)
    return ("Definition gen_expected_check (e : expval) (o : outval) : bool :=\n  match e with\n"
            "  | XVal n => match o with OVal m => Z.eqb n m | _ => false end\n"
            "  | XZ => match o with OZ => true | _ => false end\n  | XX => true\n  end.\n")


# order = order in GeneratedTables.v.  "Z" marks the point where Z_scope is opened.
SECTIONS = [("precedence", sec_precedence), ("is_binary_op", sec_is_binary_op), ("binop_of_token", sec_binop_of_token),
            ("unop_of_token", sec_unop_of_token), ("func_table", sec_func_table), ("keywords", sec_keywords),
            ("regexes", sec_regexes), ("header_regexes", sec_header_regexes), ("punct", sec_punct), ("Z", None), ("binop_eval", sec_binop_eval),
            ("unop_eval", sec_unop_eval), ("bit_mask", sec_bit_mask), ("expected_check", sec_expected_check)]
REFERENCE = os.path.join(os.path.dirname(os.path.abspath(__file__)), "t1_reference.json")
STATUS = os.path.join(os.path.dirname(os.path.abspath(__file__)), "..", ".work", "t1_status.json")


def tables():
    """the data-like parts of the sources.  Every section is translated on its own.  A section the translator
    cannot read (a *translation failure*, e.g. after a rewrite into a form it does not know) falls back to the
    reference text (what the translator produced for the pinned tree, tools/t1_reference.json): the pin lemma of
    that section then says nothing about the current source, which is recorded in .work/t1_status.json; check.py
    reports it and lets the behavioural correspondence (escalated to the thorough case counts) carry the tie of the
    properties that use the section."""
    import json
    ref = json.load(open(REFERENCE)) if os.path.exists(REFERENCE) else {}
    out, status = [], {}
    for name, fn in SECTIONS:
        if fn is None:
            out.append("Local Open Scope Z_scope.\n")
            continue
        try:
            t = fn()
            status[name] = "translated"
        except Exception as e:
            status[name] = "fallback: %s" % e
            if name not in ref:
                raise ValueError("%s (and no reference text)" % e)
            t = ref[name]
        out.append(t)
    return out, status


OUT2 = os.path.join(os.path.dirname(os.path.abspath(__file__)), "..", "coq", "theories", "GeneratedTables.v")


def write_if_changed(path, new):
    old = open(path).read() if os.path.exists(path) else None
    if old != new:
        open(path, "w").write(new)
        print("gen_tables: %s rewritten" % os.path.basename(path))


def main():
    import json
    try:
        parts, status = tables()
    except Exception as e:
        print("gen_tables: TRANSLATION FAILURE: %s" % e, file=sys.stderr)
        return 3
    if "--write-reference" in sys.argv:
        if any(v != "translated" for v in status.values()):
            print("gen_tables: cannot write a reference from a tree that does not translate: %s" % status, file=sys.stderr)
            return 3
        names = [n for n, f in SECTIONS if f is not None]
        texts = [t for (n, f), t in zip(SECTIONS, parts) if f is not None]
        json.dump(dict(zip(names, texts)), open(REFERENCE, "w"), indent=1)
        print("gen_tables: reference written")
    os.makedirs(os.path.dirname(STATUS), exist_ok=True)
    json.dump(status, open(STATUS, "w"), indent=1)
    for k, v in status.items():
        if v != "translated":
            print("gen_tables: section %s: %s" % (k, v), file=sys.stderr)
    t = "\n".join(parts)
    write_if_changed(OUT2, "(* GENERATED by tools/gen_tables.py from /repo/src - do not edit. *)\nFrom DTR Require Import Prelude I64 Ast.\n"
                           "From Coq Require Import String Ascii.\nOpen Scope N_scope.\n\n" + t)
    nd, where = nd_table()
    lines = ["(* GENERATED by tools/gen_tables.py from the sources - do not edit. *)",
             "From Coq Require Import NArith List String.", "Import ListNotations.", "Open Scope N_scope.", ""]
    if nd is None:
        print("gen_tables: regex-syntax sources not found", file=sys.stderr)
        return 2
    lines.append("(* Unicode Nd ranges = regex-syntax `\\d` (%s) *)" % "/".join(where.split("/")[-4:]))
    lines.append("Definition unicode_nd : list (N * N) := [")
    lines.append(";\n".join("  (%d, %d)" % ab for ab in nd))
    lines.append("].")
    lines.append("")
    new = "\n".join(lines) + "\n"
    old = open(OUT).read() if os.path.exists(OUT) else None
    if old != new:
        open(OUT, "w").write(new)
        print("gen_tables: Generated.v rewritten")
    return 0

if __name__ == "__main__":
    sys.exit(main())
