#!/usr/bin/env python3
"""T1 (the small part kept of it): regenerate coq/theories/Generated.v from the sources.

  * unicode_nd: the Unicode decimal-digit ranges that logos' `\\d` stands for, read from the
    regex-syntax version pinned in /repo/Cargo.lock (cargo registry sources).

Everything else in the model is hand-written and tied to the code by the behavioural
correspondence check, so that a harmless rewrite of the source cannot break a syntactic pin.

The file is rewritten only if its content changes, so an untouched tree costs no recompilation.
"""
import glob, os, re, sys

REPO = os.environ.get("VERIF_REPO", "/repo")
OUT = os.path.join(os.path.dirname(os.path.abspath(__file__)), "..", "coq", "theories", "Generated.v")

def regex_syntax_version():
    lock = open(os.path.join(REPO, "Cargo.lock")).read()
    m = re.search(r'name = "regex-syntax"\nversion = "([^"]+)"', lock)
    return m.group(1) if m else None

def nd_table():
    ver = regex_syntax_version()
    cands = []
    if ver:
        for base in glob.glob(os.path.expanduser("~/.cargo/registry/src/*/regex-syntax-%s" % ver)):
            cands += [os.path.join(base, "src/unicode_tables/perl_decimal.rs"),
                      os.path.join(base, "src/unicode_tables/general_category.rs")]
    for c in cands:
        if os.path.exists(c):
            src = open(c, encoding="utf-8").read()
            m = re.search(r"pub const DECIMAL_NUMBER: &'static \[\(char, char\)\] = &\[(.*?)\];", src, re.S)
            if not m:
                continue
            out = []
            for a, b in re.findall(r"\('((?:\\u\{[0-9a-fA-F]+\})|.)', '((?:\\u\{[0-9a-fA-F]+\})|.)'\)", m.group(1)):
                def cp(x):
                    mm = re.match(r"\\u\{([0-9a-fA-F]+)\}", x)
                    return int(mm.group(1), 16) if mm else ord(x)
                out.append((cp(a), cp(b)))
            if out:
                return out, c
    return None, None

def token_table():
    src = open(os.path.join(REPO, "src/lexer/token.rs"), encoding="utf-8").read()
    # body of enum TokenKind
    m = re.search(r"pub\(crate\) enum TokenKind \{(.*?)\n\}", src, re.S)
    body = m.group(1) if m else ""
    toks = re.findall(r'#\[token\("((?:[^"\\]|\\.)*)"\)\]\s*(\w+)', body)
    regs = re.findall(r'#\[regex\(r?"((?:[^"\\]|\\.)*)"(?:,\s*[\w:]+)?\)\]\s*(\w+)', body)
    return toks, regs

def coq_string(s):
    return '"' + s.replace('"', '""') + '"'

BINOPS = ["Equal", "NotEqual", "GreaterThan", "LessThan", "GreaterThanOrEqual", "LessThanOrEqual", "Or", "Xor", "And",
          "ShiftLeft", "ShiftRight", "Plus", "Minus", "Times", "Divide", "Reminder"]
UNOPS = {"Minus": "UMinus", "LogicalNot": "ULogicalNot", "BinaryNot": "UBinaryNot"}


def fn_body(src, header_re):
    """text of the braces block following the first match of header_re"""
    m = re.search(header_re, src)
    if not m:
        return None
    i = src.index("{", m.end() - 1)
    depth, j = 0, i
    while j < len(src):
        if src[j] == "{":
            depth += 1
        elif src[j] == "}":
            depth -= 1
            if depth == 0:
                return src[i + 1:j]
        j += 1
    return None


def tables():
    """the data-like parts of the sources: precedence table, binary-operator token set, token -> operator
    maps, FUNC_TABLE, keyword tokens.  Returns Coq text or raises ValueError (= translation failure)."""
    def rd(rel):
        return re.sub(r"//[^\n]*", "", open(os.path.join(REPO, rel), encoding="utf-8").read())
    out = []
    # BinOp::precedence
    body = fn_body(rd("src/parser/binoptree.rs"), r"fn\s+precedence\s*\(\s*&self\s*\)\s*->\s*u8\s*\{")
    if body is None:
        raise ValueError("BinOp::precedence not found")
    prec = dict((k, int(v)) for k, v in re.findall(r"Self::(\w+)\s*=>\s*(\d+)", body))
    if set(prec) != set(BINOPS):
        raise ValueError("BinOp::precedence: arms %s" % sorted(prec))
    out.append("Definition gen_precedence (op : binop) : N :=\n  match op with\n" +
               "".join("  | %s => %d\n" % (k, prec[k]) for k in BINOPS) + "  end.\n")
    exprrs = rd("src/parser/expr.rs")
    # TokenKind::is_binary_op
    body = fn_body(exprrs, r"fn\s+is_binary_op\s*\(\s*&self\s*\)\s*->\s*bool\s*\{")
    if body is None:
        raise ValueError("is_binary_op not found")
    toks = re.findall(r"TokenKind::(\w+)", body)
    out.append("Definition gen_is_binary_op (k : tk) : bool :=\n  match k with\n  | " + " | ".join("T" + t for t in toks) +
               " => true\n  | _ => false\n  end.\n")
    # From<TokenKind> for BinOp / UnaryOp
    body = fn_body(exprrs, r"impl\s+From<TokenKind>\s+for\s+BinOp\s*\{")
    pairs = re.findall(r"TokenKind::(\w+)\s*=>\s*BinOp::(\w+)", body or "")
    if not pairs:
        raise ValueError("From<TokenKind> for BinOp not found")
    out.append("Definition gen_binop_of_token (k : tk) : option binop :=\n  match k with\n" +
               "".join("  | T%s => Some %s\n" % p for p in pairs) + "  | _ => None\n  end.\n")
    body = fn_body(exprrs, r"impl\s+From<TokenKind>\s+for\s+UnaryOp\s*\{")
    pairs = re.findall(r"TokenKind::(\w+)\s*=>\s*UnaryOp::(\w+)", body or "")
    if not pairs:
        raise ValueError("From<TokenKind> for UnaryOp not found")
    out.append("Definition gen_unop_of_token (k : tk) : option unop :=\n  match k with\n" +
               "".join("  | T%s => Some %s\n" % (a, UNOPS[b]) for a, b in pairs) + "  | _ => None\n  end.\n")
    # FUNC_TABLE
    ents = re.findall(r'FuncTableEntry\s*\{\s*name:\s*"(\w+)",\s*number_of_args:\s*(\d+)', rd("src/expr.rs"))
    if not ents:
        raise ValueError("FUNC_TABLE not found")
    out.append("Definition gen_func_table : list (name * N) :=\n  [ " +
               "; ".join('(s2n "%s", %s)' % e for e in ents) + " ]%string.\n")
    # keyword tokens of TokenKind (alphabetic #[token("...")])
    toks, regs = token_table()
    kws = [(t, k) for t, k in toks if re.fullmatch(r"[A-Za-z]+", t)]
    out.append("Definition gen_keywords : list (name * tk) :=\n  [ " +
               "; ".join('(s2n "%s", T%s)' % kw for kw in kws) + " ]%string.\n")
    out.append("(* the regular expressions of the statement lexer, as written in src/lexer/token.rs *)\nDefinition gen_regexes : list (string * string) :=\n  [ " +
               "; ".join("(%s, %s)" % (coq_string(k), coq_string(r)) for r, k in regs) + " ]%string.\n")
    punct = [(t, k) for t, k in toks if not re.fullmatch(r"[A-Za-z]+", t)]
    out.append("(* the punctuation tokens *)\nDefinition gen_punct : list (string * tk) :=\n  [ " +
               "; ".join("(%s, T%s)" % (coq_string(t.replace("\\n", "\n")) if t != "\\n" else 'String (Ascii.ascii_of_nat 10) EmptyString', k) for t, k in punct) + " ]%string.\n")
    return "\n".join(out)


OUT2 = os.path.join(os.path.dirname(os.path.abspath(__file__)), "..", "coq", "theories", "GeneratedTables.v")


def write_if_changed(path, new):
    old = open(path).read() if os.path.exists(path) else None
    if old != new:
        open(path, "w").write(new)
        print("gen_tables: %s rewritten" % os.path.basename(path))


def main():
    try:
        t = tables()
    except Exception as e:   # a translation failure: the tie of the properties using these tables is broken
        print("gen_tables: TRANSLATION FAILURE: %s" % e, file=sys.stderr)
        return 3
    write_if_changed(OUT2, "(* GENERATED by tools/gen_tables.py from /repo/src - do not edit. *)\nFrom DTR Require Import Prelude Ast.\n"
                           "From Coq Require Import String Ascii.\nOpen Scope N_scope.\n\n" + t)
    nd, where = nd_table()
    lines = ["(* GENERATED by tools/gen_tables.py from the sources - do not edit. *)",
             "From Coq Require Import NArith List String.", "Import ListNotations.", "Open Scope N_scope.", ""]
    if nd is None:
        print("gen_tables: regex-syntax sources not found", file=sys.stderr)
        return 2
    lines.append("(* Unicode Nd ranges = regex-syntax `\\d` (%s) *)" % "/".join(where.split("/")[-4:]))
    lines.append("Definition unicode_nd : list (N * N) := [")
    lines.append(";\n".join("  (%d, %d)" % ab for ab in nd))
    lines.append("].")
    lines.append("")
    new = "\n".join(lines) + "\n"
    old = open(OUT).read() if os.path.exists(OUT) else None
    if old != new:
        open(OUT, "w").write(new)
        print("gen_tables: Generated.v rewritten")
    return 0

if __name__ == "__main__":
    sys.exit(main())
