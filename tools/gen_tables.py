#!/usr/bin/env python3
"""T1 (the small part kept of it): regenerate coq/theories/Generated.v from the sources.

  * unicode_nd: the Unicode decimal-digit ranges that logos' `\\d` stands for, read from the
    regex-syntax version pinned in /repo/Cargo.lock (cargo registry sources).

Everything else in the model is hand-written and tied to the code by the behavioural
correspondence check, so that a harmless rewrite of the source cannot break a syntactic pin.

The file is rewritten only if its content changes, so an untouched tree costs no recompilation.
"""
import glob, os, re, sys

REPO = os.environ.get("VERIF_REPO", "/repo")
OUT = os.path.join(os.path.dirname(os.path.abspath(__file__)), "..", "coq", "theories", "Generated.v")

def regex_syntax_version():
    lock = open(os.path.join(REPO, "Cargo.lock")).read()
    m = re.search(r'name = "regex-syntax"\nversion = "([^"]+)"', lock)
    return m.group(1) if m else None

def nd_table():
    ver = regex_syntax_version()
    cands = []
    if ver:
        for base in glob.glob(os.path.expanduser("~/.cargo/registry/src/*/regex-syntax-%s" % ver)):
            cands += [os.path.join(base, "src/unicode_tables/perl_decimal.rs"),
                      os.path.join(base, "src/unicode_tables/general_category.rs")]
    for c in cands:
        if os.path.exists(c):
            src = open(c, encoding="utf-8").read()
            m = re.search(r"pub const DECIMAL_NUMBER: &'static \[\(char, char\)\] = &\[(.*?)\];", src, re.S)
            if not m:
                continue
            out = []
            for a, b in re.findall(r"\('((?:\\u\{[0-9a-fA-F]+\})|.)', '((?:\\u\{[0-9a-fA-F]+\})|.)'\)", m.group(1)):
                def cp(x):
                    mm = re.match(r"\\u\{([0-9a-fA-F]+)\}", x)
                    return int(mm.group(1), 16) if mm else ord(x)
                out.append((cp(a), cp(b)))
            if out:
                return out, c
    return None, None

def token_table():
    src = open(os.path.join(REPO, "src/lexer/token.rs"), encoding="utf-8").read()
    # body of enum TokenKind
    m = re.search(r"pub\(crate\) enum TokenKind \{(.*?)\n\}", src, re.S)
    body = m.group(1) if m else ""
    toks = re.findall(r'#\[token\("((?:[^"\\]|\\.)*)"\)\]\s*(\w+)', body)
    regs = re.findall(r'#\[regex\(r?"((?:[^"\\]|\\.)*)"(?:,\s*[\w:]+)?\)\]\s*(\w+)', body)
    return toks, regs

def coq_string(s):
    return '"' + s.replace('"', '""') + '"'

BINOPS = ["Equal", "NotEqual", "GreaterThan", "LessThan", "GreaterThanOrEqual", "LessThanOrEqual", "Or", "Xor", "And",
          "ShiftLeft", "ShiftRight", "Plus", "Minus", "Times", "Divide", "Reminder"]
UNOPS = {"Minus": "UMinus", "LogicalNot": "ULogicalNot", "BinaryNot": "UBinaryNot"}


def fn_body(src, header_re):
    """text of the braces block following the first match of header_re"""
    m = re.search(header_re, src)
    if not m:
        return None
    i = src.index("{", m.end() - 1)
    depth, j = 0, i
    while j < len(src):
        if src[j] == "{":
            depth += 1
        elif src[j] == "}":
            depth -= 1
            if depth == 0:
                return src[i + 1:j]
        j += 1
    return None


def tables():
    """the data-like parts of the sources: precedence table, binary-operator token set, token -> operator
    maps, FUNC_TABLE, keyword tokens.  Returns Coq text or raises ValueError (= translation failure)."""
    def rd(rel):
        return re.sub(r"//[^\n]*", "", open(os.path.join(REPO, rel), encoding="utf-8").read())
    out = []
    # BinOp::precedence
    body = fn_body(rd("src/parser/binoptree.rs"), r"fn\s+precedence\s*\(\s*&self\s*\)\s*->\s*u8\s*\{")
    if body is None:
        raise ValueError("BinOp::precedence not found")
    prec = dict((k, int(v)) for k, v in re.findall(r"Self::(\w+)\s*=>\s*(\d+)", body))
    if set(prec) != set(BINOPS):
        raise ValueError("BinOp::precedence: arms %s" % sorted(prec))
    out.append("Definition gen_precedence (op : binop) : N :=\n  match op with\n" +
               "".join("  | %s => %d\n" % (k, prec[k]) for k in BINOPS) + "  end.\n")
    exprrs = rd("src/parser/expr.rs")
    # TokenKind::is_binary_op
    body = fn_body(exprrs, r"fn\s+is_binary_op\s*\(\s*&self\s*\)\s*->\s*bool\s*\{")
    if body is None:
        raise ValueError("is_binary_op not found")
    toks = re.findall(r"TokenKind::(\w+)", body)
    out.append("Definition gen_is_binary_op (k : tk) : bool :=\n  match k with\n  | " + " | ".join("T" + t for t in toks) +
               " => true\n  | _ => false\n  end.\n")
    # From<TokenKind> for BinOp / UnaryOp
    body = fn_body(exprrs, r"impl\s+From<TokenKind>\s+for\s+BinOp\s*\{")
    pairs = re.findall(r"TokenKind::(\w+)\s*=>\s*BinOp::(\w+)", body or "")
    if not pairs:
        raise ValueError("From<TokenKind> for BinOp not found")
    out.append("Definition gen_binop_of_token (k : tk) : option binop :=\n  match k with\n" +
               "".join("  | T%s => Some %s\n" % p for p in pairs) + "  | _ => None\n  end.\n")
    body = fn_body(exprrs, r"impl\s+From<TokenKind>\s+for\s+UnaryOp\s*\{")
    pairs = re.findall(r"TokenKind::(\w+)\s*=>\s*UnaryOp::(\w+)", body or "")
    if not pairs:
        raise ValueError("From<TokenKind> for UnaryOp not found")
    out.append("Definition gen_unop_of_token (k : tk) : option unop :=\n  match k with\n" +
               "".join("  | T%s => Some %s\n" % (a, UNOPS[b]) for a, b in pairs) + "  | _ => None\n  end.\n")
    # FUNC_TABLE
    ents = re.findall(r'FuncTableEntry\s*\{\s*name:\s*"(\w+)",\s*number_of_args:\s*(\d+)', rd("src/expr.rs"))
    if not ents:
        raise ValueError("FUNC_TABLE not found")
    out.append("Definition gen_func_table : list (name * N) :=\n  [ " +
               "; ".join('(s2n "%s", %s)' % e for e in ents) + " ]%string.\n")
    # keyword tokens of TokenKind (alphabetic #[token("...")])
    toks, regs = token_table()
    kws = [(t, k) for t, k in toks if re.fullmatch(r"[A-Za-z]+", t)]
    out.append("Definition gen_keywords : list (name * tk) :=\n  [ " +
               "; ".join('(s2n "%s", T%s)' % kw for kw in kws) + " ]%string.\n")
    out.append("(* the regular expressions of the statement lexer, as written in src/lexer/token.rs *)\nDefinition gen_regexes : list (string * string) :=\n  [ " +
               "; ".join("(%s, %s)" % (coq_string(k), coq_string(r)) for r, k in regs) + " ]%string.\n")
    punct = [(t, k) for t, k in toks if not re.fullmatch(r"[A-Za-z]+", t)]
    out.append("(* the punctuation tokens *)\nDefinition gen_punct : list (string * tk) :=\n  [ " +
               "; ".join("(%s, T%s)" % (coq_string(t.replace("\\n", "\n")) if t != "\\n" else 'String (Ascii.ascii_of_nat 10) EmptyString', k) for t, k in punct) + " ]%string.\n")
    # BinOp::eval / UnaryOp::eval arms (src/expr.rs): a tiny expression translator; anything it does not
    # recognise is a translation failure
    exprsrc = rd("src/expr.rs")
    body = fn_body(exprsrc, r"fn\s+eval\s*\(\s*&self\s*,\s*left:\s*i64\s*,\s*right:\s*i64\s*\)")
    if body is None:
        raise ValueError("BinOp::eval not found")
    g = re.search(r"if\s+right\s*==\s*0\s*&&\s*matches!\(\s*self\s*,([^)]*)\)\s*\{\s*return\s+Err\(ExprErrorKind::DivisionByZero", body)
    if not g:
        raise ValueError("BinOp::eval: division-by-zero guard not recognised")
    guard = re.findall(r"Self::(\w+)", g.group(1))
    m = re.search(r"Ok\(\s*match\s+self\s*\{(.*?)\}\s*\)", body, re.S)
    if not m:
        raise ValueError("BinOp::eval: match not recognised")
    cmpops = {"==": "(l =? r)", "!=": "(negb (l =? r))", ">": "(l >? r)", "<": "(l <? r)", ">=": "(l >=? r)", "<=": "(l <=? r)"}
    bitops = {"|": "Z.lor", "^": "Z.lxor", "&": "Z.land"}
    wraps = {"wrapping_add": "wadd", "wrapping_sub": "wsub", "wrapping_mul": "wmul", "wrapping_div": "wdiv", "wrapping_rem": "wrem"}
    arms = {}
    for name, rhs in re.findall(r"Self::(\w+)\s*=>\s*([^,]+(?:\([^)]*\))?[^,]*),", m.group(1) + ","):
        rhs = " ".join(rhs.split())
        mm = re.fullmatch(r"\(left (==|!=|>=|<=|>|<) right\) as i64", rhs)
        if mm:
            arms[name] = "b2z %s" % cmpops[mm.group(1)]
            continue
        mm = re.fullmatch(r"left (\||\^|&) right", rhs)
        if mm:
            arms[name] = "%s l r" % bitops[mm.group(1)]
            continue
        mm = re.fullmatch(r"left\.(wrapping_\w+)\(right\)", rhs)
        if mm and mm.group(1) in wraps:
            arms[name] = "%s l r" % wraps[mm.group(1)]
            continue
        mm = re.fullmatch(r"left\.wrapping_(shl|shr)\(right as u32\)", rhs)
        if mm:
            arms[name] = "%s l r" % ("wshl" if mm.group(1) == "shl" else "wshr")
            continue
        raise ValueError("BinOp::eval: arm %s => %s not recognised" % (name, rhs))
    if set(arms) != set(BINOPS):
        raise ValueError("BinOp::eval: arms %s" % sorted(arms))
    out.append("Local Open Scope Z_scope.\n")
    out.append("Definition gen_div_guard : list binop := [ " + "; ".join(guard) + " ].\n")
    out.append("Definition gen_binop_value (op : binop) (l r : Z) : Z :=\n  match op with\n" +
               "".join("  | %s => %s\n" % (k, arms[k]) for k in BINOPS) + "  end.\n")
    body = fn_body(exprsrc, r"fn\s+eval\s*\(\s*&self\s*,\s*val:\s*i64\s*\)")
    if body is None:
        raise ValueError("UnaryOp::eval not found")
    uarms = {}
    for name, rhs in re.findall(r"Self::(\w+)\s*=>\s*([^,]+),", body):
        rhs = " ".join(rhs.split())
        if rhs == "val.wrapping_neg()":
            uarms[name] = "wneg v"
        elif rhs == "(val == 0) as i64":
            uarms[name] = "b2z (v =? 0)"
        elif rhs == "!val":
            uarms[name] = "Z.lnot v"
        else:
            raise ValueError("UnaryOp::eval: arm %s => %s not recognised" % (name, rhs))
    if set(uarms) != set(UNOPS):
        raise ValueError("UnaryOp::eval: arms %s" % sorted(uarms))
    out.append("Definition gen_unop_value (op : unop) (v : Z) : Z :=\n  match op with\n" +
               "".join("  | %s => %s\n" % (UNOPS[k], uarms[k]) for k in UNOPS) + "  end.\n")
    # fn bit_mask (src/data_row_iterator.rs) and its two call sites
    dri = rd("src/data_row_iterator.rs")
    body = fn_body(dri, r"fn\s+bit_mask\s*\(\s*bits:\s*usize\s*\)\s*->\s*i64")
    norm = " ".join((body or "").split())
    mm = re.fullmatch(r"if bits < (\d+) \{ \(\(1u64 << bits\) - 1\) as i64 \} else \{ -1 \}", norm)
    if not mm:
        raise ValueError("bit_mask: body not recognised: %s" % norm)
    sites = re.findall(r"(\w+)::Value\(n & bit_mask\(signal\.bits\)\)", dri)
    if sorted(sites) != ["ExpectedValue", "InputValue"]:
        raise ValueError("bit_mask call sites: %s" % sites)
    out.append("Definition gen_bit_mask (bits : N) : Z := if (bits <? %s)%%N then 2 ^ Z.of_N bits - 1 else -1.\n" % mm.group(1))
    # ExpectedValue::check (src/value.rs)
    body = fn_body(rd("src/value.rs"), r"pub\s+fn\s+check\s*\(\s*&self\s*,\s*other:\s*impl\s+Into<OutputValue>\s*\)")
    norm = " ".join((body or "").split())
    want = ("let other = other.into(); match self { ExpectedValue::Value(n) => matches!(other, OutputValue::Value(m) if *n == m), "
            "ExpectedValue::Z => matches!(other, OutputValue::Z), ExpectedValue::X => true, }")
    if norm != want:
        raise ValueError("ExpectedValue::check: body not recognised: %s" % norm)
    out.append("Definition gen_expected_check (e : expval) (o : outval) : bool :=\n  match e with\n"
               "  | XVal n => match o with OVal m => Z.eqb n m | _ => false end\n"
               "  | XZ => match o with OZ => true | _ => false end\n  | XX => true\n  end.\n")
    return "\n".join(out)


OUT2 = os.path.join(os.path.dirname(os.path.abspath(__file__)), "..", "coq", "theories", "GeneratedTables.v")


def write_if_changed(path, new):
    old = open(path).read() if os.path.exists(path) else None
    if old != new:
        open(path, "w").write(new)
        print("gen_tables: %s rewritten" % os.path.basename(path))


def main():
    try:
        t = tables()
    except Exception as e:   # a translation failure: the tie of the properties using these tables is broken
        print("gen_tables: TRANSLATION FAILURE: %s" % e, file=sys.stderr)
        return 3
    write_if_changed(OUT2, "(* GENERATED by tools/gen_tables.py from /repo/src - do not edit. *)\nFrom DTR Require Import Prelude I64 Ast.\n"
                           "From Coq Require Import String Ascii.\nOpen Scope N_scope.\n\n" + t)
    nd, where = nd_table()
    lines = ["(* GENERATED by tools/gen_tables.py from the sources - do not edit. *)",
             "From Coq Require Import NArith List String.", "Import ListNotations.", "Open Scope N_scope.", ""]
    if nd is None:
        print("gen_tables: regex-syntax sources not found", file=sys.stderr)
        return 2
    lines.append("(* Unicode Nd ranges = regex-syntax `\\d` (%s) *)" % "/".join(where.split("/")[-4:]))
    lines.append("Definition unicode_nd : list (N * N) := [")
    lines.append(";\n".join("  (%d, %d)" % ab for ab in nd))
    lines.append("].")
    lines.append("")
    new = "\n".join(lines) + "\n"
    old = open(OUT).read() if os.path.exists(OUT) else None
    if old != new:
        open(OUT, "w").write(new)
        print("gen_tables: Generated.v rewritten")
    return 0

if __name__ == "__main__":
    sys.exit(main())
