#!/usr/bin/env python3
"""Runs `./check <prop>` against a PATCHED COPY of the repository without touching /repo or the
evidence/replays of /verif: a copy of /verif (build outputs included, so that everything is
incremental) is made under /root/scratch/alt_<tag>/verif, a scratch git worktree of /repo with the
patch applied under /root/scratch/alt_<tag>/repo, and the copy's check runs with VERIF_REPO pointing
at the patched worktree.  Both are removed afterwards (unless keep=True).  Used by confirm_mutant.py,
run_seeded.py and the harmless-refactoring runs; never used for evidence (evidence comes from
/verif run against /repo itself)."""
import os, shutil, subprocess, sys

ROOT = os.path.abspath(os.path.join(os.path.dirname(os.path.abspath(__file__)), ".."))
REPO = "/repo"
BASE = os.environ.get("VERIF_ALT_BASE", "/root/scratch")


def sh(cmd, cwd=None, timeout=3600, env=None):
    e = dict(os.environ)
    e["CARGO_NET_OFFLINE"] = "true"
    if env:
        e.update(env)
    for k in [k for k, v in e.items() if v == ""]:
        del e[k]
    p = subprocess.run(cmd, shell=True, cwd=cwd, env=e, stdout=subprocess.PIPE, stderr=subprocess.STDOUT, timeout=timeout)
    return p.returncode, "\n".join(l for l in p.stdout.decode("utf-8", "replace").split("\n") if "WARNING conda" not in l)


class Alt:
    def __init__(self, tag, patch):
        self.dir = os.path.join(BASE, "alt_" + tag)
        self.verif = os.path.join(self.dir, "verif")
        self.repo = os.path.join(self.dir, "repo")
        self.patch = os.path.abspath(patch) if patch else None

    def __enter__(self):
        sh("git -C %s worktree remove --force %s" % (REPO, self.repo))
        shutil.rmtree(self.dir, ignore_errors=True)
        os.makedirs(self.dir)
        rc, out = sh("rsync -a --exclude .git --exclude '*.lock' --exclude seeded --exclude replays --exclude coverage %s/ %s/" % (ROOT, self.verif))
        if rc not in (0, 24):      # 24 = files vanished while copying (a build of the harness going on in /verif): the copy rebuilds
            raise RuntimeError("rsync failed: " + out[-500:])
        # Cargo.lock of the harness is excluded by the pattern above on purpose (*.lock = flock files); copy it
        hl = os.path.join(ROOT, "harness", "Cargo.lock")
        if os.path.exists(hl):
            shutil.copy(hl, os.path.join(self.verif, "harness", "Cargo.lock"))
        os.makedirs(os.path.join(self.verif, "replays"), exist_ok=True)
        rc, out = sh("git -C %s worktree add -q --detach %s HEAD" % (REPO, self.repo))
        if rc != 0:
            raise RuntimeError("worktree add failed: " + out[-500:])
        if self.patch:
            rc, out = sh("git apply %s" % self.patch, cwd=self.repo)
            if rc != 0:
                raise RuntimeError("patch does not apply: " + out[-500:])
        return self

    def check(self, prop, tier="quick", seed=None):
        env = {"VERIF_REPO": self.repo, "CARGO_TARGET_DIR": ""}
        if seed is not None:
            env["VERIF_SEED"] = str(seed)
        rc, out = sh("./check %s --tier %s" % (prop, tier), cwd=self.verif, env=env)
        viol = [l for l in out.split("\n") if l.startswith("VIOLATION")]
        summary = [l for l in out.split("\n") if l.startswith(prop + " " + tier)][:1]
        return {"exit": rc, "violations": len(viol), "first": viol[:2], "summary": summary}, out

    def replay_text(self, line):
        """content of the replay a VIOLATION line names (for diagnosis)"""
        try:
            rel = line.split("replay=")[1].split()[0]
            return open(os.path.join(self.verif, rel)).read()
        except Exception:
            return ""

    def __exit__(self, *a):
        sh("git -C %s worktree remove --force %s" % (REPO, self.repo))
        shutil.rmtree(self.dir, ignore_errors=True)
        sh("git -C %s worktree prune" % REPO)
        return False


if __name__ == "__main__":
    # altrun.py <tag> <patch|-> <prop> [<prop> ...]   (prints the summaries and the first replay of each failing check)
    tag, patch = sys.argv[1], sys.argv[2]
    with Alt(tag, None if patch == "-" else patch) as a:
        bad = 0
        for p in sys.argv[3:]:
            r, out = a.check(p)
            print(tag, p, "exit", r["exit"], "violations", r["violations"], (r["summary"] or [""])[0])
            if r["exit"] != 0:
                bad += 1
                if r["first"]:
                    print(a.replay_text(r["first"][0])[-1500:])
                else:
                    print(out[-1500:])
    sys.exit(1 if bad else 0)
