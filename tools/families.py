#!/usr/bin/env python3
"""Per-property configuration of the correspondence check: generator families, the projection
of the canonical trace that the property is about, what makes a case non-trivial, and the
intrinsic oracles (the property phrased on implementation traces alone, used to turn a
disagreement into a concrete failing input).  DESIGN.md sections 5 and 6."""
import json, os, random, re

import gen

ROOT = os.path.abspath(os.path.join(os.path.dirname(os.path.abspath(__file__)), ".."))

COMMON_TRUSTED = [
    "coqc 8.16.1 kernel (full .vo builds; vm_compute used for finite table facts; no native_compute)",
    "axioms: none (every property theorem is checked to be 'Closed under the global context')",
    "hand-written Gallina model coq/theories/*.v of the Rust sources, tied to /repo by the differential correspondence check (extracted OCaml model vs the crate, same inputs)",
    "extraction: ExtrOcamlBasic only (bool, option, unit, list, prod, sumbool, sumor; andb/orb inlined); Z/N/positive/nat stay inductives; ocaml/model_run.ml glue",
    "tools/gen_tables.py (Unicode Nd table from the regex-syntax version in /repo/Cargo.lock), tools/gen.py generators, harness/src/main.rs, tools/check.py comparison",
]

MIN64 = -2 ** 63


def to_i64(u):
    u &= (1 << 64) - 1
    return u - (1 << 64) if u >= (1 << 63) else u


# ------------------------------------------------------------------ corpus

def corpus_cases(prop):
    p = os.path.join(ROOT, "corpus", prop + ".jsonl")
    out = []
    if os.path.exists(p):
        for i, line in enumerate(open(p)):
            line = line.strip()
            if not line or line.startswith("#"):
                continue
            c = json.loads(line)
            c.setdefault("id", "corpus%d" % i)
            c["faults"] = [tuple(x) for x in c.get("faults", [])]
            out.append(c)
    return out


def classify(case, trace):
    """distribution keys of a case (what the generator actually produced / the run actually did)"""
    keys = []
    src = case.get("src", "")
    for kw in ("loop", "while", "repeat", "declare", "random", "resetRandom", "bits", "ite"):
        if kw in src:
            keys.append("src:" + kw)
    nrows = sum(1 for t, _ in trace if t == "ROW")
    keys.append("rows:%s" % ("0" if nrows == 0 else "1-4" if nrows < 5 else "5-19" if nrows < 20 else "20+"))
    for t, r in trace:
        if t == "PARSE" and r.startswith("err"):
            keys.append("parse-err:" + r.split()[1] if len(r.split()) > 1 else "parse-err")
        if t == "BIND" and r.startswith("err"):
            keys.append("bind-err:" + (r.split()[1] if len(r.split()) > 1 else ""))
        if t == "ITEM" and r.startswith("err"):
            keys.append("item-err:" + " ".join(r.split()[1:3]))
        if t == "NEW" and r.startswith("err"):
            keys.append("new-err")
        if t == "HANG":
            keys.append("hang")
        if "panic" in r and t in ("PARSE", "BIND", "NEW", "ITEM", "LEX", "DIG", "STATIC"):
            keys.append("PANIC")
    return keys


def rows_of(trace):
    """parsed ROW lines: (line, [(name, value, changed)], [(name, out, exp, check, is_checked)], failing)"""
    res = []
    for t, r in trace:
        if t != "ROW":
            continue
        parts = r.split(" | ")
        if len(parts) < 4:
            continue
        ins = []
        for w in parts[1].split():
            nmv, _, v = w.rpartition("=")
            ch = v.endswith("*")
            ins.append((nmv, v.rstrip("*"), ch))
        outs = []
        for w in parts[2].split():
            f = w.split(":")
            if len(f) >= 5:
                outs.append((":".join(f[:-4]), f[-4], f[-3], f[-2], f[-1]))
        res.append((parts[0].strip(), ins, outs, parts[3]))
    return res


def calls_of(trace):
    res = []
    for t, r in trace:
        if t == "CALL":
            kind, _, rest = r.partition(" ")
            res.append((kind, rest.strip()))
    return res


def no_panic_oracle(case, trace):
    for t, r in trace:
        if "panic" in r and t in ("PARSE", "BIND", "NEW", "ITEM", "LEX", "DIG", "STATIC", "RENDER", "MULTI", "REPARSE"):
            yield "implementation panicked: %s %s" % (t, r[:300])


def nontrivial_rows(k=2):
    def f(case, trace):
        n = sum(1 for t, _ in trace if t == "ROW")
        return n >= k or any(t in ("ITEM",) for t, _ in trace) or any(t == "NEW" and r.startswith("err") for t, r in trace)
    return f


def lit64(v):
    """spell an i64 as an entry of a data row"""
    if v >= 0:
        return str(v)
    if v == MIN64:
        return "(0-9223372036854775807-1)"
    return "(0-%d)" % (-v)


RUN_TAGS = ("PARSE", "BIND", "NEW", "CALL", "ROW", "ITEM", "END")


# ------------------------------------------------------------------ C07

def c07_cases(seed, tier):
    rng = random.Random(seed ^ 0xC07)
    vals = list(gen.B64) + [rng.randrange(-2 ** 63, 2 ** 63) for _ in range(8 if tier == "quick" else 64)]
    cases = []
    for w in range(1, 65):
        for typ in ("I", "B"):
            sigs = [{"name": "A", "typ": typ, "bits": w, "default": "0"},
                    {"name": "Q", "typ": "O", "bits": w, "default": "-"}]
            hdr = "A Q V" if typ == "I" else "A A_out Q V"
            lines = [hdr, "declare V = Q;"]
            for v in vals:
                s = lit64(v)
                lines.append("%s %s %s" % (s, s, s) if typ == "I" else "%s %s %s %s" % (s, s, s, s))
            lines += ["Z X X" if typ == "I" else "Z Z X X"]
            src = "\n".join(lines) + "\n"
            cases.append({"id": "c07-w%d-%s" % (w, typ), "kind": "run", "src": src, "sigs": sigs,
                          "layout": [1] if typ == "I" else [0, 1], "table": [["5"] if typ == "I" else ["5", "5"]], "echo": 0,
                          "wdefault": 0, "faults": [], "max": 1000, "seed": seed & 0xFFFFFFFF,
                          "c07": {"w": w, "vals": vals, "typ": typ}})
    return cases


def c07_oracle(case, trace):
    info = case.get("c07")
    if not info:
        return
    w = info["w"]
    rows = rows_of(trace)
    if len(rows) != len(info["vals"]) + 1:
        yield "expected %d rows, got %d" % (len(info["vals"]) + 1, len(rows))
        return
    for v, (line, ins, outs, _) in zip(info["vals"], rows):
        want = to_i64(v % (1 << w))
        for nm_, val, _ in ins:
            if nm_ == "A" and val != str(want):
                yield "width %d: input A for program value %d is %s, expected %d (= value mod 2^%d)" % (w, v, val, want, w)
        for nm_, _, exp, _, _ in outs:
            if nm_ in ("Q", "A") and exp != str(want):
                yield "width %d: expected value of %s for program value %d is %s, expected %d" % (w, nm_, v, exp, want)
            if nm_ == "V" and exp != str(v):
                yield "virtual signal (64 bits): expected value for program value %d is %s" % (v, exp)
    line, ins, outs, _ = rows[-1]
    if not any(nm_ == "A" and val == "Z" for nm_, val, _ in ins):
        yield "Z on the input path did not pass through unchanged"
    if not all(exp == "X" for nm_, _, exp, _, _ in outs if nm_ in ("Q", "V")):
        yield "X on the expected path did not pass through unchanged"


PROPS = {}

PROPS["C07"] = {
    "cases": c07_cases,
    "tags": RUN_TAGS,
    "nontrivial": nontrivial_rows(2),
    "oracles": [c07_oracle, no_panic_oracle],
    "release": True,
    "rule": "exhaustive over widths 1..64 x {input, bidirectional} signal; per width one row per boundary value (27 fixed 64-bit boundary "
            "values + seeded random i64) on the input path, the expected path and a 64-bit virtual signal, plus a Z/X row; "
            "non-trivial = at least 2 rows; distinct = hash of the projected trace",
    "proved": "mask_value bits n = to_i64 (n mod 2^bits) for all 1<=bits<=64 and all i64 n; identity at >=64; result is an i64; idempotent",
    "validated_only": "that src/data_row_iterator.rs bit_mask / the two mask sites compute I64.mask_value (exhaustive width sweep)",
    "assumptions": ["the model's mask_value is what the crate computes (checked by the exhaustive sweep of this run)"],
    "trusted_base": [],
}
