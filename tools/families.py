#!/usr/bin/env python3
"""Per-property configuration of the correspondence check: generator families, the projection
of the canonical trace that the property is about, what makes a case non-trivial, and the
intrinsic oracles (the property phrased on implementation traces alone, used to turn a
disagreement into a concrete failing input).  DESIGN.md sections 5 and 6."""
import json, os, random, re

import gen

ROOT = os.path.abspath(os.path.join(os.path.dirname(os.path.abspath(__file__)), ".."))

COMMON_TRUSTED = [
    "coqc 8.16.1 kernel (full .vo builds; vm_compute used for finite table facts; no native_compute)",
    "axioms: none (every property theorem is checked to be 'Closed under the global context')",
    "hand-written Gallina model coq/theories/*.v of the Rust sources, tied to /repo by the differential correspondence check (extracted OCaml model vs the crate, same inputs)",
    "extraction: ExtrOcamlBasic only (bool, option, unit, list, prod, sumbool, sumor; andb/orb inlined); Z/N/positive/nat stay inductives; ocaml/model_run.ml glue",
    "tools/gen_tables.py (Unicode Nd table from the regex-syntax version in /repo/Cargo.lock), tools/gen.py generators, harness/src/main.rs, tools/check.py comparison",
]

MIN64 = -2 ** 63


def to_i64(u):
    u &= (1 << 64) - 1
    return u - (1 << 64) if u >= (1 << 63) else u


# ------------------------------------------------------------------ corpus

def corpus_cases(prop):
    p = os.path.join(ROOT, "corpus", prop + ".jsonl")
    out = []
    if os.path.exists(p):
        for i, line in enumerate(open(p)):
            line = line.strip()
            if not line or line.startswith("#"):
                continue
            c = json.loads(line)
            c.setdefault("id", "corpus%d" % i)
            c["faults"] = [tuple(x) for x in c.get("faults", [])]
            out.append(c)
    return out


def classify(case, trace):
    """distribution keys of a case (what the generator actually produced / the run actually did)"""
    keys = []
    src = case.get("src", "")
    for kw in ("loop", "while", "repeat", "declare", "random", "resetRandom", "bits", "ite"):
        if kw in src:
            keys.append("src:" + kw)
    nrows = sum(1 for t, _ in trace if t == "ROW")
    keys.append("rows:%s" % ("0" if nrows == 0 else "1-4" if nrows < 5 else "5-19" if nrows < 20 else "20+"))
    for t, r in trace:
        if t == "PARSE" and r.startswith("err"):
            keys.append("parse-err:" + r.split()[1] if len(r.split()) > 1 else "parse-err")
        if t == "BIND" and r.startswith("err"):
            keys.append("bind-err:" + (r.split()[1] if len(r.split()) > 1 else ""))
        if t == "ITEM" and r.startswith("err"):
            keys.append("item-err:" + " ".join(r.split()[1:3]))
        if t == "NEW" and r.startswith("err"):
            keys.append("new-err")
        if t == "HANG":
            keys.append("hang")
        if "panic" in r and t in ("PARSE", "BIND", "NEW", "ITEM", "LEX", "DIG", "STATIC"):
            keys.append("PANIC")
    return keys


def rows_of(trace):
    """parsed ROW lines: (line, [(name, value, changed)], [(name, out, exp, check, is_checked)], failing)"""
    res = []
    for t, r in trace:
        if t != "ROW":
            continue
        parts = r.split(" | ")
        if len(parts) < 4:
            continue
        ins = []
        for w in parts[1].split():
            nmv, _, v = w.rpartition("=")
            ch = v.endswith("*")
            ins.append((nmv, v.rstrip("*"), ch))
        outs = []
        for w in parts[2].split():
            f = w.split(":")
            if len(f) >= 5:
                outs.append((":".join(f[:-4]), f[-4], f[-3], f[-2], f[-1]))
        res.append((parts[0].strip(), ins, outs, parts[3]))
    return res


def calls_of(trace):
    res = []
    for t, r in trace:
        if t == "CALL":
            kind, _, rest = r.partition(" ")
            res.append((kind, rest.strip()))
    return res


def no_panic_oracle(case, trace):
    for t, r in trace:
        if "panic" in r and t in ("PARSE", "BIND", "NEW", "ITEM", "LEX", "DIG", "STATIC", "RENDER", "MULTI", "REPARSE"):
            yield "implementation panicked: %s %s" % (t, r[:300])
        if t == "PRERUN":
            m_ = re.match(r"items=(\d+) calls=(\d+)", r.strip())
            if m_ and int(m_.group(2)) > int(m_.group(1)) + 1:
                yield "an iterator that was dropped after %s items had made %s driver calls (more than one per item asked for plus the constructor's)" % (m_.group(1), m_.group(2))
        if t == "SKIPRUN" and not r.startswith("same"):
            yield "taking every second item with Iterator::nth(1) does not give items 1, 3, 5, ... of the plain run with the same driver calls: %s" % r[:300]
        if t == "ADAPT" and not r.startswith("same"):
            yield "the run through Iterator's provided methods (by_ref().take(k) + size_hint, fold, count, last, peekable) differs from the plain run with the same driver: %s" % r[:300]
        if t == "SADAPT" and not r.startswith("same"):
            yield "the static run through Iterator::nth / skip / step_by differs from the plain static run (items visited, or the draws of the whole run): %s" % r[:300]
        if t == "REUSE" and not r.startswith("same"):
            yield "a TestCase that has been iterated before does not behave like a freshly bound one (same script / driver of another layout / after an edit of the public signals): %s" % r[:300]
        if t == "RENAME" and not r.startswith("same"):
            yield "after an input and an output of a bound test were renamed (public field), a program that reads no output runs differently: %s" % r[:300]
        if t == "VLIST" and r.startswith("DIFFERENT"):
            yield "a test whose declared signals come with the signal list (taken from another bound test) instead of from declare lines runs differently: %s" % r[:300]
        if t == "FREERUN" and not r.startswith("same"):
            yield "with the generator seeded by the system, resetRandom does not replay the run's own draws: %s" % r[:300]
        if t == "APICHK" and not r.startswith("ok"):
            # the harness also calls the small public functions on values and signals (check / value / is_checked /
            # failing_outputs / is_input ... / Display / Binary) and compares them with each other and with the data
            yield "public API functions that must agree disagree: %s" % r[:400]


def nontrivial_rows(k=2):
    def f(case, trace):
        n = sum(1 for t, _ in trace if t == "ROW")
        return n >= k or any(t in ("ITEM",) for t, _ in trace) or any(t == "NEW" and r.startswith("err") for t, r in trace)
    return f


def lit64(v):
    """spell an i64 as an entry of a data row"""
    if v >= 0:
        return str(v)
    if v == MIN64:
        return "(0-9223372036854775807-1)"
    return "(0-%d)" % (-v)


RUN_TAGS = ("PARSE", "BIND", "NEW", "CALL", "ROW", "ITEM", "END")


# ------------------------------------------------------------------ C07

def c07_cases(seed, tier):
    rng = random.Random(seed ^ 0xC07)
    vals = list(gen.B64) + [rng.randrange(-2 ** 63, 2 ** 63) for _ in range(8 if tier == "quick" else 64)]
    cases = []
    for w in range(1, 65):
        for typ in ("I", "B"):
            sigs = [{"name": "A", "typ": typ, "bits": w, "default": "0"},
                    {"name": "Q", "typ": "O", "bits": w, "default": "-"}]
            hdr = "A Q V" if typ == "I" else "A A_out Q V"
            lines = [hdr, "declare V = Q;"]
            for v in vals:
                s = lit64(v)
                lines.append("%s %s %s" % (s, s, s) if typ == "I" else "%s %s %s %s" % (s, s, s, s))
            lines += ["Z X X" if typ == "I" else "Z Z X X"]
            src = "\n".join(lines) + "\n"
            cases.append({"id": "c07-w%d-%s" % (w, typ), "kind": "run", "src": src, "sigs": sigs,
                          "layout": [1] if typ == "I" else [0, 1], "table": [["5"] if typ == "I" else ["5", "5"]], "echo": 0,
                          "wdefault": 0, "faults": [], "max": 1000, "seed": seed & 0xFFFFFFFF,
                          "c07": {"w": w, "vals": vals, "typ": typ}})
    # the value the user sees as `expected` must not depend on what the driver answers: drivers that return
    # negative (sign-extended), out-of-range, Z and X outputs
    for w in range(1, 65):
        sigs = [{"name": "A", "typ": "I", "bits": w, "default": "0"}, {"name": "Q", "typ": "O", "bits": w, "default": "-"}]
        lines = ["A Q"] + ["%s %s" % (lit64(v), lit64(v)) for v in vals[:24]] + ["Z X"]
        table = [["-1"], [str(-(1 << (w - 1)))], ["X"], ["Z"], [str(2 ** 63 - 1)], ["-2"], [str(-(2 ** 63))], ["0"]]
        cases.append({"id": "c07-w%d-drv" % w, "kind": "run", "src": "\n".join(lines) + "\n", "sigs": sigs, "layout": [1], "table": table,
                      "echo": 0, "wdefault": 0, "faults": [], "max": 1000, "seed": seed & 0xFFFFFFFF,
                      "c07": {"w": w, "vals": vals[:24], "typ": "I", "drv": True}})
    # (a) an output of ANOTHER width listed BEFORE the input (per-signal masks must be looked up by signal, not by position),
    # (b) a driver that reports nothing at all (every output is X; the expected values are reduced all the same) and the static
    #     iterator, (c) the very first row already carries out-of-range values
    for w in (1, 2, 3, 7, 8, 16, 31, 32, 33, 63, 64):
        for w2 in (1, 5, 64):
            if w2 == w:
                continue
            sigs = [{"name": "Q", "typ": "O", "bits": w2, "default": "-"}, {"name": "A", "typ": "I", "bits": w, "default": "0"},
                    {"name": "R", "typ": "O", "bits": w, "default": "-"}]
            first = [-1, 2 ** 63 - 1, -(2 ** 63)] + vals[:12]
            lines = ["A R"] + ["%s %s" % (lit64(v), lit64(v)) for v in first]
            for variant, (kind, layout) in enumerate([("run", [0, 2]), ("run", []), ("static", [])]):
                cases.append({"id": "c07-ord-%d-%d-%d" % (w, w2, variant), "kind": kind, "src": "\n".join(lines) + "\n", "sigs": [dict(s_) for s_ in sigs],
                              "layout": layout, "table": [["1"] * len(layout)], "echo": 0, "wdefault": 0, "faults": [], "max": 1000, "seed": 1,
                              "c07ord": {"w": w, "vals": first}})
    # one header column bound to TWO signals of different widths: an input literally named B_out (width w2) and
    # the expected side of a bidirectional B (width w): each value is reduced to the width of the signal it is bound to
    for w in (1, 3, 8, 16, 31, 33, 63, 64):
        for w2 in (1, 4, 17, 64):
            if w == w2:
                continue
            sigs = [{"name": "B", "typ": "B", "bits": w, "default": "0"}, {"name": "B_out", "typ": "I", "bits": w2, "default": "0"},
                    {"name": "Q", "typ": "O", "bits": 8, "default": "-"}]
            lines = ["B B_out Q"] + ["0 %s 0" % lit64(v) for v in vals[:20]]
            cases.append({"id": "c07-dual-%d-%d" % (w, w2), "kind": "run", "src": "\n".join(lines) + "\n", "sigs": sigs, "layout": [0, 2],
                          "table": [["1", "1"]], "echo": 0, "wdefault": 0, "faults": [], "max": 1000, "seed": 1,
                          "c07dual": {"w": w, "w2": w2, "vals": vals[:20]}})
    # `signals` is a public field of TestCase: a width changed after binding is the width of the signal from then on
    for w, w2 in ((8, 4), (4, 8), (16, 64), (64, 1), (1, 63)):
        sigs = [{"name": "A", "typ": "I", "bits": w, "default": "0"}, {"name": "Q", "typ": "O", "bits": w, "default": "-"}]
        lines = ["A Q"] + ["%s %s" % (lit64(v), lit64(v)) for v in vals[:20]]
        cases.append({"id": "c07-rebits-%d-%d" % (w, w2), "kind": "run", "src": "\n".join(lines) + "\n", "sigs": sigs, "layout": [1],
                      "table": [["1"]], "echo": 0, "wdefault": 0, "faults": [], "max": 1000, "seed": 1, "rebits": [(0, w2), (1, w2)],
                      "c07": {"w": w2, "vals": vals[:20], "typ": "I", "norow_z": True}})
    return cases


def c07_oracle(case, trace):
    info = case.get("c07")
    if not info:
        return
    w = info["w"]
    rows = rows_of(trace)
    extra = 0 if info.get("norow_z") else 1
    if len(rows) != len(info["vals"]) + extra:
        yield "expected %d rows, got %d" % (len(info["vals"]) + extra, len(rows))
        return
    for v, (line, ins, outs, _) in zip(info["vals"], rows):
        want = to_i64(v % (1 << w))
        for nm_, val, _ in ins:
            if nm_ == "A" and val != str(want):
                yield "width %d: input A for program value %d is %s, expected %d (= value mod 2^%d)" % (w, v, val, want, w)
        for nm_, _, exp, _, _ in outs:
            if nm_ in ("Q", "A") and exp != str(want):
                yield "width %d: expected value of %s for program value %d is %s, expected %d" % (w, nm_, v, exp, want)
            if nm_ == "V" and exp != str(v) and not info.get("drv"):
                yield "virtual signal (64 bits): expected value for program value %d is %s" % (v, exp)
    if info.get("norow_z"):
        return
    line, ins, outs, _ = rows[-1]
    if not any(nm_ == "A" and val == "Z" for nm_, val, _ in ins):
        yield "Z on the input path did not pass through unchanged"
    if not all(exp == "X" for nm_, _, exp, _, _ in outs if nm_ in ("Q", "V")):
        yield "X on the expected path did not pass through unchanged"


def c07_ord_oracle(case, trace):
    info = case.get("c07ord")
    if not info:
        return
    w = info["w"]
    rows = [static_view(r) for t, r in trace if t == "SROW"] if case["kind"] == "static" else None
    if rows is None:
        rr = rows_of(trace)
        if len(rr) != len(info["vals"]):
            yield "expected %d rows, got %d" % (len(info["vals"]), len(rr))
            return
        for v, (line, ins, outs, _) in zip(info["vals"], rr):
            want = to_i64(v % (1 << w))
            for nm_, val, _ in ins:
                if nm_ == "A" and val != str(want):
                    yield "width %d: input A for program value %d is %s, expected %d" % (w, v, val, want)
            for nm_, _, exp, _, _ in outs:
                if nm_ == "R" and exp != str(want):
                    yield "width %d: expected value of R for program value %d is %s, expected %d" % (w, v, exp, want)
    else:
        if len(rows) != len(info["vals"]):
            yield "static: expected %d rows, got %d" % (len(info["vals"]), len(rows))
            return
        for v, (line, ins, outs) in zip(info["vals"], rows):
            want = to_i64(v % (1 << w))
            if ("A=%d" % want) not in ins.replace("*", " ").split():
                yield "static, width %d: input A for program value %d is [%s], expected %d" % (w, v, ins, want)
            for nm_, exp in outs:
                if nm_ == "R" and exp != str(want):
                    yield "static, width %d: expected value of R for program value %d is %s, expected %d" % (w, v, exp, want)


def c07_dual_oracle(case, trace):
    info = case.get("c07dual")
    if not info:
        return
    rows = rows_of(trace)
    if len(rows) != len(info["vals"]):
        yield "expected %d rows, got %d" % (len(info["vals"]), len(rows))
        return
    for v, (line, ins, outs, _) in zip(info["vals"], rows):
        wi = to_i64(v % (1 << info["w2"]))
        we = to_i64(v % (1 << info["w"]))
        for nm_, val, _ in ins:
            if nm_ == "B_out" and val != str(wi):
                yield "input B_out (%d bits) for program value %d is %s, expected %d" % (info["w2"], v, val, wi)
        for nm_, _, exp, _, _ in outs:
            if nm_ == "B" and exp != str(we):
                yield "expected value of bidirectional B (%d bits) for program value %d is %s, expected %d" % (info["w"], v, exp, we)


PROPS = {}

PROPS["C07"] = {
    "cases": c07_cases,
    "tags": RUN_TAGS,
    "nontrivial": nontrivial_rows(2),
    "oracles": [c07_oracle, c07_dual_oracle, c07_ord_oracle, no_panic_oracle],
    "release": True,
    "rule": "exhaustive over widths 1..64 x {input, bidirectional} signal; per width one row per boundary value (27 fixed 64-bit boundary "
            "values + seeded random i64) on the input path, the expected path and a 64-bit virtual signal, plus a Z/X row; "
            "non-trivial = at least 2 rows; distinct = hash of the projected trace",
    "proved": "run level (WidthProof): every numeric input entry of every row of every run, and of every vector handed to the driver, is the reduced value of the cell in the column of that name (so it fits the width) or the declared default passed on verbatim; every numeric expected value fits its width; mask_value bits n = to_i64 (n mod 2^bits) for all 1<=bits<=64 and all i64 n; identity at >=64; result is an i64; idempotent",
    "validated_only": "that src/data_row_iterator.rs bit_mask / the two mask sites compute I64.mask_value (exhaustive width sweep)",
    "assumptions": ["the model's mask_value is what the crate computes (checked by the exhaustive sweep of this run)"],
    "trusted_base": [],
}


# ------------------------------------------------------------------ generic run families

def run_family(prefix, n_quick, n_thorough, profiles):
    """cases from gen.gen_run_case, cycling through the given profiles"""
    def f(seed, tier):
        n = n_quick if tier == "quick" else n_thorough
        out = []
        for i in range(n):
            p = profiles[i % len(profiles)]
            out.append(gen.gen_run_case("%s-%d-%d" % (prefix, seed, i), (seed * 1000003 + i * 7919 + _stable_hash(prefix) % 1000) & 0x7FFFFFFF, p))
        return out
    return f


def _stable_hash(text):
    """a hash of a string that does not depend on the process (Python's own str hash is randomised per process)"""
    import zlib
    if os.environ.get("VERIF_HASH_SHIFT"):      # (diagnostic: reproduce the case sets of runs made before this hash was stable)
        return int(os.environ["VERIF_HASH_SHIFT"])
    return zlib.crc32(text.encode("utf-8"))


def normalise_case(c):
    """applied to every case of every family before it is run: at most one driver fault per call (what two faults committed in
    one call amount to depends on the order the scripted driver commits them in - harness and model need not agree on that,
    and the crate is not concerned)"""
    fl = c.get("faults")
    if fl:
        seen, uniq = set(), []
        for k_, what_ in fl:
            if k_ not in seen:
                seen.add(k_)
                uniq.append((k_, what_))
        # ... in the order of the calls they belong to (a driver that exchanges entries of its table twice does so in time order)
        c["faults"] = sorted(uniq, key=lambda kw: kw[0])
    return c


def add_faults(casefn, kinds, frac=0.6, cont=0.0):
    """wrap a family: a fraction of the cases gets one driver fault at a random call index;
    with probability `cont` the caller keeps iterating after an IO error item"""
    def f(seed, tier):
        cases = casefn(seed, tier)
        rng = random.Random(seed ^ 0xFA17)
        for c in cases:
            if rng.random() < frac:
                nsig = len(c["sigs"]) + 3
                c["faults"] = gen.gen_faults(rng, c, nsig, rng.choice([1, 2, 3, 5, 8, 12]), kinds)
                if rng.random() < 0.3:
                    c["faults"] += gen.gen_faults(rng, c, nsig, rng.choice([2, 4, 6, 9]), kinds)
                if rng.random() < cont:
                    c["cont"] = 1
                # the FIRST answer defines the layout (any subset and permutation of the output-capable signals):
                # at call 0 only faults that keep it such a layout are meaningful as "the first answer"
                c["faults"] = [((1 if (k == 0 and what.split()[0] in ("add", "dup", "subst", "widen", "addw", "swapsig")) else k), what) for k, what in c["faults"]]
                # at most ONE fault per call: what a driver does when it commits two faults in the same call (say, adds a copy of
                # a signal and exchanges two entries of its table) depends on the order in which it commits them, which the
                # scripted drivers of harness and model need not share; such a case says nothing about the crate
                seen_calls = set()
                uniq = []
                for k_, what_ in c["faults"]:
                    if k_ not in seen_calls:
                        seen_calls.add(k_)
                        uniq.append((k_, what_))
                c["faults"] = uniq
        return cases
    return f


def signal_order_oracle(case, trace):
    """C06: every row's inputs are the input-capable signals in signal-list order, and every
    checked row's outputs are the output-capable and virtual signals in signal-list order"""
    sigline = [r for t, r in trace if t == "SIGNALS"]
    if not sigline:
        return
    sigs = []
    for w in sigline[0].split():
        f = w.split(":")
        sigs.append((f[0], f[1]))
    want_in = [n for n, k in sigs if k in ("I", "B")]
    want_out = [n for n, k in sigs if k in ("O", "B", "V")]
    calls = calls_of(trace)
    for line, ins, outs, _ in rows_of(trace):
        if [n for n, _, _ in ins] != want_in:
            yield "row at line %s: inputs %s are not the input-capable signals in signal-list order %s" % (line, [n for n, _, _ in ins], want_in)
            return
        if outs and [o[0] for o in outs] != want_out:
            yield "row at line %s: outputs %s are not the output-capable/virtual signals in order %s" % (line, [o[0] for o in outs], want_out)
            return


def protocol_oracle(case, trace):
    """C02: constructor call first; then exactly one call per row, carrying the row's inputs verbatim;
    W (or forwarded RW) for rows without outputs; nothing after the end"""
    if case.get("kind") != "run":
        return
    seq = [(t, r) for t, r in trace if t in ("CALL", "NEW", "ROW", "ITEM", "END")]
    if not any(t == "NEW" for t, _ in seq):
        return
    i = 0
    if not seq or seq[0][0] != "CALL" or not seq[0][1].startswith("RW"):
        yield "the first driver call is not the constructor's output-reading call"
        return
    if any(("*" in w) for w in seq[0][1].split()[1:]):
        yield "constructor vector flags an input as changed: %s" % seq[0][1]
    if seq[1][0] != "NEW":
        yield "more than one driver call during construction"
        return
    i = 2
    pending = None
    wdefault = case.get("wdefault", 0)
    while i < len(seq):
        t, r = seq[i]
        if t == "CALL":
            if pending is not None:
                yield "two driver calls without a row in between: %s / %s" % (pending, r)
                return
            pending = r
        elif t == "ROW":
            parts = r.split(" | ")
            if pending is None:
                yield "row at line %s was yielded without a driver call" % parts[0]
                return
            kind, _, vec = pending.partition(" ")
            if vec.strip() != parts[1].strip():
                yield "driver received '%s' but the row reports inputs '%s'" % (vec.strip(), parts[1].strip())
                return
            pending = None
        elif t == "ITEM":
            if r.startswith("err driver") and pending is None:
                yield "driver error item without a driver call"
            pending = None
        elif t == "END":
            if pending is not None and not r.startswith("limit"):
                yield "a driver call was made that belongs to no item: %s" % pending
        i += 1


def rng_oracle(case, trace):
    """C17: every draw for bound n lies in [0, n); after a reset the (bound, draw) pairs replay
    those from the start of the run for as long as the bounds agree"""
    ev = []
    for t, r in trace:
        if t == "RNG":
            ev += r.split()
        if t == "RNGCAL" and "differs" in r:
            # the harness re-draws every segment's bound sequence with the plainest program (one row `(random(b))` per
            # bound, same seed): the run's draws must be that one stream, whatever the program looks like
            yield "the run's draws are not the single stream of the run's generator for this seed and bound sequence: %s" % r.strip()
    first = []      # (bound, draw) pairs since the start of the run
    cur = None
    seg = first
    i = 0
    pairs = []
    segs = [[]]
    while i < len(ev):
        e = ev[i]
        if e == "R":
            segs.append([])
        elif e.startswith("b"):
            n = int(e[1:])
            if i + 1 < len(ev) and ev[i + 1].startswith("d"):
                d = int(ev[i + 1][1:])
                if not (0 <= d < n):
                    yield "random(%d) drew %d, outside [0, %d)" % (n, d, n)
                segs[-1].append((n, d))
                i += 1
            else:
                yield "random(%d) evaluated without exactly one draw" % n
        elif e.startswith("d"):
            yield "a draw without a random() evaluation"
        i += 1
    base = segs[0]
    for s in segs[1:]:
        for (a, b) in zip(base, s):
            if a[0] != b[0]:
                break
            if a[1] != b[1]:
                yield "after resetRandom, random(%d) drew %d but the run's earlier draw at this position was %d" % (a[0], b[1], a[1])
                return
        # a later segment that is longer than the base extends what we know of the seed's stream
        if len(s) > len(base) and all(x[0] == y[0] for x, y in zip(base, s)):
            base = s


SMALL16 = {"small": True}

PROPS["C01"] = {
    "cases": run_family("c01", 500, 20000, [
        {"maxdepth": 4, "budget": 16, "wrow": 0.35, "wlet": 0.25, "pC": 0.0, "pX": 0.0, "pbits": 0.12, "reads": 0.3, "shadow_out": 0.2, "own_counter": 0.35, "while_binds": 0.5, "while_neg": 0.4},
        {"maxdepth": 3, "budget": 12, "wrow": 0.4, "wlet": 0.2, "pC": 0.03, "pX": 0.03, "pbits": 0.08, "reads": 0.5, "echo": 1.0, "fancy": True},
        {"maxdepth": 5, "budget": 20, "wrow": 0.3, "wlet": 0.3, "pC": 0.0, "pX": 0.0, "reads": 0.0},
        # resetRandom / random between the statements, loop bounds and while conditions that read outputs
        {"maxdepth": 3, "budget": 14, "wrow": 0.35, "wlet": 0.2, "reads": 0.7, "random": 0.5, "echo": 1.0},
    ]),
    "tags": RUN_TAGS + ("VARS",),
    "nontrivial": nontrivial_rows(2),
    "oracles": [no_panic_oracle],
    "rule": "seeded valid programs: nesting depth up to 5 of let / loop / repeat / while / resetRandom around data rows; bounds constant, negative, zero, "
            "variable, expression, device-read; lets inside loops and whiles, shadowing of outer variables and of output names; rows with literals, "
            "expressions, bits(); non-trivial = at least 2 rows or an error item; distinct = hash of the projected trace (calls, rows, vars, items)",
    "proved": "Stmt.next (the 7-state resumable iterator) driven to the end = the sequential reading StmtSpec.exec, in both directions, for every program, "
              "context, evaluator and row handler (hence every prefix of every run); zero/negative bound skips the loop; scoping via the stack-of-frames "
              "abstraction of FramedMap; bits() MSB first; THROUGH ERRORS: the iterator after an error item (failing let / row / loop bound consumed, failing while condition evaluated again, blocks stay open) and the refinement, both directions, between the iterator driven by a caller that keeps iterating after error items and StmtSpecE.exec_e, the sequential reading that skips the failing statement; and theorem T through errors (RunSpecE / RunRefineE): the whole iterator driven by a caller that keeps calling next() after error items = the sequential reading in which an IO error costs one call and the rest of the expansion goes on",
    "validated_only": "that src/stmt.rs, src/framed_map.rs, src/eval_context.rs behave as Stmt.v / FramedMap.v / Eval.v (differential runs); repeat(n) = loop(n, ..) in the parser",
    "assumptions": ["Stmt.v / FramedMap.v / Eval.v model src/stmt.rs, src/framed_map.rs, src/eval_context.rs (checked by the correspondence runs of this check)"],
    "trusted_base": [],
}

PROPS["C18"] = dict(PROPS["C01"])
PROPS["C18"].update({
    "cases": run_family("c18", 400, 20000, [
        {"maxdepth": 4, "budget": 16, "wrow": 0.4, "wlet": 0.3, "pC": 0.1, "pX": 0.1, "reads": 0.3, "shadow_out": 0.3, "declare": 0.3, "own_counter": 0.35, "while_binds": 0.5, "while_neg": 0.4, "kw_names": 0.3},
        {"maxdepth": 5, "budget": 18, "wrow": 0.35, "wlet": 0.3, "pC": 0.0, "pX": 0.0, "reads": 0.0},
        # rows that fail after the driver call (a virtual signal reading Z/X, a deviating answer) with a caller that keeps iterating:
        # vars() of the rows after the error item
        {"declare": 1.0, "reads": 0.6, "pZX": 0.3, "pZXread": 0.0, "maxdepth": 3, "wlet": 0.35, "cont": 1.0, "echo": 1.0},
        # resetRandom inside loop bodies (it re-seeds the generator and touches nothing else: frames and shadowed bindings stay)
        {"maxdepth": 3, "budget": 16, "random": 0.5, "wlet": 0.35, "wrow": 0.4, "own_counter": 0.2, "scope_names": 0.6},
    ]),
    "tags": ("PARSE", "BIND", "NEW", "ROW", "VARS", "ITEM", "END"),
    "rule": "seeded valid programs with lets at every depth, shadowing (also of output names), C/X expansions and virtual signals; vars() is read after EVERY "
            "yielded row (mid-clock and X-expanded rows included) and compared, sorted by key, with the model's flatten; non-trivial = at least 2 rows",
    "proved": "vars() (FramedMap::flatten) = innermost-wins view of the stack of frames = what a variable read returns; frames of ended loops are gone and "
              "shadowed bindings reappear; outputs never enter it; the IO of next() (incl. swap_vars for virtual signals) leaves the variable map as row evaluation left it",
    "validated_only": "that the real HashMap returned by vars() equals the model's association list (compared sorted, every row)",
})

PROPS["C02"] = {
    "cases": add_faults(run_family("c02", 500, 20000, [
        {"pC": 0.3, "pX": 0.1, "maxdepth": 2, "reads": 0.3, "declare": 0.2},
        {"pC": 0.15, "pX": 0.15, "maxdepth": 3, "reads": 0.5, "echo": 1.0},
    ]), ["err"], 0.35),
    "tags": ("NEW", "CALL", "ROW", "ITEM", "END"),
    "nontrivial": nontrivial_rows(2),
    "oracles": [protocol_oracle, no_panic_oracle],
    "rule": "seeded programs with many C rows (write-only mid-clock calls) and X rows, drivers that override write_input and drivers that inherit the default, "
            "a third of the cases with a driver error at a random call index; the harness driver records (method, full input vector) of every call; "
            "non-trivial = at least 2 rows or an error item",
    "proved": "constructor = exactly one RW call with the default vector; every next(): None -> no call, row -> exactly one call carrying the row's inputs verbatim "
              "(RW if checked, write-only or its default forwarding otherwise, then outputs empty), driver error -> exactly the failing call, evaluation error -> no call; "
              "n-step accounting of the ghost log; nothing after None. For every driver, generator, test case.",
    "validated_only": "that src/data_row_iterator.rs / src/lib.rs (default write_input) behave as Iter.v (differential runs + intrinsic call/row matching)",
    "assumptions": ["Iter.v models src/data_row_iterator.rs (checked by the correspondence runs of this check)"],
    "trusted_base": [],
}

PROPS["C04"] = {
    "cases": run_family("c04", 600, 20000, [
        {"reads": 0.9, "echo": 1.0, "pC": 0.2, "maxdepth": 3, "shadow_out": 0.3, "pZXread": 0.08, "drop_read": 0.1},
        {"reads": 0.7, "echo": 1.0, "pC": 0.1, "pX": 0.1, "maxdepth": 3, "declare": 0.2, "wlet": 0.3},
        {"reads": 0.9, "echo": 1.0, "maxdepth": 3, "shadow_out": 0.7, "wlet": 0.4, "scope_names": 0.8, "dead_names": 0.4, "drop_read": 0.3},
        {"reads": 0.8, "echo": 1.0, "maxdepth": 2, "shadow_out": 0.6, "wlet": 0.3, "declare": 1.0, "pZX": 0.25, "pZXread": 0.0, "cont": 1.0, "wrow": 0.5},
        {"reads": 0.95, "echo": 1.0, "maxdepth": 2, "random": 0.4, "wrow": 0.35, "wlet": 0.2, "budget": 16},
    ]),
    "tags": RUN_TAGS + ("READS",),
    "nontrivial": nontrivial_rows(2),
    "oracles": [no_panic_oracle],
    "rule": "seeded programs reading outputs in row entries, lets, loop bounds and while conditions; drivers whose answers depend on call index AND on the inputs received (echo), "
            "C rows interleaved so that a refresh on a write-only call would show; variables shadowing output names; Z/X returned for read outputs; layouts that omit a read output; "
            "non-trivial = at least 2 rows or an error",
    "proved": "run level through errors (OutputsRunProof): in every reachable state the values expressions read are the answer to the last RW call of the log that the driver answered, accepted or refused; failed and write-only calls do not refresh it; ctx outputs = answer of the constructor call initially; replaced exactly by the answer of each checked row's call; untouched by mid-clock writes, by the statement "
              "iterator and by row preparation; variables take precedence in ctx_get; reading Z/X is an evaluation error",
    "validated_only": "that the crate's EvalContext / DataRowIterator behave as the model (differential runs with feedback drivers)",
    "assumptions": ["Iter.v / Eval.v model the crate (checked by the correspondence runs of this check)"],
    "trusted_base": [],
}

PROPS["C05"] = {
    "cases": run_family("c05", 500, 20000, [
        {"pC": 0.3, "pX": 0.3, "pZ": 0.05, "pXout": 0.3, "pZout": 0.1, "maxdepth": 1, "reads": 0.0, "n_bidir": 1, "pbits": 0.1},
        {"pC": 0.2, "pX": 0.25, "maxdepth": 3, "reads": 0.2, "pbits": 0.1},
        {"pC": 0.25, "pX": 0.3, "pZ": 0.1, "maxdepth": 3, "wlet": 0.3, "kw_names": 0.7},
    ]),
    "tags": ("NEW", "CALL", "ROW", "ITEM", "END"),
    "nontrivial": nontrivial_rows(3),
    "oracles": [no_panic_oracle],
    "rule": "seeded rows with 0-4 clock columns and 0-5 X entries on 1-bit, multi-bit and bidirectional inputs, X/Z in expected columns, mixed with literals, expressions and bits(), "
            "at loop depth 0-3; projection = call kinds and vectors, rows (inputs, expected, line); non-trivial = at least 3 rows",
    "proved": "run level through errors (ExpansionRunProof): the calls belonging to one source row send exactly spec_rows of that row, each vector once, in order, whatever becomes of the calls; which calls read outputs; group sizes; prepare_cache+pop iterated until the cache is empty = ExpandSpec.expand_spec (2^k assignments, leftmost fastest, 0 before 1; clock triple 0,1,0 with only the last checked; "
              "expected columns blanked in the unchecked rows) for every row and every index vectors, with explicit fuel bound; row count formula; non-input columns never expanded",
    "validated_only": "that expand_x / expand_c / get_row of src/data_row_iterator.rs behave as Iter.v",
    "assumptions": ["Iter.v models src/data_row_iterator.rs (checked by the correspondence runs of this check)"],
    "trusted_base": [],
}

PROPS["C06"] = {
    "cases": add_faults(run_family("c06", 500, 20000, [
        {"n_bidir": 1, "pC": 0.05, "pX": 0.05, "maxdepth": 1, "reads": 0.0, "pZ": 0.1, "wide": True},
        {"n_bidir": 2, "pC": 0.1, "pX": 0.1, "maxdepth": 2, "reads": 0.2, "declare": 0.3, "odd_names": True},
        {"n_bidir": 1, "pC": 0.0, "pX": 0.0, "maxdepth": 2, "reads": 0.0, "wrow": 0.8, "small": True},
    ]), ["err", "drop", "swap"], 0.3, cont=1.0),
    "tags": ("BIND", "SIGNALS", "NEW", "CALL", "ROW", "ITEM", "END"),
    "nontrivial": nontrivial_rows(2),
    "oracles": [signal_order_oracle, no_panic_oracle],
    "rule": "seeded signal lists (inputs, outputs, bidirectional interleaved, widths 1..64, defaults incl. Z) against headers that are shuffled strict subsets of the possible columns "
            "(bidirectional pairs split or partial); projection = signal identity, order, value, changed flag of every entry and the vectors received by the driver; non-trivial = at least 2 rows",
    "proved": "run level through errors (VectorProof): every vector of the call log complete and in order, every checked row complete, unflagged entries equal the previous vector handed to the driver for any two consecutive calls, omitted signals at default in every call; for every parsed test, signal list and row: generate_input_entries / generate_expected_entries / default vector = the by-name specification (ByNameSpec) built from the header names only; "
              "one entry per input-capable (resp. output-capable or virtual) signal in signal-list order; changed=false implies same value as in the previous vector; omitted inputs at default, never changed",
    "validated_only": "that build_indices / generate_*_entries / check_changed_entries of the crate behave as Bind.v / Iter.v",
    "assumptions": ["Bind.v / Iter.v model the crate (checked by the correspondence runs of this check)"],
    "trusted_base": [],
}


# ------------------------------------------------------------------ C08: expressions

def py_eval(e, env):
    """the property's semantics on Python integers; returns int, or raises ZeroDivisionError / KeyError"""
    k = e[0]
    if k == "num":
        return e[1]
    if k == "var":
        return env[e[1]]
    if k == "un":
        v = py_eval(e[2], env)
        if e[1] == "-":
            return to_i64(-v)
        if e[1] == "!":
            return 1 if v == 0 else 0
        return to_i64(~v)
    if k == "fn":
        if e[1] == "ite":
            t = py_eval(e[2][0], env)
            return py_eval(e[2][1], env) if t != 0 else py_eval(e[2][2], env)
        if e[1] == "signExt":
            # arguments are not evaluated: func_sign_ext fails at once
            raise NotImplementedError("signExt")
        raise KeyError(e[1])
    op, l, r = e[1], py_eval(e[2], env), py_eval(e[3], env)
    if op == "+":
        return to_i64(l + r)
    if op == "-":
        return to_i64(l - r)
    if op == "*":
        return to_i64(l * r)
    if op in ("/", "%"):
        if r == 0:
            raise ZeroDivisionError
        q = abs(l) // abs(r)
        if (l < 0) != (r < 0):
            q = -q
        return to_i64(q) if op == "/" else to_i64(l - q * r)
    if op == "<<":
        return to_i64(l << (r % 64))
    if op == ">>":
        return l >> (r % 64)
    if op == "&":
        return l & r
    if op == "|":
        return l | r
    if op == "^":
        return l ^ r
    return {"=": l == r, "!=": l != r, "<": l < r, ">": l > r, "<=": l <= r, ">=": l >= r}[op] and 1 or 0


def climb(seq):
    """reference parser for a flat sequence atom op atom op ... : precedence climbing, left associative;
    levels as the property lists them (tightest first)"""
    level = {}
    for i, ops in enumerate([["*", "/", "%"], ["+", "-"], ["<<", ">>"], ["&"], ["^"], ["|"], ["<", ">", "<=", ">="], ["=", "!="]]):
        for o in ops:
            level[o] = i
    pos = [0]

    def parse(max_level):
        # parse an expression whose operators all have level <= max_level
        if max_level < 0:
            a = seq[pos[0]]
            pos[0] += 1
            return a
        left = parse(max_level - 1)
        while pos[0] < len(seq) and level[seq[pos[0]]] == max_level:
            op = seq[pos[0]]
            pos[0] += 1
            right = parse(max_level - 1)
            left = ("bin", op, left, right)
        return left
    return parse(7)


def c08_cases(seed, tier):
    rng = random.Random(seed ^ 0xC08)
    cases = []
    sigs = [{"name": "A", "typ": "I", "bits": 1, "default": "0"}, {"name": "Q", "typ": "O", "bits": 8, "default": "-"}]
    vals = gen.B64
    # (1) exhaustive operator x boundary x boundary table, through variables so that negative operands exist
    ops = gen.BINOPS
    rows = []
    for op in ops:
        for a in vals:
            for b in vals:
                if op in ("<<", ">>") and rng.random() < 0.5:
                    b = rng.choice([-1, 0, 1, 63, 64, 65, 127, MIN64, 2 ** 63 - 1])
                rows.append((op, a, b))
    if tier == "quick":
        rows = rows[::7] + [r for r in rows if r[0] in ("/", "%", "<<", ">>") and (r[1] == MIN64 or r[2] in (-1, 0, 64))]
    zero_rows = [r_ for r_ in rows if r_[0] in ("/", "%") and r_[2] == 0]
    rows = [r_ for r_ in rows if not (r_[0] in ("/", "%") and r_[2] == 0)]
    for zi, (op, a, b) in enumerate(zero_rows[:: (3 if tier == "quick" else 1)]):
        src = "A V\ndeclare V = Q;\nlet a = %s;\n0 (a %s 0)\n" % ((str(a) if a >= 0 else lit64(a)[1:-1]), op)
        cases.append({"id": "c08-zero-%d" % zi, "kind": "run", "src": src, "sigs": sigs, "layout": [1], "table": [["1"]],
                      "echo": 0, "wdefault": 0, "faults": [], "max": 10, "seed": 1, "c08": ["err"]})
    # (1b) precedence chains: every triple of binary operators between four atoms, no parentheses
    # (exhaustive: 16^3 = 4096 expressions); expected value from an independent precedence-climbing parser
    atoms = [("num", 7), ("num", 3), ("num", 2), ("num", 5)]
    chain_rows = []
    for o1 in gen.BINOPS:
        for o2 in gen.BINOPS:
            for o3 in gen.BINOPS:
                chain_rows.append((o1, o2, o3))
    if tier == "quick":
        chain_rows = chain_rows[::3]
    for ci in range(0, len(chain_rows), 200):
        part = chain_rows[ci:ci + 200]
        lines = ["A V", "declare V = Q;"]
        exp = []
        for o1, o2, o3 in part:
            lines.append("0 (7 %s 3 %s 2 %s 5)" % (o1, o2, o3))
            exp.append(py_eval(climb([atoms[0], o1, atoms[1], o2, atoms[2], o3, atoms[3]]), {}))
        cases.append({"id": "c08-chain-%d" % ci, "kind": "run", "src": "\n".join(lines) + "\n", "sigs": sigs, "layout": [1], "table": [["1"]],
                      "echo": 0, "wdefault": 0, "faults": [], "max": 100000, "seed": 1, "c08": exp})
    chunk = 150
    for ci in range(0, len(rows), chunk):
        part = rows[ci:ci + chunk]
        lines = ["A V", "declare V = Q;"]
        exp = []
        for op, a, b in part:
            lines.append("let a = %s;" % lit64(a).strip("()") if a >= 0 else "let a = %s;" % lit64(a)[1:-1])
            lines.append("let b = %s;" % (str(b) if b >= 0 else lit64(b)[1:-1]))
            lines.append("0 (a %s b)" % op)
            try:
                exp.append(py_eval(("bin", op, ("num", a), ("num", b)), {}))
            except ZeroDivisionError:
                exp.append("err")
                # a division by zero ends the run with an error item: keep it last in its own case
                break
        cases.append({"id": "c08-tab-%d" % ci, "kind": "run", "src": "\n".join(lines) + "\n", "sigs": sigs, "layout": [1], "table": [["1"]],
                      "echo": 0, "wdefault": 0, "faults": [], "max": 100000, "seed": 1, "c08": exp})
    # (1c) literals as BARE row entries (no parentheses), every radix, leading zeros, both ends of the range
    bare = ["0", "00", "07", "010", "017", "0100", "0777", "0777777777777777777777", "19", "9223372036854775807", "0x1F", "0X1f", "0xaBcD", "0x7FFFFFFFFFFFFFFF",
            "0b101", "0B11", "0b" + "1" * 63, "0000000017", "08"[:1] + "10", "0x0", "0b0", "1", "8", "9"]
    bare += [oct(rng.randrange(8, 1 << rng.randrange(4, 63))).replace("0o", "0") for _ in range(6)]
    def _val(t):
        tl = t.lower()
        return int(tl[2:], 16) if tl.startswith("0x") else int(tl[2:], 2) if tl.startswith("0b") else int(t, 8) if t.startswith("0") and len(t) > 1 else int(t)
    cases.append({"id": "c08-bare", "kind": "run", "src": "A V\ndeclare V = Q;\n" + "".join("0 %s\n" % t for t in bare), "sigs": sigs, "layout": [1], "table": [["1"]],
                  "echo": 0, "wdefault": 0, "faults": [], "max": 100000, "seed": 1, "c08": [_val(t) for t in bare], "c08_bare": True})
    # (1d) every binary operator directly between two literals of every radix, no blank anywhere (0xF^1, 0b11<<0x2, 017>=9)
    lits = [("0xF", 15), ("0Xa", 10), ("0x1f", 31), ("0b11", 3), ("0B10", 2), ("017", 15), ("07", 7), ("9", 9), ("12", 12), ("0", 0), ("0xE", 14), ("0x1A", 26)]
    tlines, texp = ["A V", "declare V = Q;"], []
    for op in gen.BINOPS:
        for (ta, va) in lits:
            tb, vb = lits[(len(texp) * 5 + 3) % len(lits)]
            if op in ("/", "%") and vb == 0:
                tb, vb = "0x3", 3
            tlines.append("0 (%s%s%s)" % (ta, op, tb))
            texp.append(py_eval(("bin", op, ("num", va), ("num", vb)), {}))
    cases.append({"id": "c08-touch", "kind": "run", "src": "\n".join(tlines) + "\n", "sigs": sigs, "layout": [1], "table": [["1"]],
                  "echo": 0, "wdefault": 0, "faults": [], "max": 100000, "seed": 1, "c08": texp})
    # (2) random trees, minimal and redundant parentheses, unary operators, ite, radix mix
    n = 300 if tier == "quick" else 20000
    for i in range(n):
        r = random.Random((seed << 20) ^ i)
        env = {"x": r.choice(vals), "y": r.choice(vals), "z": r.randrange(-8, 70)}
        eg = gen.ExprGen(r, vars_=["x", "y", "z"], small=(i % 3 == 0), shift_small=False, allow_random=False)
        e = eg.gen(r.randrange(2, 7))
        text = gen.print_expr(e, r, redundant=(0.0 if i % 2 == 0 else 0.3), radix_mix=(i % 4 == 1))
        if i % 4 in (1, 2):
            text = text.replace(" ", "")          # tokens that touch: 0xF^1, 7--3, x<<2
        lines = ["A V", "declare V = Q;"]
        for k_, v_ in env.items():
            lines.append("let %s = %s;" % (k_, str(v_) if v_ >= 0 else lit64(v_)[1:-1]))
        lines.append("0 (%s)" % text)
        try:
            exp = [py_eval(e, env)]
        except ZeroDivisionError:
            exp = ["err"]
        except NotImplementedError:
            exp = ["err-ni"]
        cases.append({"id": "c08-tree-%d" % i, "kind": "run", "src": "\n".join(lines) + "\n", "sigs": sigs, "layout": [1], "table": [["1"]],
                      "echo": 0, "wdefault": 0, "faults": [], "max": 10, "seed": 1, "c08": exp})
    return cases


def c08_oracle(case, trace):
    exp = case.get("c08")
    if exp is None:
        return
    rows = rows_of(trace)
    items = [r for t, r in trace if t == "ITEM"]
    k = 0
    for want in exp:
        if want == "err":
            if not any("DivisionByZero" in it or "ivision" in it for it in items):
                yield "division by zero did not give an error item (items: %s)" % items[:1]
            return
        if want == "err-ni":
            if not any("FunctionNotImplemented" in it for it in items):
                yield "evaluating signExt did not give a FunctionNotImplemented error item (items: %s)" % items[:1]
            return
        if k >= len(rows):
            yield "row %d missing (expected value %d)" % (k, want)
            return
        got = [o[2] for o in rows[k][2] if o[0] == "V"]
        if got != [str(want)]:
            src_line = [l for l in case["src"].split("\n") if l.startswith("0 (" if not case.get("c08_bare") else "0 ")][k]
            yield "expression %s evaluates to %s, expected %d (64-bit two's complement semantics)" % (src_line[2:], got, want)
            return
        k += 1


PROPS["C08"] = {
    "cases": c08_cases,
    "tags": ("PARSE", "BIND", "NEW", "ROW", "ITEM", "END"),
    "nontrivial": lambda c, t: any(x == "ROW" for x, _ in t) or any(x == "ITEM" for x, _ in t),
    "oracles": [c08_oracle, no_panic_oracle],
    "release": True,
    "rule": "(1) operator table: all 16 binary operators x 27 boundary values x 27 boundary values (shift counts also -1,0,1,63,64,65,127,MIN,MAX) through variables, observed un-truncated "
            "in a 64-bit virtual-signal column (quick: every 7th plus all division/shift edge rows; thorough: all); (2) seeded random expression trees of depth 2-6 over all binary and unary operators, "
            "ite, variables with boundary values, printed with minimal or redundant parentheses and mixed literal radix; oracle = independent big-integer evaluator; non-trivial = yields a row or an error item",
    "proved": "BinOpTree::add fold = THE precedence-correct left-associative tree (existence + uniqueness), precedence table = the specified levels, left associativity within a level; every operator's "
              "result characterised (wrap mod 2^64, shifts by count mod 64 with arithmetic >>, quot/rem, 0/1 comparisons) and in i64; ite lazy; literal spelling in radix 10/16/2/8 lexes to one token of the "
              "right kind whose value is the positional value, overflow beyond 2^63-1 is an error",
    "validated_only": "that BinOp::eval / UnaryOp::eval / parse_expr / parse_number of the crate compute what Eval.v / Parser.v say (exhaustive operator table + random trees against an independent oracle); "
                      "the unparse-parse round trip on token level is sampled, not proved",
    "assumptions": ["Eval.v / Parser.v model the crate (checked by this run)"],
    "trusted_base": [],
}

PROPS["C17"] = {
    "cases": run_family("c17", 500, 20000, [
        {"random": 0.6, "maxdepth": 3, "pC": 0.05, "pX": 0.05, "reads": 0.2, "declare": 0.0, "small": True},
        {"random": 0.8, "maxdepth": 2, "wlet": 0.35, "reads": 0.0},
    ]),
    "tags": RUN_TAGS + ("RNG",),
    "nontrivial": lambda c, t: any(x == "RNG" and r.strip() for x, r in t),
    "oracles": [rng_oracle, no_panic_oracle],
    "rule": "seeded programs with random(n) in row entries, lets, loop bounds, while conditions and ite branches, n in {2,3,10,100,2^31,2^62}, resetRandom at statement level; seeds from the case PRNG "
            "(hook: seed override); the implementation's generator events (bound, draw, reset) are logged through the verif-hooks feature, checked for range / one draw per evaluation / replay after reset, "
            "and replayed into the model as its oracle G; non-trivial = at least one draw",
    "proved": "run level through errors (RandomRunProof): what every call of next() does to the generator history (case table), every draw of every run in range, replay after reset at run level, errors keep their draws; random(e): bound < 2 -> error and no draw, else exactly one draw from [1,n) recorded in the history; with rand's range contract 0 <= r < n; evaluation only appends to the history; "
              "no draw without a random node; unselected ite branch draws nothing; resetRandom restores the initial generator state; 'as if literals' as a program transformation: literalize replaces exactly the "
              "evaluated, drawing random(..) calls by the drawn values (a literal-substitution instance), the literal expression / data row gives the same result (value or error) with ANY generator and draws "
              "nothing, one literal per draw; the drawn values are a function of generator, start history and bound sequence only, so the same bounds after a reset replay the same values",
    "validated_only": "StdRng/gen_range (rand's contract is a hypothesis); that the crate's evaluator is Eval.v (the implementation's draws are replayed into the model and all rows compared); the "
                      "literal-substitution theorem is per expression / data row evaluation (a loop body evaluated several times corresponds to several literal copies)",
    "assumptions": ["rand: lo <= gen_range(lo..hi) < hi (hypothesis gen_in_range of the theorem, checked on every logged draw)", "StdRng::seed_from_u64 is deterministic (checked: replay after reset)"],
    "trusted_base": ["rand 0.8 StdRng / gen_range (not modelled; oracle G)"],
    "level": "proof",
}


# ------------------------------------------------------------------ C11: signal lists that do / do not fit

def c11_cases(seed, tier):
    base = run_family("c11", 800 if tier == "quick" else 30000, 0, [
        {"n_bidir": 1, "pC": 0.25, "reads": 0.6, "declare": 0.3, "maxdepth": 2, "shadow_out": 0.3},
        {"n_bidir": 2, "pC": 0.15, "reads": 0.4, "declare": 0.2, "maxdepth": 3, "odd_names": True},
        {"n_bidir": 2, "pC": 0.1, "pC_out": 0.06, "reads": 0.3, "maxdepth": 2, "pbits": 0.15, "full_header": True},
        {"n_bidir": 1, "pC": 0.1, "reads": 0.7, "scope_names": 0.8, "dead_names": 0.5, "shadow_out": 0.5, "maxdepth": 3, "wlet": 0.3},
        # expressions that read a DECLARED name (never an output of the device), loop bounds that mention the loop's own counter
        {"n_bidir": 1, "reads": 0.5, "declare": 0.6, "read_virtual": 0.5, "own_bound": 0.5, "scope_names": 0.7, "maxdepth": 2, "wlet": 0.3},
    ])(seed, "quick")
    rng = random.Random(seed ^ 0xC11)
    for c in base:
        sigs = [dict(s) for s in c["sigs"]]
        x = rng.random()
        c["c11"] = "intact"
        if x < 0.12 and len(sigs) > 1:
            del sigs[rng.randrange(len(sigs))]
            c["c11"] = "signal removed"
        elif x < 0.22:
            s = dict(rng.choice(sigs))
            if rng.random() < 0.5:
                s["typ"] = rng.choice(["I", "O", "B"])
                if s["typ"] != "O" and s["default"] == "-":
                    s["default"] = "0"
            sigs.insert(rng.randrange(len(sigs) + 1), s)
            c["c11"] = "signal duplicated"
        elif x < 0.30:
            sigs.insert(rng.randrange(len(sigs) + 1), {"name": rng.choice(["EXTRA", "Z9", "V1", "V2", "n", "i1"]), "typ": rng.choice(["I", "O", "B"]),
                                                      "bits": rng.choice([1, 8]), "default": "0"})
            c["c11"] = "extra signal"
        elif x < 0.45:
            s = rng.choice(sigs)
            old = s["typ"]
            s["typ"] = rng.choice([t for t in ("I", "O", "B") if t != old])
            s["default"] = "-" if s["typ"] == "O" else (s["default"] if s["default"] != "-" else "0")
            c["c11"] = "direction %s->%s" % (old, s["typ"])
        elif x < 0.52:
            s = rng.choice(sigs)
            s["name"] = s["name"] + rng.choice(["_out", "x", "_OUT"])
            c["c11"] = "renamed"
        elif x < 0.58:
            rng.shuffle(sigs)
            c["c11"] = "reordered"
        if rng.random() < 0.12:
            bid = [s_ for s_ in sigs if s_["typ"] == "B"]
            if bid:
                b = rng.choice(bid)
                sigs.insert(rng.randrange(len(sigs) + 1), {"name": b["name"] + "_out", "typ": rng.choice(["I", "O", "B"]), "bits": b["bits"], "default": "0"})
                c["c11"] += " + a signal literally named <bidirectional>_out"
        if rng.random() < 0.15 and len(sigs) > 1:
            del sigs[rng.randrange(len(sigs))]
            c["c11"] += " + signal removed"
        c["sigs"] = sigs
        # the layout indices refer to the signal list: rebuild a layout over the output-capable signals
        outs = [i for i, s in enumerate(sigs) if s["typ"] in ("O", "B")]
        rng.shuffle(outs)
        c["layout"] = outs
        c["table"] = [[str(rng.randrange(0, 4)) for _ in outs] for _ in range(3)]
    return base


def c11_classify(case, trace):
    return ["c11:" + case.get("c11", "?")]


PROPS["C11"] = {
    "cases": c11_cases,
    "tags": ("PARSE", "BIND", "SIGNALS", "READS", "NEW", "ROW", "ITEM", "END"),
    "nontrivial": lambda c, t: any(x == "BIND" for x, _ in t),
    "oracles": [no_panic_oracle],
    "rule": "seeded parsed programs (C entries, reads of outputs, declared virtual signals, variables shadowing output names) bound to signal lists that are intact (about 40%) or mutated: "
            "a signal removed, duplicated (same or other direction), an extra signal (also named like a virtual signal or a loop variable), a direction changed, a signal renamed (also to <name>_out), "
            "the list reordered; every accepted pair is then iterated to the end under catch_unwind; projection = bind verdict with error kind, bound signal list, read list, rows; "
            "non-trivial = reaches the bind step; distinct = hash of the projection",
    "proved": "which error a refused binding gets is specified declaratively (refusal_exact: priority duplicate signal > declared name is a device signal > all unknown columns > C column not an input > read not an output) and equals the code's error for every input; with_signals p sigs = Ok <-> fits p sigs (the property's sentence as a boolean) for every parsed test with a duplicate-free header and every signal list; exact hypothesis-free form; "
              "error otherwise; never panics, never out of fuel; an accepted pair satisfies wf_tc, the precondition of C10's no-panic theorem (given wf_parsed from the parser and well-formed caller-supplied virtual signals, "
              "which the public API cannot construct ill-formed)",
    "validated_only": "that ParsedTestCase::with_signals behaves as Bind.with_signals (verdict and error kind compared on every case); which error is returned when several apply",
    "assumptions": ["Bind.v models src/parsed_test_case.rs (checked by this run)", "wf_parsed p for parsed tests (parser theorem, see C09/C12)"],
    "trusted_base": [],
}


# ------------------------------------------------------------------ C03 / C13 / C14: what the driver returns

def record_of(trace):
    """the scripted driver's own record: call number -> list of (signal name, value) in answer order"""
    rec = {}
    for t, r in trace:
        if t == "RECORD":
            for w in r.split():
                f = w.split(":")
                if len(f) >= 3:
                    rec.setdefault(int(f[0]), []).append((":".join(f[1:-1]), f[-1]))
    return rec


def attribution_oracle(case, trace):
    """C03/C13 on implementation traces alone: every value reported for a non-virtual signal in a checked row is what
    the driver recorded for that signal on that very call (or X if the layout never contains it); a row is only
    returned for a call whose answer has the layout of the first answer"""
    rec = record_of(trace)
    sigline = [r for t, r in trace if t == "SIGNALS"]
    if not sigline or 0 not in rec:
        return
    virtual = set(w.split(":")[0] for w in sigline[0].split() if w.split(":")[1] == "V")
    first = [n for n, _ in rec[0]]
    if len(set(first)) != len(first):
        return
    k = -1
    last_kind = None
    for t, r in trace:
        if t == "CALL":
            k += 1
            last_kind = r.split(" ")[0]
        elif t == "ROW" and last_kind == "RW":
            parts = r.split(" | ")
            outs = []
            for w in parts[2].split():
                f = w.split(":")
                outs.append((":".join(f[:-4]), f[-4]))
            if not outs:
                continue
            ans = rec.get(k, [])
            if [n for n, _ in ans] != first:
                yield "call %d answered with layout %s instead of the first layout %s, yet a row was returned" % (k, [n for n, _ in ans], first)
                return
            d = dict(ans)
            for name, val in outs:
                if name in virtual:
                    continue
                want = d.get(name, "X")
                if val != want:
                    yield "call %d: output reported for %s is %s, the driver returned %s for that signal" % (k, name, val, want)
                    return


def verdict_oracle(case, trace):
    """C03 verdict rules on every entry the implementation printed: (signal, output, expected, check(), is_checked())"""
    for line, ins, outs, failing in rows_of(trace):
        fails = []
        for name, out, exp, chk, ischk in outs:
            want = (exp == "X") or (exp == "Z" and out == "Z") or (exp not in ("X", "Z") and out == exp)
            if (chk == "1") != want:
                yield "check() of expected=%s output=%s is %s" % (exp, out, chk)
                return
            if (ischk == "0") != (exp == "X"):
                yield "is_checked() of expected=%s is %s" % (exp, ischk)
                return
            if not want:
                fails.append(name)
        got = failing.replace("failing=", "").strip()
        if got != ",".join(fails):
            yield "failing_outputs() = [%s], the entries that do not pass are [%s]" % (got, ",".join(fails))
            return


PROPS["C03"] = {
    "cases": run_family("c03", 500, 20000, [
        {"bigvals": True, "pZX": 0.2, "pXout": 0.3, "pZout": 0.15, "reads": 0.0, "maxdepth": 1, "n_bidir": 1, "pC": 0.05, "pX": 0.05, "wide": True},
        {"bigvals": True, "pZX": 0.15, "pZout": 0.1, "reads": 0.3, "pZXread": 0.0, "maxdepth": 2, "declare": 0.2},
    ]),
    "tags": ("NEW", "ROW", "ITEM", "END"),
    "nontrivial": nontrivial_rows(2),
    "oracles": [attribution_oracle, verdict_oracle, no_panic_oracle],
    "rule": "seeded tests whose scripted driver answers with a fixed layout = a shuffled subset of the output-capable signals (bidirectional included), values from the 27 64-bit boundary values, "
            "small numbers, Z and X, expected values incl. X and Z; the harness calls the real check(), is_checked(), failing_outputs() on every entry and prints them; oracle: the driver's own record of "
            "what it returned for which signal on which call; non-trivial = at least 2 rows",
    "proved": "no value is ever attributed to a signal other than the one the driver reported it for in this call (for every driver); under a stable layout the value is the driver's value for that signal or X if never supplied; "
              "check() / is_checked() / failing_outputs() truth tables for all values",
    "validated_only": "that build_output_indices / extract_output_values / ExpectedValue::check of the crate behave as Iter.v / Ast.v",
    "assumptions": ["Iter.v models src/data_row_iterator.rs, Ast.expected_check models src/value.rs (checked by this run)"],
    "trusted_base": [],
}

PROPS["C13"] = {
    "cases": add_faults(run_family("c13", 600, 20000, [
        {"pC": 0.15, "pX": 0.1, "maxdepth": 2, "reads": 0.3, "declare": 0.2, "full_layout": False},
        {"pC": 0.1, "maxdepth": 3, "reads": 0.2, "echo": 1.0},
        {"pC": 0.1, "maxdepth": 2, "reads": 0.2, "n_bidir": 1, "out_twin": 0.8, "full_layout": True},
        {"pC": 0.1, "maxdepth": 2, "reads": 0.0, "pZX": 0.5, "full_layout": True, "n_bidir": 1},
    ]), ["err", "drop", "add", "dup", "swap", "subst", "widen", "addw", "swapsig"], 0.8, cont=0.4),
    "tags": ("NEW", "CALL", "ROW", "ITEM", "END"),
    "nontrivial": lambda c, t: any(x == "ITEM" for x, _ in t) or any(x == "NEW" and r.startswith("err") for x, r in t),
    "oracles": [attribution_oracle, protocol_oracle, no_panic_oracle],
    "rule": "seeded tests with fault plans: at a random call index (constructor, checked rows, mid-clock writes) the scripted driver fails with an error code, or deviates from its first layout by dropping, "
            "adding, duplicating, swapping or substituting an output; 40% of the callers keep iterating after the error item; corpus: the panic-38 witness; oracle: driver's own record (no misattribution, "
            "no row on a deviating answer), call/row protocol; non-trivial = an error item or a constructor error occurred",
    "proved": "fault transparency: on a test that reads no output (declared signals without random) the runs of a continuing caller against any two drivers agree on all rows, evaluation errors and the end, position by position, and stay in step after device failures; a driver error is passed through unchanged as the item of exactly the failing call (constructor included); items depend on the driver only through its answers to the calls made; "
              "a deviating answer (given a first answer of distinct expected signals) never yields a row but WrongNumberOfOutputs / WrongOutputOrder / an expression error; extraction never panics for any answers; no misattribution for every driver",
    "validated_only": "that the crate behaves as Iter.v under these fault plans (differential), including the fixed defect d850e2a",
    "assumptions": ["Iter.v models src/data_row_iterator.rs (checked by this run)"],
    "trusted_base": [],
}

PROPS["C14"] = {
    "cases": run_family("c14", 500, 20000, [
        {"declare": 1.0, "wrow": 0.3, "wlet": 0.25, "reads": 0.6, "shadow_out": 0.5, "pZX": 0.12, "pZXread": 0.05, "echo": 1.0, "maxdepth": 2, "pC": 0.1},
        {"declare": 0.8, "reads": 0.4, "shadow_out": 0.6, "pZX": 0.05, "maxdepth": 3, "pX": 0.1},
        {"declare": 1.0, "reads": 0.7, "shadow_out": 0.7, "pZX": 0.3, "pZXread": 0.0, "maxdepth": 2, "wlet": 0.35, "cont": 1.0, "echo": 1.0},
    ]),
    "tags": RUN_TAGS + ("VARS",),
    "nontrivial": lambda c, t: "declare" in c.get("src", "") and any(x == "ROW" for x, _ in t),
    "oracles": [no_panic_oracle],
    "rule": "seeded programs with 1-3 declare statements at random positions (top, inside loops, after rows), expressions over output-capable signals and over names that are also program variables (let Q = ...), "
            "with and without a column for the virtual signal; drivers whose answers vary per call and contain Z / X; non-trivial = has a declaration and yields a row",
    "proved": "run level through errors (VarsRunProof): every declared signal of every row of every run = its expression without variables over that row's answer; variables untouched in every outcome of next(); value of a virtual signal = its expression over THIS call's outputs with no program variables; blind to variables; variable maps restored after every evaluation; Z/X read -> error item; "
              "expected value by column name or X (C06), 64 bits (C07)",
    "validated_only": "that declarations anywhere among the statements are collected by the parser independently of position (the parser model is compared on every case); that the crate evaluates as the model",
    "assumptions": ["Iter.v / Eval.v / Parser.v model the crate (checked by this run)"],
    "trusted_base": [],
}

PROPS["C10"] = {
    "cases": add_faults(run_family("c10", 700, 30000, [
        {"div": True, "small": False, "reads": 0.5, "pZXread": 0.1, "random": 0.3, "declare": 0.3, "wide": True, "bigvals": True, "shift_small": False, "maxdepth": 3},
        {"div": True, "small": False, "reads": 0.3, "n_bidir": 2, "pC": 0.2, "pX": 0.2, "wide": True, "odd_names": True},
        {"div": True, "small": True, "reads": 0.6, "shadow_out": 0.4, "maxdepth": 4, "drop_read": 0.1},
        {"div": True, "n_bidir": 2, "pC": 0.15, "pC_out": 0.08, "reads": 0.3, "maxdepth": 2, "full_header": True, "kw_names": 0.3, "random": 0.3},
    ]), ["err", "drop", "add", "dup", "swap", "subst"], 0.3, cont=0.5),
    "extra_cases": "c08-table",
    "tags": RUN_TAGS,
    "nontrivial": nontrivial_rows(1),
    "oracles": [no_panic_oracle],
    "release": True,
    "rule": "seeded accepted tests with everything that can go wrong at run time: division and remainder by arbitrary (also zero) values, 64-bit boundary operands, shift counts of any size, random(n) with n <= 1, "
            "signExt, reads of Z/X outputs, variables first assigned inside loops/whiles that do not run, widths 1..64, bidirectional signals, odd signal names, drivers with faults and layout deviations, "
            "callers that keep going after IO errors; run under catch_unwind in the debug profile (overflow checks on) and, in the thorough tier, the release profile; non-trivial = at least one row or an error item",
    "proved": "END TO END: text that parses + signal list that binds => constructor and every next() never panic, for every driver, generator, write_input variant, number of calls and fuel (all 14 panic sites of the model unreachable); "
              "possible error items enumerated; expression failures (division by zero, unknown variable, empty random range, unimplemented function) are Err results; "
              "the same for a caller that keeps calling next() after error items of every kind, evaluation errors of the program included (the iterator's state after an error is modelled and the invariant proved for it)",
    "validated_only": "completeness of the panic-site inventory of the model w.r.t. the Rust source (tools/panic_audit.py lists the panic-capable constructs of src/ against the committed inventory); panics inside dependencies",
    "assumptions": ["the model marks every panic-capable construct of the crate (audited)", "Iter.v etc. model the crate (checked by this run)"],
    "trusted_base": [],
}


# ------------------------------------------------------------------ C09 / C12: texts

ALPHABET = ["loop", "while", "end", "repeat", "let", "declare", "bits", "resetRandom", "program", "init", "memory", "def", "call",
            "C", "X", "Z", "c", "a", "Q", "A", "ite", "random", "signExt", "foo", "n", "0", "1", "07", "09", "0x1F", "0x", "0b101", "0b2",
            "9223372036854775807", "9223372036854775808", "0x7FFFFFFFFFFFFFFF", "0x8000000000000000", "0xFFFFFFFFFFFFFFFF", "0x10000000000000000",
            "0b" + "1" * 64, "0b1" + "0" * 63, "0777777777777777777777", "01000000000000000000000", "01777777777777777777777", "65", "64", "(", ")", ",", ";", "=", "!=", "<", "<<", "<=", ">", ">>", ">=",
            "+", "-", "*", "/", "%", "&", "|", "^", "!", "~", "#", "$", "_", " ", "  ", "\t", "\r", "\n", "\n", "\r\n", "é", "汉", "\U0001F600", "٣", "a٣",
            # runs of characters no token starts with (one Error token per character, each on its own character boundary)
            "€€", "$é", "größe", "ждать", "汉字", "€$€", "\U0001F600\U0001F600", "é$", "@@", "1 ! 2", "A ~ 1", "4 ~", "! !", "~)"]


def mutate_text(rng, src):
    """one edit of a valid program text; returns (text, description)"""
    import re as _re
    toks = _re.findall(r"[A-Za-z_][A-Za-z_0-9]*|0[xX][0-9a-fA-F]+|0[bB][01]+|[0-9]+|<<|>>|!=|<=|>=|\r\n|\n|[ \t\r]+|#[^\n]*|.", src, _re.S)
    x = rng.random()
    if x < 0.2 and toks:
        i = rng.randrange(len(toks))
        return "".join(toks[:i] + toks[i + 1:]), "delete token %r" % toks[i]
    if x < 0.35:
        i = rng.randrange(len(src) + 1)
        return src[:i], "truncate at byte %d" % i
    if x < 0.5 and toks:
        i = rng.randrange(len(toks))
        return "".join(toks[:i] + [rng.choice(ALPHABET)] + toks[i + 1:]), "replace token %r" % toks[i]
    if x < 0.65 and toks:
        i = rng.randrange(len(toks) + 1)
        return "".join(toks[:i] + [rng.choice(ALPHABET)] + toks[i:]), "insert token"
    if x < 0.75 and toks:
        i = rng.randrange(len(toks))
        return "".join(toks[:i] + [toks[i]] + toks[i:]), "duplicate token %r" % toks[i]
    if x < 0.85 and len(toks) > 1:
        i = rng.randrange(len(toks) - 1)
        t2 = list(toks)
        t2[i], t2[i + 1] = t2[i + 1], t2[i]
        return "".join(t2), "swap tokens"
    return src.rstrip("\n"), "strip trailing newlines"


def text_cases(prefix, seed, n_valid, n_mut, n_soup, exhaustive=0):
    cases = []
    rng = random.Random(seed ^ 0x7E87)
    valid = []
    for i in range(n_valid):
        c = gen.gen_run_case("%s-v%d" % (prefix, i), (seed * 7919 + i) & 0x7FFFFFFF,
                             {"fancy": i % 2 == 0, "radix_mix": True, "declare": 0.2, "random": 0.2, "reads": 0.3, "crlf": True,
                              "lead_blank": i % 3 == 0, "trailing_nl": 0.7, "redundant": 0.2, "odd_names": i % 5 == 0})
        valid.append(c["src"])
        cases.append({"id": c["id"], "kind": "parse", "src": c["src"], "text_kind": "valid"})
    # truncated exactly at the end of a loop / while / repeat header (no line break), after `end`, after `let x =`, inside a call
    import re as _re
    k = 0
    for src in valid[:60]:
        for m in list(_re.finditer(r"(?m)^[ \t]*(loop|while)\([^\n]*\)|^[ \t]*end(?= )|^[ \t]*end (loop|while)|let \w+ ?=|ite\(|repeat\([^\n)]*\)|bits\(\d+,", src))[:6]:
            cases.append({"id": "%s-cut%d" % (prefix, k), "kind": "parse", "src": src[:m.end()], "text_kind": "cut-at-construct"})
            k += 1
    for i in range(n_mut):
        src, what = mutate_text(rng, rng.choice(valid))
        cases.append({"id": "%s-m%d" % (prefix, i), "kind": "parse", "src": src, "text_kind": "mutation", "what": what})
    for i in range(n_soup):
        k = rng.randrange(0, 14)
        head = rng.choice(["A Q\n", "A Q\n", "A\n", "", " A  Q \r\n", "\n\nA Q\n", "A A\n", "A Q"])
        body = "".join(rng.choice(ALPHABET) + rng.choice(["", " ", " "]) for _ in range(k))
        cases.append({"id": "%s-s%d" % (prefix, i), "kind": "parse", "src": head + body, "text_kind": "soup"})
    # characters that other notions of "white space" / "line break" know but the two lexers do not (the header lexer
    # splits at space, TAB, CR, FF and LF only; everything else is part of a name): before, inside and after the header
    # names, and in the body
    odd = ["\u00a0", "\u000b", "\u0085", "\u3000", "\u2028", "\u2029", "\ufeff", "\u0000", "\u001c", "\u001f", "\u1680", "\u200b", "\u2003", "\u00ad", "\u0661"]
    for i, ch in enumerate(odd):
        for j, text in enumerate(["A%sB\n0 0\n" % ch, "%sA B\n0 0\n" % ch, "A B%s\n0 0\n" % ch, "A %s B\n0 0 0\n" % ch, "%s\nA B\n0 0\n" % ch,
                                  "A B\n0%s0\n" % ch, "A B\n0 0%s\n" % ch, "A B\n%s\n0 0\n" % ch, "A B\n0 0 #%s\n1 1\n" % ch]):
            cases.append({"id": "%s-odd%d-%d" % (prefix, i, j), "kind": "parse", "src": text, "text_kind": "odd-blank"})
    if exhaustive:
        small = ["loop", "end", "(", ")", "1", "C", "a", ",", ";", "=", "let", "\n", " ", "<", "!", "while", "bits", "0x", "$", "é", "repeat", "declare", "program", "-"]
        import itertools
        n = 0
        for L in range(1, exhaustive + 1):
            for combo in itertools.product(small, repeat=L):
                cases.append({"id": "%s-x%d" % (prefix, n), "kind": "parse", "src": "A Q\n" + " ".join(combo), "text_kind": "exhaustive"})
                n += 1
    return cases


def span_oracle(case, trace):
    for t, r in trace:
        if t == "SPANS" and "INVALID" in r:
            yield "an error location is outside the text or not on a character boundary"
        if t == "RENDER" and "FAILED" in r:
            yield "the parse error cannot be rendered as a diagnostic"


def text_classify(case):
    return case.get("text_kind", "?")


PROPS["C09"] = {
    "cases": lambda seed, tier: text_cases("c09", seed, 150, 1200, 700, 0) if tier == "quick" else text_cases("c09", seed, 3000, 60000, 30000, 3),
    "tags": ("PARSE", "HEADER", "PLINES"),
    "nontrivial": lambda c, t: True,
    "oracles": [no_panic_oracle, span_oracle],
    "rule": "texts: (a) valid programs in fancy layouts (CRLF, comments, blank lines, mixed radix, non-ASCII names), (b) single edits of them (token deleted / replaced / inserted / duplicated / swapped, "
            "truncation at every kind of position, trailing newline stripped), (c) token soup over an alphabet of all keywords incl. program/init/memory/def/call, C X Z, literals incl. 0x, 09, 2^63, operators, "
            "$, blank characters, 2-, 3-, 4-byte characters and an Arabic-Indic digit, after various headers; thorough: exhaustive token strings up to length 3 over 24 symbols. The verdict, the error kind "
            "with its token kinds and every error SPAN are compared with the model; each error is also rendered with miette's graphical handler under catch_unwind; distinct = hash of the projection",
    "proved": "parse never panics and never runs out of fuel (terminates) for every string; every error span lies within the text with start <= end; token spans are offsets of character boundaries; binding never panics; every token's lexeme is matched by the rule of its kind in the table computed from the source's regexes, keywords and punctuation (LexSpec)",
    "validated_only": "that the logos-generated lexers equal the hand-written maximal-munch scanner (token streams compared through the verif-hooks lexer functions in C20's check and implicitly here through spans); "
                      "that miette renders every error (exercised, not modelled); native stack exhaustion on deeply nested input is out of scope",
    "assumptions": ["Lexer.v / Parser.v model src/lexer, src/parser (checked by this run: verdict, kind and spans of every case)"],
    "trusted_base": ["logos 0.14 automata, miette renderer (not modelled)"],
}


# ------------------------------------------------------------------ C12: grammar-breaking edits

def ncols_of(header_line):
    return len(header_line.split())


def breaking_edits(rng, src):
    """edits of a VALID program text that are grammar-breaking by construction -> list of (text, what)"""
    import re as _re
    out = []
    lines = src.split("\n")
    hdr_i = next((i for i, l in enumerate(lines) if l.strip()), 0)
    body = lines[hdr_i + 1:]
    def join(b):
        return "\n".join(lines[:hdr_i + 1] + b)
    # unterminated / wrongly terminated blocks, truncation inside a block
    opens = [i for i, l in enumerate(body) if _re.match(r"\s*(loop|while)\b", l)]
    ends = [i for i, l in enumerate(body) if _re.match(r"\s*end\s+(loop|while)\b", l)]
    if ends:
        i = rng.choice(ends)
        out.append((join(body[:i] + body[i + 1:]), "end line removed"))
        l = body[i]
        sw = l.replace("loop", "\0").replace("while", "loop").replace("\0", "while")
        out.append((join(body[:i] + [sw] + body[i + 1:]), "end loop <-> end while"))
        out.append((join(body[:i] + [_re.sub(r"end\s+(loop|while)", "end", l)] + body[i + 1:]), "end without keyword"))
    if opens and ends:
        o = rng.choice(opens)
        later = [e for e in ends if e > o]
        if later:
            cut = rng.randrange(o + 1, later[0] + 1)
            t = join(body[:cut])
            out.append((t.rstrip("\n") + "\n", "cut off inside a block (with newline)"))
            out.append((t.rstrip("\n").rstrip("\r"), "cut off inside a block (no newline)"))
            out.append((t.rstrip("\n") + rng.choice(["\n\n", "\n# c\n", "\n\n  ", "\n  \n\n", "\n#x"]), "cut off inside a block (then blank / comment lines)"))
    out.append((src.rstrip("\r\n") + "\nend loop\n", "end at top level"))
    # punctuation
    for ch, what in ((";", "missing ;"), (")", "missing )"), (",", "missing ,")):
        pos = [m.start() for m in _re.finditer(_re.escape(ch), "\n".join(body)) if "#" not in "\n".join(body)[:m.start()].split("\n")[-1]]
        if pos:
            k = rng.choice(pos)
            b = "\n".join(body)
            out.append((join((b[:k] + b[k + 1:]).split("\n")), what))
    b = "\n".join(body)
    m = list(_re.finditer(r"\bite\s*\(", b))
    if m and "#" not in b:
        k = rng.choice(m)
        out.append((join((b[:k.start()] + "nosuchfn(" + b[k.end():]).split("\n")), "unknown function"))
    rows = [i for i, l in enumerate(body) if l.strip() and not _re.match(r"\s*(loop|while|end|let|declare|resetRandom|repeat|#)", l)]
    if rows:
        i = rng.choice(rows)
        out.append((join(body[:i] + [body[i].split("#")[0] + " 1"] + body[i + 1:]), "row with one entry too many"))
        first = body[i].split("#")[0].split()
        if len(first) > 1 and not any(c in body[i] for c in "(),"):
            out.append((join(body[:i] + [" ".join(first[:-1])] + body[i + 1:]), "row with one entry too few"))
        out.append((join(body[:i] + [body[i].split("#")[0] + " 9223372036854775808"[0:0]] + ["let big = 9223372036854775808;"] + body[i + 1:]), "literal that does not fit in 64 bits"))
        # literals that do not fit, in every radix and every position a number can appear in
        big_lits = ["9223372036854775808", "9223372036854775809", "9223372036854775810", "0b1" + "0" * rng.choice([63, 64, 65, 70, 127, 128]), "0b" + "1" * rng.choice([64, 65, 66, 100]),
                    "0x8" + "0" * 15, "0x1" + "0" * rng.choice([16, 17, 31, 32]), "0xFFFFFFFFFFFFFFFF", "0" + "1" + "0" * 21, "01777777777777777777777",
                    "9223372036854775808", "18446744073709551616", "1" + "0" * 40]
        lit = rng.choice(big_lits)
        place = rng.choice(["let big2 = %s;", "let big2 = 1 + %s;", "loop(zz,%s)\nend loop", "let big2 = ite(1,2,%s);", "bits(2,%s)" if ncols_of(lines[hdr_i]) == 2 else "let big2 = (%s);",
                            "let big2 = -%s;", "while(%s)\nend while"])
        out.append((join(body[:i] + (place % lit).split("\n") + body[i + 1:]), "literal %s that does not fit in 63 bits" % lit[:12]))
        # function names are case sensitive: only random, ite, signExt exist
        fn = rng.choice(["Random(4)", "RANDOM(4)", "ITE(1,2,3)", "Ite(1,2,3)", "signext(4,9)", "SignExt(4,9)", "iTe(1,2,3)", "randoM(2)", "SIGNEXT(1,1)"])
        out.append((join(body[:i] + ["let cs = %s;" % fn] + body[i + 1:]), "unknown function (wrong letter case) " + fn.split("(")[0]))
        out.append((join(body[:i] + ["let w = 1; bits(65,1)"] + body[i + 1:]), "statement not followed by a line break / bits width 65"))
        ncols = len(lines[hdr_i].split())
        big = rng.choice([65, 66, 100, 255, 256, 257, 259, 320, 512, 513, 65536, 65537, 4294967297])
        out.append((join(body[:i] + ["bits(%d,1)" % big] + body[i + 1:]), "bits width above 64"))
        if ncols >= 1:
            k = rng.randrange(2, 6)
            row = " ".join(["1"] * (ncols - 1) + ["bits(%d,5)" % k])
            out.append((join(body[:i] + [row] + body[i + 1:]), "row whose last bits() group overflows the header"))
            row2 = " ".join(["bits(%d,5)" % (ncols + rng.randrange(1, 4))])
            out.append((join(body[:i] + [row2] + body[i + 1:]), "row of one bits() group wider than the header"))
    hdr = lines[hdr_i].split()
    if hdr:
        nh = len(hdr)
        for short in (nh - 1, nh + 1, 0):
            if short >= 0:
                out.append((src.rstrip("\r\n") + "\nrepeat(2) " + " ".join(["1"] * short) + rng.choice(["\n", "", "\n\n"]), "repeat row with %d entries under %d columns" % (short, nh)))
        out.append((src.rstrip("\r\n") + "\n" + " ".join([rng.choice(["0x10000000000000000", "0b1" + "0" * 64, "0x" + "F" * 17, "18446744073709551616"])] + ["1"] * (nh - 1)) + "\n", "over-long literal as a bare row entry"))
        out.append((src.rstrip("\r\n") + "\n" + " ".join([rng.choice(["0x10000000000000000", "0b1" + "0" * 64])] + ["1"] * max(nh - 2, 0)) + "\n", "over-long literal as a bare row entry in a row that is one entry short"))
        out.append(("\n".join(lines[:hdr_i] + [lines[hdr_i].rstrip("\r") + " " + hdr[0]] + lines[hdr_i + 1:]), "duplicated header name"))
        out.append(("\n".join(lines[:hdr_i] + [lines[hdr_i].rstrip("\r\n")]), "header not followed by a line break"))
    # every edit so far also without the final line break (the two ways a block can end)
    out += [(t.rstrip("\r\n"), what + " (no final newline)") for t, what in out if t.endswith("\n") and "cut off" not in what and rng.random() < 0.35]
    out.append((src.rstrip("\r\n") + "\ndeclare VV = 1;\ndeclare VV = 2;\n", "duplicated declare name"))
    # the same name declared inside a loop body and again outside it / in a sibling loop (declarations are global)
    out.append((src.rstrip("\r\n") + "\nloop(dd,1)\ndeclare WW = 1;\nend loop\ndeclare WW = 2;\n", "duplicated declare name (first one inside a loop)"))
    out.append((src.rstrip("\r\n") + "\nloop(dd,1)\ndeclare WW = 1;\nend loop\nloop(ee,1)\ndeclare WW = 2;\nend loop\n", "duplicated declare name (sibling loops)"))
    out.append((src.rstrip("\r\n") + "\nloop(dd,1)\nloop(ee,1)\ndeclare WW = 1;\nend loop\ndeclare WW = 2;\nend loop\n", "duplicated declare name (inner loop, then enclosing loop)"))
    out.append((src.rstrip("\r\n") + "\nlet ar = %s;\n" % rng.choice(["ite(1,2)", "ite(1,2,3,4)", "ite()", "random()", "random(1,2)", "signExt(1)", "signExt(1,2,3)", "ite(1,2,)"]), "wrong number of arguments"))
    out.append((src.rstrip("\r\n") + "\ndeclare UU = 1;\nlet UU = 2;\ndeclare UU = 3;\n", "duplicated declare name (a let of the same name in between)"))
    hdr_n = ncols_of(lines[hdr_i])
    bad_body = rng.choice([" ".join(["1"] * (hdr_n + 1)), "let q = (1;", "let q = nosuch(1);", "let q = 18446744073709551616;", "bits(65,1)", "let q = 1", "declare DD = 1;\ndeclare DD = 2;"])
    out.append((src.rstrip("\r\n") + "\nloop(zz,%s)\n%s\nend loop\n" % (rng.choice(["0", "0x0", "00", "0b0"]), bad_body), "malformed statement inside the body of a loop with bound 0"))
    out.append((src.rstrip("\r\n") + "\n" + " ".join(["1"] * hdr_n) + "\r" + " ".join(["1"] * hdr_n) + "\n", "two rows separated by a lone CR (a CR is a blank, not a line break)"))
    out.append((src.rstrip("\r\n") + "\nloop(zz,1)\r" + " ".join(["1"] * hdr_n) + "\nend loop\n", "loop header followed by a lone CR instead of a line break"))
    out.append((src.rstrip("\r\n") + "\nlet fx = %s;\n" % rng.choice(["randomize(4)", "iteX(1,2,3)", "signExtend(4,3)", "ran(4)", "it(1,2,3)", "random2(4)", "Random(4)", "ite_(1,2,3)", "signExt2(1,2)"]),
                "a function name that extends / shortens / re-cases a built-in"))
    out.append((src.rstrip("\r\n") + "\nlet oo = %s;\n" % rng.choice(["07777777777777777777777", "02000000000000000000000", "01000000000000000000000", "0o17", "0777777777777777777777777777"]), "an octal literal that does not fit in 64 bits (or is no literal at all)"))
    out.append((src.rstrip("\r\n") + "\n" + " ".join(["bits(1,1,1)"] + ["0"] * max(ncols_of(lines[hdr_i]) - 1, 0)) + "\n", "bits with a surplus argument"))
    out.append((src.rstrip("\r\n") + "\nlet sx = %s;\n" % rng.choice(["random(4,)", "ite(1,2,3,)", "random(,4)", "ite(1,,3)", "random()"]), "an empty argument in a call"))
    # a bare `end` as the very last token, with and without the final line break
    out.append((src.rstrip("\r\n") + "\nend", "end at top level as the last token (no final newline)"))
    out.append((src.rstrip("\r\n") + "\nend\n", "end at top level as the last token"))
    out.append((src.rstrip("\r\n") + "\nloop(ee,2)\n" + " ".join(["1"] * ncols_of(lines[hdr_i])) + "\nend", "block closed by a bare end as the last token (no final newline)"))
    # the same name declared twice with another declaration (or other statements) in between
    out.append((src.rstrip("\r\n") + "\ndeclare TA = 1;\ndeclare TB = 2;\ndeclare TA = 3;\n", "duplicated declare name (another declare in between)"))
    out.append((src.rstrip("\r\n") + "\ndeclare TA = 1;\ndeclare TB = 2;\ndeclare TC = 2;\nlet q9 = 1;\ndeclare TB = 3;\n", "duplicated declare name (two declares and a let in between)"))
    # a second statement on the line of a declare (a declaration ends its line like every other statement)
    out.append((src.rstrip("\r\n") + "\ndeclare SL = 1; " + rng.choice([" ".join(["0"] * hdr_n), "let sl2 = 2;", "resetRandom;", "declare SL2 = 2;"]) + "\n", "two statements on a line (after a declare)"))
    # a stray operator between two row entries: the entries are NOT glued into one expression
    if hdr_n >= 1:
        glue = rng.choice(["(1) + (2)", "(1) -1", "(1) & 1", "(3) * (2)", "(1) - (1)", "(1) | 0"])
        out.append((src.rstrip("\r\n") + "\n" + " ".join([glue] + ["0"] * (hdr_n - 1)) + "\n", "an operator between two row entries (would fit the header if they were glued together)"))
        out.append((src.rstrip("\r\n") + "\nrepeat(2) " + " ".join([glue] + ["0"] * (hdr_n - 1)) + "\n", "an operator between two entries of a repeat row"))
    # a header of 65-80 columns does not make bits(65..) legal: a value has 64 bits
    ncw = rng.choice([65, 66, 70, 80])
    kw = rng.randrange(65, ncw + 1)
    out.append((" ".join("W%d" % k_ for k_ in range(ncw)) + "\n" + " ".join(["bits(%d,1)" % kw] + ["0"] * (ncw - kw)) + "\n", "bits width above 64 under a header of %d columns" % ncw))
    return out


def c12_cases(seed, tier):
    rng = random.Random(seed ^ 0xC12)
    n = 120 if tier == "quick" else 6000
    cases = []
    for i in range(n):
        c = gen.gen_run_case("c12-%d" % i, (seed * 104729 + i) & 0x7FFFFFFF,
                             {"fancy": False, "crlf": False, "declare": 0.2, "maxdepth": 3, "budget": 14, "wrow": 0.35, "trailing_nl": 0.8, "radix_mix": i % 2 == 0, "pbits": 0.1})
        cases.append({"id": c["id"] + "-valid", "kind": "parse", "src": c["src"], "c12": "valid"})
        for j, (t, what) in enumerate(breaking_edits(rng, c["src"])):
            cases.append({"id": "%s-e%d" % (c["id"], j), "kind": "parse", "src": t, "c12": what})
    return cases


def c12_oracle(case, trace):
    what = case.get("c12")
    verdict = [r for t, r in trace if t == "PARSE"]
    if not verdict:
        return
    if what == "valid":
        if not verdict[0].startswith("ok"):
            yield "generator error: a valid program was rejected: %s" % verdict[0]
    elif what is not None and verdict[0].startswith("ok"):
        yield "a malformed program (%s) was ACCEPTED" % what


def c12_classify(case):
    return case.get("c12", "?")


PROPS["C12"] = {
    "cases": c12_cases,
    "tags": ("PARSE",),
    "nontrivial": lambda c, t: c.get("c12") != "valid",
    "oracles": [c12_oracle, no_panic_oracle],
    "rule": "from each seeded valid program, every kind of single grammar-breaking edit the property lists: an end line removed, end loop <-> end while, end without keyword, the text cut off at a random line inside a block "
            "(with and without a trailing newline), end at top level, a ';' ')' or ',' removed, an unknown function, a row with one entry too many / too few, a literal of 2^63, bits(65,..), two statements on a line, "
            "a duplicated header name, a header without line break, a duplicated declare name; the edit is invalid BY CONSTRUCTION, so the oracle is the generator's own verdict (a third opinion next to model and implementation); "
            "non-trivial = an edited text; distinct = hash of the text's verdict and error kind",
    "proved": "see props/C12.v: the parser accepts EXACTLY the grammar (accepted <-> G_program and distinct declared names, for every string; GrammarComplete.v); every accepted text is derivable in the grammar Grammar.v; being in the grammar excludes each malformation (blocks matched, no end at top level, row width exact, calls well-formed, "
              "literals fit, bits <= 64); header / declare names distinct (wf_parsed); header followed by a line break",
    "validated_only": "that the crate's parser accepts exactly what the model parser accepts (verdict and error kind compared on every case)",
    "assumptions": ["Lexer.v / Parser.v model the crate's lexer and parser (checked by this run)"],
    "trusted_base": [],
}


# ------------------------------------------------------------------ C19 / C20: layout

def layout_pair_cases(prefix, seed, n):
    """pairs (plain layout, fancy layout) of the same program, same signals, same driver script"""
    cases = []
    for i in range(n):
        s = (seed * 15485863 + i * 31) & 0x7FFFFFFF
        base_profile = {"declare": 0.2, "random": 0.0, "reads": 0.3, "maxdepth": 3, "pbits": 0.1, "pC": 0.1, "pX": 0.1, "odd_names": i % 3 == 0}
        a = gen.gen_run_case("%s-%d-a" % (prefix, i), s, dict(base_profile, fancy=False, trailing_nl=1.0))
        rng = random.Random(s ^ 0x1A70)
        body, cols = a["gen"]["body"], a["gen"]["cols"]
        lay = gen.Layout(rng, fancy=True, crlf=rng.random() < 0.4, radix_mix=True, redundant=0.0,
                         trailing_nl=rng.random() < 0.7, lead_blank=rng.randrange(0, 3))
        text = lay.render(cols, body)
        b = dict(a)
        b["id"] = "%s-%d-b" % (prefix, i)
        b["src"] = text
        b["gen"] = {"row_lines": lay.row_lines, "body": body, "cols": cols}
        a["pair"] = b["id"]
        b["pair"] = a["id"]
        cases += [a, b]
    return cases


def strip_line(row):
    return row.split(" | ", 1)[1] if " | " in row else row


def layout_pair_oracle(cases, impl):
    """C20 on implementation traces alone: the two layouts of one program give the same verdict and the same
    rows except `line`; the lines shift as the printer's records of physical lines say (C19)"""
    byid = {c["id"]: c for c in cases}
    for c in cases:
        if not c["id"].endswith("-a") or c.get("pair") not in byid:
            continue
        d = byid[c["pair"]]
        ta, tb = impl.get(c["id"]) or [], impl.get(d["id"]) or []
        pa = [r for t, r in ta if t in ("PARSE", "BIND")]
        pb = [r for t, r in tb if t in ("PARSE", "BIND")]
        if [x.split()[0] for x in pa] != [x.split()[0] for x in pb]:
            yield d, "the re-laid-out program has a different verdict: %s vs %s" % (pa, pb)
            continue
        ra = [strip_line(r) for t, r in ta if t == "ROW"]
        rb = [strip_line(r) for t, r in tb if t == "ROW"]
        if ra != rb:
            k = next((i for i, (x, y) in enumerate(zip(ra, rb)) if x != y), min(len(ra), len(rb)))
            yield d, "the re-laid-out program yields different rows (first difference at row %d)" % k
            continue
        ia = [r for t, r in ta if t == "ITEM"]
        ib = [r for t, r in tb if t == "ITEM"]
        if ia != ib:
            yield d, "the re-laid-out program yields different items"


def line_oracle(case, trace):
    """C19: the line of every row statement is the physical line the printer put it on"""
    g = case.get("gen")
    if not g:
        return
    pl = [r for t, r in trace if t == "PLINES"]
    if not pl:
        return
    got = pl[0].split()
    want = [str(x) for x in g["row_lines"]]
    if got != want:
        yield "row statements are on physical lines %s but the parser recorded %s" % (want, got)
        return
    allowed = set(want)
    for line, _, _, _ in rows_of(trace):
        if line not in allowed:
            yield "a yielded row reports line %s, which is not the line of any data row" % line
            return


def long_text_cases(prefix, seed, tier):
    """rows on lines beyond 255 and 65535 (a line counter narrower than usize would wrap or saturate there)"""
    rng = random.Random(seed ^ 0x10C6)
    sigs = [{"name": "A", "typ": "I", "bits": 4, "default": "0"}, {"name": "Q", "typ": "O", "bits": 4, "default": "-"}]
    cases = []
    for i, n in enumerate([900, 2500] + ([20000] if tier != "quick" else [])):
        lines = ([""] * n) + ["A Q", "1 X", "", "2 X"]
        cases.append({"id": "%s-lead-%d" % (prefix, i), "kind": "run", "src": "\n".join(lines) + "\n", "sigs": sigs, "layout": [1], "table": [["1"]],
                      "echo": 0, "wdefault": 0, "faults": [], "max": 50, "seed": 1, "gen": {"row_lines": [n + 2, n + 4]}})
    for i, n in enumerate([250, 253, 254, 65530, 65533, 65534, 65600 + rng.randrange(0, 5000)] + ([131070, 200000] if tier != "quick" else [])):
        filler = []
        for k in range(n):
            filler.append("" if k % 97 else "# c")
        lines = ["A Q"] + filler + ["1 X", "loop(i,2)", "(i) X", "end loop", "", "repeat(2) 3 X", "2 X"]
        first = n + 2
        cases.append({"id": "%s-long-%d" % (prefix, i), "kind": "run", "src": "\n".join(lines) + "\n", "sigs": sigs, "layout": [1], "table": [["1"]],
                      "echo": 0, "wdefault": 0, "faults": [], "max": 50, "seed": 1,
                      "gen": {"row_lines": [first, first + 2, first + 5, first + 6]}})
    return cases


PROPS["C19"] = {
    "cases": lambda seed, tier: layout_pair_cases("c19", seed, 250 if tier == "quick" else 10000) + long_text_cases("c19", seed, tier),
    "tags": ("PARSE", "PLINES", "ROW", "ITEM", "END"),
    "nontrivial": nontrivial_rows(1),
    "oracles": [line_oracle, no_panic_oracle],
    "rule": "seeded programs printed twice: plainly, and with blank and comment-only lines after (and before) the header, comments at line ends, CRLF line ends, tabs and carriage returns as blank space, "
            "rows as the last line with or without newline, rows at loop depth 0-3 and as repeat rows; the printer records the physical 1-based line of every row statement and the oracle compares it with "
            "the parser's line fields and with the line of every yielded row (all X/C expansions and loop iterations); non-trivial = at least one row",
    "proved": "run level through errors (LinesRunProof): every row of every dynamic or static run reports 1 + the newlines before its data row in the source (its own source for a loaded test); expansions share the line; the Eol tokens are exactly the newline characters, in order, and nothing else contains one; the header's line counter is 1 + newlines consumed; every expansion of a row keeps its line; "
              "(with proofs/ParserLinesProof.v when present in props/C19.v) the line recorded for a row = 1 + newlines before its first token",
    "validated_only": "the parser half where not yet in props/C19.v; .dig sources: the count is relative to the test's own source text because load_test parses that text alone (C16_load_test)",
    "assumptions": ["Lexer.v / Parser.v model the crate (checked by this run)"],
    "trusted_base": [],
}

def radix_cases(seed, tier):
    """the same value spelled in every radix and letter case: one verdict, one row"""
    rng = random.Random(seed ^ 0x8AD1)
    vals = [0, 1, 7, 8, 255, 2 ** 31, 2 ** 62, 2 ** 63 - 1, 2 ** 63, 2 ** 63 + 1, 2 ** 64 - 1, 2 ** 64, 2 ** 64 + 5] + \
           [rng.randrange(0, 2 ** 64) for _ in range(6 if tier == "quick" else 200)]
    sigs = [{"name": "A", "typ": "I", "bits": 64, "default": "0"}, {"name": "Q", "typ": "O", "bits": 64, "default": "-"}]
    cases = []
    for i, v in enumerate(vals):
        spell = [str(v), "0x%x" % v, "0X%X" % v, "0x%X" % v, "0b" + bin(v)[2:], "0B" + bin(v)[2:], "0" + oct(v)[2:]]
        if v == 0:
            spell = ["0", "0x0", "0X0", "0b0", "0B0", "00"]
        for j, sp in enumerate(spell):
            cases.append({"id": "radix-%d-%d" % (i, j), "kind": "run", "src": "A Q\n%s (%s)\n" % (sp, sp), "sigs": sigs, "layout": [1], "table": [["0"]],
                          "echo": 0, "wdefault": 0, "faults": [], "max": 10, "seed": 1, "radix_group": i, "radix_value": v})
    for i, sp in enumerate(["(-9223372036854775808)", "(- 9223372036854775808)", "(-0x8000000000000000)", "(- 0x8000000000000000)", "(-\t9223372036854775808)",
                            "(-9223372036854775807)", "(- 9223372036854775807)", "(0-9223372036854775807-1)"]):
        cases.append({"id": "radix-min-%d" % i, "kind": "run", "src": "A Q\n%s (%s)\n" % (sp, sp), "sigs": sigs, "layout": [1], "table": [["0"]],
                      "echo": 0, "wdefault": 0, "faults": [], "max": 10, "seed": 1})
    # the same digit string in several radixes within ONE program (each literal keeps the value of its own radix), with
    # leading zeros, compared with the model
    for i, digits in enumerate(["10", "11", "100", "101", "7", "17", "0", "1", "0010", "777"]):
        forms = [digits.lstrip("0") or "0", "0x" + digits, "0X00" + digits, "0" + digits if all(ch in "01234567" for ch in digits) else "0x" + digits,
                 "0b" + digits if all(ch in "01" for ch in digits) else "0x" + digits, "00" + digits if all(ch in "01234567" for ch in digits) else digits.lstrip("0") or "0"]
        rows = ["%s (%s)" % (f, g) for f in forms for g in forms[:3]]
        rng.shuffle(rows)
        cases.append({"id": "radix-mix-%d" % i, "kind": "run", "src": "A Q\n" + "\n".join(rows) + "\nlet a = %s + %s;\nlet b = %s - %s;\n(a) (b)\n" % (forms[0], forms[1], forms[1], forms[0]),
                      "sigs": sigs, "layout": [1], "table": [["0"]], "echo": 0, "wdefault": 0, "faults": [], "max": 100, "seed": 1})
    return cases


def radix_oracle(cases, impl):
    groups = {}
    for c in cases:
        if "radix_group" in c:
            groups.setdefault(c["radix_group"], []).append(c)
    for g, cs in groups.items():
        seen = None
        for c in cs:
            t = impl.get(c["id"]) or []
            verdict = [r.split()[0] for tag, r in t if tag == "PARSE"]
            rows = [strip_line(r) for tag, r in t if tag == "ROW"]
            want_ok = c["radix_value"] < 2 ** 63
            if verdict and (verdict[0] == "ok") != want_ok:
                yield c, "literal %s (value %d) is %s; a literal is accepted iff its value fits in 63 bits, whatever its radix" % (c["src"].split()[2], c["radix_value"], verdict[0])
                break
            key = (verdict, rows)
            if seen is None:
                seen = key
            elif key != seen:
                yield c, "the value %d spelled as %s behaves differently from its other spellings" % (c["radix_value"], c["src"].split()[2])
                break


PROPS["C20"] = {
    "cases": lambda seed, tier: layout_pair_cases("c20", seed, 300 if tier == "quick" else 12000) + lex_cases(seed, 300 if tier == "quick" else 20000) + radix_cases(seed, tier),
    "tags": ("PARSE", "BIND", "ROW", "ITEM", "END", "TOK"),
    "nontrivial": lambda c, t: True,
    "oracles": [no_panic_oracle],
    "pair_oracles": [layout_pair_oracle, radix_oracle],
    "rule": "(0) every one of a set of boundary and random values up to 2^64+5 spelled in decimal, 0x/0X hex in both letter cases, 0b/0B binary and leading-zero octal: same verdict (accepted iff < 2^63) and same row; (1) pairs (program, re-laid-out variant: other amounts of blank space incl. tabs and CR, comments appended to lines, blank and comment-only lines inserted, every literal re-spelled in a random radix "
            "with random letter case): both go through the implementation and are compared pairwise (same verdict, same rows except line) and each against the model; (2) token-boundary stress texts "
            "(0x1F next to identifiers, << vs < <, != vs ! =, keywords as prefixes of identifiers, CR before LF, non-ASCII digits in identifiers) lexed by the crate's REAL logos lexers through the verif-hooks "
            "functions and by the model scanner, token by token with spans",
    "proved": "canonical layout: Show.v models the crate's Display (compared: PROG lines) and every accepted text's header + Display of its statements parses back to the same statements (ShowRoundTrip.projection); token sequence (kinds and texts) invariant under: any change of a non-empty blank run, insertion of blank space at a separator / before a comment / at text end, appending a comment to a line; "
              "the value of a literal depends only on its digits (radix spelling theorems); (with proofs/ParserLayoutProof.v when present in props/C20.v) the parser's result depends on kinds and texts only; "
              "the scanner is the longest-match lexer of the rule table COMPUTED from the source's regexes (LexSpec.parse_re), keywords and punctuation: every lexeme is matched by its kind's rule, no rule matches a longer prefix, "
              "Error only where nothing matches, keyword over Ident except for the one documented quirk; header scanner likewise (rules disjoint, total)",
    "validated_only": "that logos' generated automata compute the same tokens as the hand-written scanner (compared token by token on the stress texts and on every program of the run); "
                      "the effect of inserted blank lines on the parser (only `line` shifts) where not yet proved",
    "assumptions": ["Lexer.v models the logos lexers (checked token by token by this run)"],
    "trusted_base": ["logos 0.14 (the generated DFA is not modelled)"],
}


def lex_cases(seed, n):
    rng = random.Random(seed ^ 0x1E8)
    frag = ["0x1F", "0X1f", "0b101", "0b2", "017", "09", "0", "00", "0x", "0xg", "1a", "a1", "_", "_1", "loop", "looper", "end1", "endloop", "let", "lets",
            "<<", "< <", "<<<", "<=", "< =", "!=", "! =", "!", "=", "==", ">>", ">=", ">", "&", "|", "^", "~", "+", "-", "*", "/", "%", "(", ")", ",", ";",
            " ", "\t", "\r", "\r\n", "\n", "\f", "#", "# c\n", "#\r\n", "$", "@", "é", "a٣", "٣", "x०y", "bits", "Bits", "resetRandom", "resetrandom",
            "C", "c", "X", "Z", "9223372036854775808", "\U0001F600", "汉", "a_b", "A_out"]
    cases = []
    for i in range(n):
        k = rng.randrange(1, 12)
        text = "".join(rng.choice(frag) for _ in range(k))
        cases.append({"id": "lex-%d" % i, "kind": "lex" if i % 4 else "hlex", "src": text})
    return cases


for _p in ("C09", "C10", "C11"):
    PROPS[_p]["audits"] = ["panic"]


# ------------------------------------------------------------------ C16: .dig loading (tools/families_c16.py, tools/gen_dig.py)

from families_c16 import PROP_C16  # noqa: E402
PROPS["C16"] = PROP_C16
PROPS["C16"]["audits"] = ["panic"]


# C10 also runs the operator boundary table of C08 (every operator on every pair of 64-bit boundary values)
_c10_base = PROPS["C10"]["cases"]
PROPS["C10"]["cases"] = lambda seed, tier: _c10_base(seed, tier) + [dict(c, id="c10-" + c["id"]) for c in c08_cases(seed, tier) if "tab" in c["id"] or "zero" in c["id"]]


# ------------------------------------------------------------------ C15: determinism

def c15_cases(seed, tier):
    n = 200 if tier == "quick" else 6000
    cases = []
    for i in range(n):
        s = (seed * 2654435761 + i * 97) & 0x7FFFFFFF
        prof = [{"declare": 0.6, "reads": 0.0, "random": 0.0, "maxdepth": 3, "pC": 0.15, "pX": 0.1, "wlet": 0.25},
                ({"declare": 0.5, "reads": 0.5, "random": 0.0, "maxdepth": 2, "pC": 0.1, "echo": 1.0} if i % 10 != 1 else
                 # reads of bidirectional pins that the device leaves floating (Z) or undefined (X): an error item, the same in every run
                 {"declare": 0.3, "reads": 0.8, "random": 0.0, "maxdepth": 2, "n_bidir": 2, "pZX": 0.5, "pZXread": 0.6, "full_layout": True}),
                {"declare": 0.0, "reads": 0.0, "random": 0.0, "maxdepth": 4, "pC": 0.1, "pX": 0.15, "wlet": 0.3, "pbits": 0.1},
                # variables and loop counters named like outputs the driver supplies, no reads at all: static must not care
                {"declare": 0.0, "reads": 0.0, "shadow_out": 0.8, "scope_names": 0.9, "maxdepth": 3, "wlet": 0.4, "full_layout": True, "echo": 1.0},
                # names that are out of scope where they are used (ended loops, repeat's n): reads of outputs of that name
                {"declare": 0.2, "reads": 0.3, "scope_names": 0.9, "dead_names": 0.6, "shadow_out": 0.4, "maxdepth": 3, "wlet": 0.3, "full_layout": True}][i % 5]
        base = gen.gen_run_case("c15-%d" % i, s, prof)
        base["wdefault"] = 0
        base["faults"] = []
        run = dict(base, id="c15-%d-run" % i, kind="run")
        cases.append(run)
        cases.append(dict(base, id="c15-%d-reparse" % i, kind="reparse", niter=16, group=run["id"], no_model=True))
        # the same test with a different driver (other values, other layout order): static iteration must not care
        rng = random.Random(s ^ 0x5747)
        other = dict(base, id="c15-%d-run2" % i, kind="run", group=run["id"])
        other["table"] = [[str(rng.randrange(0, 250)) if v not in ("Z", "X") else v for v in row] for row in base["table"]] + [[str(rng.randrange(0, 9)) for _ in base["layout"]]]
        other["echo"] = 1 - base["echo"]
        if i % 4 == 0 and base["layout"]:
            # a driver whose own description of a pin differs from the test's (one more bit) - from its first answer on, or once
            other["faults"] = [(rng.choice([0, 0, 1, 2]), "widen %d" % rng.randrange(0, len(base["layout"])))]
        cases.append(other)
        cases.append(dict(base, id="c15-%d-static" % i, kind="static", group=run["id"]))
        k = rng.randrange(2, 5)
        cases.append(dict(base, id="c15-%d-multi" % i, kind="multi", niter=k, sched=[rng.randrange(0, k) for _ in range(rng.randrange(3, 40))], group=run["id"], no_model=True))
    return cases


def static_view(row):
    """(line, inputs, [(signal, expected)]) of a ROW or SROW line"""
    parts = row.split(" | ")
    outs = []
    for w in parts[2].split():
        f = w.split(":")
        if len(f) >= 5:
            outs.append((":".join(f[:-4]), f[-3]))
        elif len(f) >= 2:
            outs.append((":".join(f[:-1]), f[-1]))
    return (parts[0].strip(), parts[1].strip(), tuple(outs))


def c15_pair_oracle(cases, impl):
    byid = {c["id"]: c for c in cases}
    for c in cases:
        g = c.get("group")
        t = impl.get(c["id"]) or []
        if c["kind"] == "reparse":
            for tag, r in t:
                if tag in ("REPARSE", "REBIND") and not r.startswith("same"):
                    yield c, "parsing the same text %d times gives different results (%s %s)" % (c.get("niter", 0), tag, r)
        if not g or g not in byid:
            continue
        solo = impl.get(g) or []
        solo_rows = [r for tag, r in solo if tag == "ROW"]
        if c["kind"] == "multi":
            # each interleaved iterator (own driver, same script) yields what the solo run yields
            cur = None
            per = {}
            for tag, r in t:
                if tag == "ITER":
                    cur = r.strip()
                    per[cur] = []
                elif tag == "ROW" and cur is not None:
                    per[cur].append(r)
            solo_limited = any(tag == "END" and r.startswith("limit") for tag, r in solo)
            for k, rows in per.items():
                common = min(len(rows), len(solo_rows))
                # both runs are capped (a program that never ends): compare what both produced
                if rows[:common] != solo_rows[:common] or (not solo_limited and len(rows) != len(solo_rows) and len(rows) < c.get("max", 200)):
                    yield c, "iterator %s of %d interleaved iterators yields different rows than the same iterator run alone" % (k, c.get("niter", 0))
                    break
        if c["kind"] == "static":
            st = [r for tag, r in t if tag == "STATIC"]
            reads = [r for tag, r in solo if tag == "READS"]
            if st and reads:
                if st[0].startswith("ok") != (reads[0].strip() == ""):
                    yield c, "try_iter_static is %s but the program reads outputs [%s]" % (st[0], reads[0].strip())
                    continue
            if st and st[0].startswith("ok"):
                srows = [static_view(r) for tag, r in t if tag == "SROW"]
                for other_id in (g, g[:-3] + "run2"):
                    drows = [static_view(r) for tag, r in (impl.get(other_id) or []) if tag == "ROW"]
                    if drows != srows[:len(drows)]:
                        yield c, "static iteration differs from the dynamic run %s (inputs / expected values / lines)" % other_id
                        break


def c15_dig_cases(seed, tier):
    """.dig documents with two or more bidirectional pins (signal order must not depend on a HashSet's iteration order):
    loaded by the implementation, compared with the model's list (inputs in document order, retyped in place)"""
    import gen_dig
    want = 25 if tier == "quick" else 400
    out = []
    for c in gen_dig.cases((seed ^ 0xC15) & 0xFFFFFF, 8 * want, 0, 0):
        if "tree" not in c or c.get("no_model"):
            continue
        desc = c.get("c16", {}).get("desc")
        if not desc:
            continue
        ins = set(it["label"] for it in desc["items"] if it["k"] == "pin" and it["elem"] in ("In", "Clock") and it["label"])
        hdr = set()
        for it in desc["items"]:
            if it["k"] == "test":
                for l in (it["source"] or "").split("\n"):
                    if l.split():
                        hdr |= set(l.split())
                        break
        if len([n for n in hdr if n.endswith("_out") and n[:-4] in ins]) >= 2:
            c = dict(c, id="c15-" + c["id"])
            out.append(c)
            if len(out) >= want:
                break
    # and a plain share of documents: the same source text must give the same test whether it is parsed directly or loaded
    # from the document (load_test(i) == from_str(source i) bound to the file's signals, families_c16.c16_load_oracle)
    k = 0
    for c in gen_dig.cases((seed ^ 0x15C) & 0xFFFFFF, 40 if tier == "quick" else 300, 0, 0):
        if "tree" in c and not c.get("no_model") and c.get("c16", {}).get("desc"):
            out.append(dict(c, id="c15l-" + c["id"]))
    return out


PROPS["C15"] = {
    "cases": lambda seed, tier: c15_cases(seed, tier) + c15_dig_cases(seed, tier),
    "tags": ("PARSE", "BIND", "STATIC", "NEW", "ROW", "SROW", "ITEM", "END", "DIG", "SIGNALS", "TEST", "MISSING"),
    "nontrivial": lambda c, t: any(x in ("ROW", "SROW", "REPARSE", "ITER") for x, _ in t),
    "oracles": [no_panic_oracle, lambda case, trace: __import__("families_c16").c16_load_oracle(case, trace)],
    "pair_oracles": [c15_pair_oracle],
    "audits": ["state"],
    "rule": "per seeded program five cases: a dynamic run; the same text parsed 16 times in one process and compared with == (ParsedTestCase, bound TestCase, order of signals) - programs with 2-3 declare statements "
            "over-represented; a second dynamic run with a different driver (other values, echo flipped); try_iter_static; 2-4 iterators over ONE TestCase advanced by a seeded schedule, each with its own driver. "
            "Oracles: reparse equal; every interleaved iterator yields the rows of the solo run; static succeeds iff READS is empty; static rows = (inputs, expected, line) of both dynamic runs. The model is compared on the run and static cases",
    "proved": "parse is independent of HashMap iteration order (any three permutations before the sort give the same result; recorded span starts strictly increasing); next() depends on the driver only through the answer to its one call, n calls only "
              "through the answers along the run; try_iter_static Ok iff no reads, its expect/index/unreachable are dead; static iteration previews every dynamic run item by item when no identifier falls through to a device output - also with declared (virtual) signals (DeterminismProofE; the literal statement with the narrower item relation is refuted by declare v = 1/0 and a failing device) and for a caller that continues after error items (through evaluation errors always, through device failures when no declared signal draws random; that restriction is shown necessary)",
    "validated_only": "that the code shares no state between iterators (ownership + tools/state_audit.py + interleaved runs: 'schedules' is partial by construction); std HashMap randomisation is exercised by 16 parses per text, not modelled",
    "assumptions": ["Parser.v / Iter.v / Static.v model the crate (checked by this run)", "iterators own their state (audited syntactically)"],
    "trusted_base": [],
}


# C19, last sentence: "for tests loaded from a .dig file the count is relative to the start of that test's own source text":
# .dig documents whose test sources start with blank lines; load_test(i) must equal parse(source i) + bind, lines included
import families_c16 as _f16  # noqa: E402
import gen_dig as _gen_dig  # noqa: E402
_c19_base = PROPS["C19"]["cases"]
PROPS["C19"]["cases"] = lambda seed, tier: _c19_base(seed, tier) + _gen_dig.cases((seed ^ 0xC19) & 0xFFFFFF, 80 if tier == "quick" else 3000, 0, 0)
PROPS["C19"]["oracles"] = PROPS["C19"]["oracles"] + [_f16.c16_load_oracle, _f16.c16_desc_oracle]   # (the source text is kept verbatim, line ends included)


# ------------------------------------------------------------------ C14 / C08: both operands of every binary operator are evaluated

def strict_cases(prefix):
    """declare V = X op Y for every operator and every combination of 0 / 1 / Z / X returned by the driver for X and Y:
    a virtual signal that reads a Z or X output is an error item, whatever the other operand is"""
    cases = []
    sigs = [{"name": "A", "typ": "I", "bits": 1, "default": "0"}, {"name": "P", "typ": "O", "bits": 8, "default": "-"},
            {"name": "R", "typ": "O", "bits": 8, "default": "-"}]
    vals = ["0", "1", "5", "Z", "X"]
    k = 0
    for op in gen.BINOPS:
        for x in vals:
            for y in vals:
                src = "A V\ndeclare V = P %s R;\n1 X\n" % op
                cases.append({"id": "%s-strict-%d" % (prefix, k), "kind": "run", "src": src, "sigs": sigs, "layout": [1, 2], "table": [[x, y]],
                              "echo": 0, "wdefault": 0, "faults": [], "max": 10, "seed": 1, "strict": (op, x, y)})
                k += 1
    return cases


def strict_oracle(case, trace):
    info = case.get("strict")
    if not info:
        return
    op, x, y = info
    items = [r for t, r in trace if t == "ITEM"]
    rows = rows_of(trace)
    if x in ("Z", "X") or y in ("Z", "X"):
        if rows or not any("UnexpectedValue" in it for it in items):
            yield "declare V = P %s R with P=%s R=%s: a virtual signal reading a Z/X output must make the row an error item (got rows=%d items=%s)" % (op, x, y, len(rows), items[:1])
        return
    try:
        want = py_eval(("bin", op, ("num", int(x)), ("num", int(y))), {})
    except ZeroDivisionError:
        if rows:
            yield "division by zero in a virtual signal did not give an error item"
        return
    got = [o[1] for o in rows[0][2] if o[0] == "V"] if rows else None
    if got != [str(want)]:
        yield "declare V = P %s R with P=%s R=%s: value %s, expected %d" % (op, x, y, got, want)


def c14_extra(seed, tier):
    base = add_faults(run_family("c14f", 150 if tier == "quick" else 6000, 0, [
        {"declare": 1.0, "reads": 0.7, "shadow_out": 0.8, "pZX": 0.05, "maxdepth": 2, "wlet": 0.4, "echo": 1.0, "wrow": 0.5}]),
        ["drop", "add", "dup", "err"], 1.0, cont=1.0)(seed, "quick")
    # a driver that answers for EVERY non-input signal of TestCase::signals, the appended virtual signals included
    rng = random.Random(seed ^ 0xC14)
    more = run_family("c14v", 100 if tier == "quick" else 4000, 0, [
        {"declare": 1.0, "reads": 0.6, "maxdepth": 2, "wrow": 0.5, "pZX": 0.1, "full_layout": True}])(seed, "quick")
    for c in more:
        nvirt = c["src"].count("declare")
        n0 = len(c["sigs"])
        extra = list(range(n0, n0 + nvirt))
        c["layout"] = c["layout"] + extra
        rng.shuffle(c["layout"])
        c["table"] = [[rng.choice(["X", "X", "0", "7", "Z"]) if i >= n0 else str(rng.randrange(0, 4)) for i in c["layout"]] for _ in range(3)]
    return base + more


_c14_base = PROPS["C14"]["cases"]
PROPS["C14"]["cases"] = lambda seed, tier: _c14_base(seed, tier) + strict_cases("c14") + c14_extra(seed, tier)
PROPS["C14"]["oracles"] = PROPS["C14"]["oracles"] + [strict_oracle]
def unary_cases():
    sigs = [{"name": "A", "typ": "I", "bits": 1, "default": "0"}, {"name": "Q", "typ": "O", "bits": 8, "default": "-"}]
    vals = [0, 1, 2, 5, -1, -5, 255, 2 ** 63 - 1, MIN64, MIN64 + 1, 0x5555555555555555]
    rows = []
    for u1 in gen.UNOPS:
        for u2 in [""] + gen.UNOPS:
            for u3 in ["", "!", "-"]:
                for v in vals:
                    for paren in (False, True):
                        if paren and not u2:
                            continue
                        e = ("num", v)
                        txt = "x"
                        for u in (u3, u2, u1):
                            if u:
                                e = ("un", u, e)
                                txt = (u + "(" + txt + ")") if paren else (u + txt)
                        rows.append(("let x = %s;" % (str(v) if v >= 0 else lit64(v)[1:-1]), "0 (%s)" % txt, py_eval(e, {})))
    cases = []
    for ci in range(0, len(rows), 120):
        part = rows[ci:ci + 120]
        src = "\n".join(["A V", "declare V = Q;"] + [l for a, b, _ in part for l in (a, b)]) + "\n"
        cases.append({"id": "c08-unary-%d" % ci, "kind": "run", "src": src, "sigs": sigs, "layout": [1], "table": [["1"]], "echo": 0,
                      "wdefault": 0, "faults": [], "max": 100000, "seed": 1, "c08": [x for _, _, x in part]})
    return cases


_c08_base = PROPS["C08"]["cases"]
PROPS["C08"]["cases"] = lambda seed, tier: _c08_base(seed, tier) + strict_cases("c08") + unary_cases()
PROPS["C08"]["oracles"] = PROPS["C08"]["oracles"] + [strict_oracle]


# ------------------------------------------------------------------ C17: several resets, same bounds in every segment; random in declarations

def replay_cases(seed, tier):
    rng = random.Random(seed ^ 0xC17)
    cases = []
    n = 60 if tier == "quick" else 3000
    sigs = [{"name": "A", "typ": "I", "bits": 64, "default": "0"}, {"name": "Q", "typ": "O", "bits": 8, "default": "-"}]
    for i in range(n):
        nseg = rng.randrange(2, 5)
        bounds = [rng.choice([2, 3, 100, 1000003, 2 ** 31, 2 ** 40, 2 ** 62, 2 ** 63 - 1]) for _ in range(rng.randrange(1, 5))]
        use_decl = rng.random() < 0.4
        lines = ["A Q V" if use_decl else "A Q"]
        if use_decl:
            lines.append("declare V = Q + random(%d);" % rng.choice([3, 100, 1000003, 2 ** 40, 2 ** 62]))
        for sgm in range(nseg):
            for b in bounds:
                x = rng.random()
                if x < 0.5:
                    lines.append("(random(%d)) X%s" % (b, " X" if use_decl else ""))
                elif x < 0.75:
                    lines.append("let t = random(%d);" % b)
                else:
                    lines.append("(ite(1, random(%d), random(7))) X%s" % (b, " X" if use_decl else ""))
            if sgm < nseg - 1:
                lines.append("resetRandom;")
        if rng.random() < 0.35:
            # the reset sits first in a loop / while body: every pass replays the stream
            b = rng.choice(bounds)
            hdrline = lines[0]
            decl = lines[1:2] if use_decl else []
            pad = " X" if use_decl else ""
            kind = rng.choice(["loop", "while"])
            open_ = ["loop(k,%d)" % rng.randrange(2, 4)] if kind == "loop" else ["let w = 0;", "while(w < 2)"]
            body = ["resetRandom;", "(random(%d)) X%s" % (b, pad), "let t = random(%d);" % b] + (["let w = w + 1;"] if kind == "while" else [])
            lines = [hdrline] + decl + ["(random(%d)) X%s" % (b, pad)] + open_ + body + ["end " + kind, "(random(%d)) X%s" % (b, pad)]
        cases.append({"id": "c17-replay-%d" % i, "kind": "run", "src": "\n".join(lines) + "\n", "sigs": sigs, "layout": [1],
                      # answers that repeat (a device whose outputs do not change between rows) and answers that alternate
                      "table": rng.choice([[["1"]], [["1"], ["1"], ["2"], ["2"], ["2"]], [["1"], ["2"]], [["3"], ["3"], ["1"]]]),
                      "echo": 0, "wdefault": 0, "faults": [], "max": 1000, "seed": rng.randrange(0, 2 ** 32)})
    return cases


_c17_base = PROPS["C17"]["cases"]
PROPS["C17"]["cases"] = lambda seed, tier: _c17_base(seed, tier) + replay_cases(seed, tier) + run_family("c17d", 100 if tier == "quick" else 4000, 0, [
    {"random": 0.6, "declare": 1.0, "declare_random": True, "maxdepth": 2, "reads": 0.3, "wrow": 0.5}])(seed, "quick")


# ------------------------------------------------------------------ callers that keep iterating after a failed row

def posterr_cases(prefix, seed, tier):
    """programs whose variables matter AFTER a row that fails once the driver has been called (a virtual signal that
    cannot be evaluated on that answer - division by zero, Z / X - or an answer that deviates from the first layout),
    run by a caller that keeps calling next(): everything after the error item must be what the model says
    (variables still visible, loop counters intact, outputs of the failed call, generator state)."""
    n = 60 if tier == "quick" else 3000
    rng = random.Random((seed << 8) ^ 0x9057)
    cases = []
    for i in range(n):
        sigs = [{"name": "A", "typ": "I", "bits": 8, "default": "0"}, {"name": "Q", "typ": "O", "bits": 8, "default": "-"},
                {"name": "R", "typ": "O", "bits": 8, "default": "-"}]
        vcol = rng.random() < 0.6
        decl = rng.choice(["8 / Q", "Q", "Q + R", "ite(Q, 1, 2)", "R % Q", "Q * 2"])
        hdr = "A Q R" + (" V" if vcol else "")
        x0 = rng.randrange(1, 9)
        nloop = rng.randrange(2, 5)
        tail = " X" if vcol else ""
        lines = [hdr, "declare V = %s;" % decl, "let x = %d;" % x0]
        body_kind = rng.randrange(0, 4)
        if body_kind == 0:
            lines += ["loop(i,%d)" % nloop, "(x+i) X X" + tail, "let x = x + 1;", "end loop", "(x) X X" + tail]
        elif body_kind == 1:
            lines += ["repeat(%d) (x+n) X X%s" % (nloop, tail), "(x) X X" + tail, "let y = x * 2;", "(y) X X" + tail]
        elif body_kind == 2:
            lines += ["let w = 0;", "while(w < %d)" % nloop, "(x+w) X X" + tail, "let w = w + 1;", "end while", "(w) X X" + tail]
        else:
            lines += ["loop(i,%d)" % nloop, "loop(j,2)", "(x+i+j) X X" + tail, "end loop", "let x = x + i;", "end loop", "(x) X X" + tail,
                      "resetRandom;", "(x+1) X X" + tail]
        ncalls = 10
        bad = rng.randrange(1, 5)                 # the call (0 = constructor) that goes wrong
        table = []
        for k in range(ncalls):
            q = str(rng.randrange(1, 9))
            r = str(rng.randrange(1, 9))
            table.append([q, r])
        faults = []
        how = rng.randrange(0, 4)
        if how == 0:
            table[bad][0] = "0"                 # division / remainder by zero in the declared expression (where it divides)
        elif how == 1:
            table[bad][0] = rng.choice(["Z", "X"])
        elif how == 2:
            faults = [(bad, rng.choice(["swap 0 1", "drop 0", "drop 1", "dup 0", "subst 0 2", "err 7"]))]
        else:
            table[bad][0] = "0"
            faults = [(bad + 1, rng.choice(["swap 0 1", "drop 1", "err 9"]))]
        cases.append({"id": "%s-pe-%d-%d" % (prefix, seed & 0xFFFF, i), "kind": "run", "src": "\n".join(lines) + "\n", "sigs": sigs,
                      "layout": [1, 2], "table": table, "echo": 0, "wdefault": rng.randrange(0, 2), "faults": faults, "cont": 1,
                      "max": 200, "seed": rng.randrange(1, 1 << 31)})
    return cases


for _p in ("C01", "C04", "C13", "C14", "C18"):
    PROPS[_p]["cases"] = (lambda base, pref: (lambda seed, tier: base(seed, tier) + posterr_cases(pref, seed, tier)))(PROPS[_p]["cases"], _p.lower())
    PROPS[_p]["rule"] = PROPS[_p]["rule"] + "; plus the post-error family: programs with variables, loops and a declared signal whose evaluation fails on one particular driver answer " \
                                           "(division by zero, Z/X) or whose driver deviates once, run by a caller that keeps calling next() after the error item"


# ------------------------------------------------------------------ C05: exhaustive small scope

def c05_exhaustive(seed, tier):
    """EVERY row of width 1..4 over {0, 1, X, C, Z} for every assignment of column kinds (input / output /
    bidirectional input side / bidirectional expected side) - small scope, complete: quick = every 9th such row
    (rotating with the seed), thorough = all of them; two rows per case so that `changed` flags and the previous
    vector take part"""
    import itertools
    kinds = ["I", "O", "B", "b"]           # b = the _out column of a bidirectional signal
    entries = {"I": ["0", "1", "X", "C", "Z"], "B": ["0", "1", "X", "C", "Z"], "O": ["0", "1", "X", "Z"], "b": ["0", "1", "X", "Z"]}
    cases = []
    n = 0
    for width in (1, 2, 3, 4):
        for ks in itertools.product(kinds, repeat=width):
            if sum(1 for k in ks if k in ("I", "B")) == 0:
                continue
            if ks.count("b") > ks.count("B") and "b" in ks:
                pass
            names, sigs, hdr = [], [], []
            bi = 0
            ok = True
            for j, k in enumerate(ks):
                if k == "I":
                    nm_ = "I%d" % j
                    sigs.append({"name": nm_, "typ": "I", "bits": 1, "default": "0"}); hdr.append(nm_)
                elif k == "O":
                    nm_ = "O%d" % j
                    sigs.append({"name": nm_, "typ": "O", "bits": 1, "default": "-"}); hdr.append(nm_)
                elif k == "B":
                    nm_ = "B%d" % j
                    sigs.append({"name": nm_, "typ": "B", "bits": 1, "default": "0"}); hdr.append(nm_)
                else:
                    # the expected side of a bidirectional signal that has (or has not) an input-side column elsewhere
                    prev = [s_["name"] for s_ in sigs if s_["typ"] == "B" and s_["name"] + "_out" not in hdr]
                    if prev:
                        hdr.append(prev[0] + "_out")
                    else:
                        nm_ = "B%d" % j
                        sigs.append({"name": nm_, "typ": "B", "bits": 1, "default": "0"}); hdr.append(nm_ + "_out")
            for row in itertools.product(*[entries[k] for k in ks]):
                if not any(e in ("X", "C") for e in row):
                    continue
                n += 1
                if tier == "quick" and (n + seed) % 9 != 0:
                    continue
                out_idx = [i for i, s_ in enumerate(sigs) if s_["typ"] in ("O", "B")]
                zero = " ".join(["0"] * len(row))
                src = " ".join(hdr) + "\n" + (zero + "\n" if n % 2 else "") + " ".join("1" if e in ("X", "C") else e for e in row) + "\n" + " ".join(row) + "\n" + (zero + "\n" if n % 3 == 0 else "")
                cases.append({"id": "c05-ex-%d" % n, "kind": "run", "src": src, "sigs": [dict(s_) for s_ in sigs], "layout": out_idx,
                              "table": [["1"] * len(out_idx), ["0"] * len(out_idx)], "echo": 0, "wdefault": n % 2, "faults": [], "max": 400, "seed": 1})
    return cases


_c05_base = PROPS["C05"]["cases"]
PROPS["C05"]["cases"] = lambda seed, tier: _c05_base(seed, tier) + c05_exhaustive(seed, tier)
PROPS["C05"]["rule"] += "; plus the exhaustive small scope: every row of width 1-4 over {0,1,X,C,Z} for every assignment of column kinds (input, output, bidirectional input side, " \
                        "bidirectional expected side), preceded by a plain row (quick: every 9th, rotating with the seed; thorough: all)"


# ------------------------------------------------------------------ more fixed-shape families (round-3 blind spots)

def _sig(name, typ, bits=4, default=None):
    return {"name": name, "typ": typ, "bits": bits, "default": ("-" if typ == "O" else "0") if default is None else default}


def out_suffix_cases(prefix, seed):
    """signal names that themselves end in `_out` (the expected-side column of a bidirectional D_out is D_out_out, and
    B_out_out is NOT a column of a bidirectional B), names that differ in letter case only, headers with 17-40 columns"""
    rng = random.Random(seed ^ 0x0075)
    cases = []
    specs = [
        # (signals, header, row)
        ([_sig("D_out", "B"), _sig("Q", "O")], "D_out D_out_out Q", "1 1 X"),
        ([_sig("D_out", "B"), _sig("Q", "O")], "D_out_out Q", "3 X"),
        ([_sig("B", "B"), _sig("Q", "O")], "B B_out_out Q", "1 1 X"),
        ([_sig("B", "B"), _sig("Q", "O")], "B_out_out Q", "1 X"),
        ([_sig("B", "B"), _sig("B_out", "B"), _sig("Q", "O")], "B B_out B_out_out Q", "1 2 3 X"),
        ([_sig("B", "B"), _sig("B_out", "O"), _sig("Q", "O")], "B B_out Q", "1 2 X"),
        ([_sig("B", "B"), _sig("B_out", "I"), _sig("Q", "O")], "B B_out Q", "1 2 X"),
        ([_sig("X_out_out", "B"), _sig("Q", "O")], "X_out_out X_out_out_out Q", "1 2 X"),
        ([_sig("_out", "B"), _sig("Q", "O")], "_out _out_out Q", "1 2 X"),
        ([_sig("q", "O"), _sig("Q", "O"), _sig("A", "I")], "A q Q", "1 2 3"),
        ([_sig("a", "I"), _sig("A", "I"), _sig("Q", "O")], "a A Q", "1 2 3"),
    ]
    for i, (sigs, hdr, row) in enumerate(specs):
        outs = [k for k, s_ in enumerate(sigs) if s_["typ"] in ("O", "B")]
        for j in range(5):
            table = [[str(3 + 2 * k_ + j + r_) for k_ in range(len(outs))] for r_ in range(3)]
            faults = [[], [(1, "swap 0 1")], [(2, "subst 0 1")], [(1, "subst 1 0")], [(2, "dup 0")]][j]
            lay = list(outs)
            if j in (1, 4):
                lay.reverse()
            cases.append({"id": "%s-sfx-%d-%d" % (prefix, i, j), "kind": "run", "src": hdr + "\n" + row + "\n" + row + "\n(1) " + " ".join(row.split()[1:]) + "\n",
                          "sigs": [dict(s_) for s_ in sigs], "layout": lay, "table": table, "echo": 0, "wdefault": 0, "faults": faults, "cont": 1, "max": 50, "seed": 1})
    # wide headers: a duplicate name far to the right, and no duplicate
    for n in (15, 16, 17, 18, 31, 40):
        names = ["S%d" % k for k in range(n)]
        sigs = [_sig(nm_, "I", 1) for nm_ in names] + [_sig("Q", "O", 1)]
        for dup in (None, 0, 3, n - 1):
            hdr = list(names)
            if dup is not None:
                hdr = hdr + [names[dup]]
            hdr = hdr + ["Q"]
            row = " ".join(["1"] * (len(hdr) - 1) + ["X"])
            cases.append({"id": "%s-wide-%d-%s" % (prefix, n, dup), "kind": "run", "src": " ".join(hdr) + "\n" + row + "\n", "sigs": [dict(s_) for s_ in sigs],
                          "layout": [n], "table": [["1"]], "echo": 0, "wdefault": 0, "faults": [], "max": 10, "seed": 1})
    return cases


def empty_program_cases(prefix):
    """tests without any statement: the constructor still makes its one call"""
    sigs = [_sig("A", "I", 4, "5"), _sig("B", "B", 2, "Z"), _sig("Q", "O")]
    cases = []
    for i, body in enumerate(["", "\n", "\n\n", "# only a comment\n", "# c", "declare V = Q + 1;\n", "declare V = Q;\n# c\n\n", "   \n\t\n", "let x = 1;\n", "resetRandom;\n",
                              "loop(i,0)\n1 1 X\nend loop\n", "while(0)\n1 1 X\nend while\n", "loop(i,3)\nlet y = i;\nend loop\n", "repeat(0) 1 1 X\n"]):
        for wd in (0, 1):
            cases.append({"id": "%s-empty-%d-%d" % (prefix, i, wd), "kind": "run", "src": "A B Q\n" + body, "sigs": [dict(s_) for s_ in sigs], "layout": [2, 1],
                          "table": [["3", "1"]], "echo": 0, "wdefault": wd, "faults": [], "max": 10, "seed": 1})
            cases.append({"id": "%s-empty-%d-%d-s" % (prefix, i, wd), "kind": "static", "src": "A B Q\n" + body, "sigs": [dict(s_) for s_ in sigs], "layout": [2, 1],
                          "table": [["3", "1"]], "echo": 0, "wdefault": wd, "faults": [], "max": 10, "seed": 1})
    return cases


def static_twins(casefn, every=4):
    """adds, for every `every`-th run case of a family, the same test through try_iter_static"""
    def f(seed, tier):
        cs = casefn(seed, tier)
        extra = []
        for k, c in enumerate(cs):
            if c.get("kind") == "run" and k % every == 0 and not c.get("rebits"):
                extra.append(dict(c, id=c["id"] + "-static", kind="static", faults=[]))
        return cs + extra
    return f


def _extend(prop, fn, rule_text):
    base = PROPS[prop]["cases"]
    PROPS[prop]["cases"] = (lambda b, g: (lambda seed, tier: b(seed, tier) + g(seed, tier)))(base, fn)
    PROPS[prop]["rule"] = PROPS[prop]["rule"] + "; " + rule_text


for _p in ("C06", "C11", "C13", "C03", "C12"):
    _extend(_p, (lambda pref: (lambda seed, tier: out_suffix_cases(pref, seed)))(_p.lower()),
            "plus fixed shapes: signal names ending in _out with their _out_out columns, names differing in letter case only (with swapped / substituted answers), headers of 15-40 columns with and without a far duplicate")
for _p in ("C02", "C10", "C15"):
    _extend(_p, (lambda pref: (lambda seed, tier: empty_program_cases(pref)))(_p.lower()),
            "plus tests without any row (empty, comment-only, declare-only, zero-trip loops), dynamic and static")
# callers that go on after a failed call, for every property whose check runs whole tests
for _p in ("C02", "C03", "C05", "C06", "C07", "C15", "C17"):
    PROPS[_p]["cases"] = (lambda base, pref: (lambda seed, tier: base(seed, tier) + posterr_cases(pref, seed, tier)))(PROPS[_p]["cases"], _p.lower())
    PROPS[_p]["rule"] += "; plus the post-error family (a caller that keeps calling next() after a failed row)"
# C05 / C02: a driver error or deviating answer in the MIDDLE of an expansion, caller goes on
_c05b = PROPS["C05"]["cases"]
PROPS["C05"]["cases"] = lambda seed, tier: _c05b(seed, tier) + add_faults(run_family("c05f", 120 if tier == "quick" else 5000, 0, [
    {"pC": 0.4, "pX": 0.35, "maxdepth": 1, "reads": 0.0, "n_bidir": 1, "wrow": 0.8}]), ["err", "drop", "dup"], 1.0, cont=1.0)(seed, "quick")
_c02b = PROPS["C02"]["cases"]
PROPS["C02"]["cases"] = lambda seed, tier: _c02b(seed, tier) + add_faults(run_family("c02f", 120 if tier == "quick" else 5000, 0, [
    {"pC": 0.4, "pX": 0.3, "maxdepth": 1, "reads": 0.0, "wrow": 0.8}]), ["err"], 1.0, cont=1.0)(seed, "quick")
# C10: the static iterator on the same tests (reads of bidirectional signals, zero-width bits, ...)
PROPS["C10"]["cases"] = static_twins(PROPS["C10"]["cases"], 3)
PROPS["C10"]["tags"] = tuple(PROPS["C10"]["tags"]) + ("STATIC", "SROW")
PROPS["C10"]["rule"] += "; every third test also through try_iter_static"


# C17: several iterators over one test, interleaved, each with its own generator: every one of them yields the rows of the
# iterator run alone INCLUDING the values drawn (same seed), i.e. no generator state is shared between runs
def c17_multi_cases(seed, tier):
    rng = random.Random(seed ^ 0x3177)
    base = replay_cases(seed ^ 0x51, "quick")[: (12 if tier == "quick" else 60)]
    out = []
    for c in base:
        run = dict(c, id=c["id"] + "-solo", kind="run", faults=[], wdefault=0)
        out.append(run)
        k = rng.randrange(2, 4)
        out.append(dict(run, id=c["id"] + "-multi", kind="multi", niter=k, sched=[rng.randrange(0, k) for _ in range(rng.randrange(4, 30))],
                        group=run["id"], no_model=True))
    return out


_c17_b2 = PROPS["C17"]["cases"]
PROPS["C17"]["cases"] = lambda seed, tier: _c17_b2(seed, tier) + c17_multi_cases(seed, tier)
PROPS["C17"]["pair_oracles"] = [c15_pair_oracle]
PROPS["C17"]["rule"] += "; plus interleaved iterators over one test with random (each must reproduce the solo run, drawn values included)"


# ------------------------------------------------------------------ callers that keep iterating after an EVALUATION error

def evalerr_cases(prefix, seed, tier):
    """the failing statement is consumed and the run goes on (a failing `let` leaves the old binding, a failing row is
    skipped, a loop whose bound fails is skipped without a frame, a failing `while` condition is evaluated again on
    every call); draws made before the failure stay consumed; all with a caller that keeps calling next()"""
    n = 50 if tier == "quick" else 2500
    rng = random.Random((seed << 7) ^ 0xE7A1)
    sigs = [_sig("A", "I", 8), _sig("Q", "O", 8)]
    bad = ["1/0", "5%(2-2)", "Q/0", "nosuch", "random(1)", "random(0-3)", "signExt(1,2)", "1/(z-z)"]
    cases = []
    for i in range(n):
        b = rng.choice(bad)
        big = rng.choice([1000003, 2 ** 40, 2 ** 62])
        shape = rng.randrange(0, 11)
        if shape == 0:
            body = ["let z = 3;", "let z = %s;" % b, "(z) X", "(random(%d)) X" % big]
        elif shape == 1:
            body = ["let z = 3;", "(random(%d)) (%s)" % (big, b), "(random(%d)) X" % big, "resetRandom;", "(random(%d)) X" % big, "(random(%d)) X" % big]
        elif shape == 2:
            body = ["let z = 3;", "loop(i,%s)" % b, "(i) X", "end loop", "(z) X", "loop(i,2)", "(i+z) X", "end loop"]
        elif shape == 3:
            body = ["let z = 3;", "loop(i,3)", "(i) X", "let z = %s;" % b, "(z+i) X", "end loop", "(z) X"]
        elif shape == 4:
            body = ["let z = 0;", "while(%s)" % b, "(z) X", "end while", "(z) X"]
        elif shape == 5:
            body = ["let z = 0;", "while(z < 3)", "let z = z + 1;", "(7/(z-2)) X", "(z) X", "end while", "(z) X"]
        elif shape == 6:
            body = ["let z = 2;", "loop(i,2)", "loop(j,2)", "bits(2,%s) " % b, "(i+j) X", "end loop", "end loop", "repeat(2) (n/(z-2)) X", "(z) X"]
        elif shape == 7:
            body = ["let z = 1;", "(random(%d)) X" % big, "let z = random(%d) + (%s);" % (big, b), "(random(%d)) X" % big, "(z) X"]
        elif shape == 8:
            # the LEFT operand fails: the right one (a draw) is not evaluated
            body = ["let z = 1;", "((%s) + random(%d)) X" % (b, big), "(random(%d)) X" % big, "resetRandom;", "(random(%d)) X" % big]
        elif shape == 9:
            # a loop whose bound fails, nested in another loop: no frame may be left behind
            body = ["let k = 7;", "loop(i,2)", "loop(j,%s)" % b, "(j) X", "end loop", "(i) X", "end loop", "(k) X", "(k+1) X"]
        else:
            # a name the parser knows (bound in a while body that never runs) but that has no value: an error item each time it is read,
            # never a phantom variable
            body = ["let k = 2;", "while(0)", "let t = 1;", "end while", "(t) X", "(k) X", "(t) X", "(k) X"]
        cases.append({"id": "%s-ee-%d-%d" % (prefix, seed & 0xFFFF, i), "kind": "run" if i % 3 else "static", "src": "A Q\n" + "\n".join(body) + "\n",
                      "sigs": [dict(s_) for s_ in sigs], "layout": [1], "table": [["3"], ["4"]], "echo": 0, "wdefault": 0, "faults": [], "cont": 1,
                      "max": 30, "seed": rng.randrange(1, 1 << 31)})
    return cases


for _p in ("C01", "C10", "C17", "C18", "C15", "C04"):
    _extend(_p, (lambda pref: (lambda seed, tier: evalerr_cases(pref, seed, tier)))(_p.lower()),
            "plus the evaluation-error family: failing lets / row entries / loop bounds / while conditions in the middle of a run, caller keeps calling next() (dynamic and static)")
if "STATIC" not in PROPS["C01"]["tags"]:
    for _p in ("C01", "C17", "C18", "C04"):
        PROPS[_p]["tags"] = tuple(PROPS[_p]["tags"]) + ("STATIC", "SROW")


# ------------------------------------------------------------------ round-4 blind spots: more fixed shapes

def deep_nesting_cases(prefix):
    """9 to 12 nested loops / repeats / whiles, with a `let` at every level and rows after the innermost blocks have ended"""
    sigs = [_sig("A", "I", 16), _sig("Q", "O", 4)]
    cases = []
    for depth in (8, 9, 10, 12):
        for variant in range(3):
            lines = ["A Q", "let k = 1;"]
            for d in range(depth):
                if variant == 1 and d % 3 == 2:
                    lines += ["let w%d = 0;" % d, "while(w%d < 2)" % d, "let w%d = w%d + 1;" % (d, d)]
                else:
                    lines += ["loop(i%d,2)" % d]
                lines += ["let k = k + %d;" % (d + 1)]
                if variant == 2:
                    lines += ["let s%d = k;" % d]
            lines += ["(k) X"]
            for d in reversed(range(depth)):
                lines += ["end while" if (variant == 1 and d % 3 == 2) else "end loop", "(k) X"]
            cases.append({"id": "%s-deep-%d-%d" % (prefix, depth, variant), "kind": "run", "src": "\n".join(lines) + "\n", "sigs": [dict(s_) for s_ in sigs],
                          "layout": [1], "table": [["1"]], "echo": 0, "wdefault": 0, "faults": [], "max": 60, "seed": 1})
    return cases


def more_name_cases(prefix):
    """outputs whose names are ambiguous when concatenated (Q / QQ, AB+C / A+BC), a declared signal S next to a real pin S_out"""
    cases = []
    specs = [
        ([_sig("Q", "O"), _sig("QQ", "O"), _sig("A", "I")], "A Q QQ", "1 2 3", [0, 1], [[(1, "swap 0 1")], [(2, "subst 0 1")], [(1, "subst 1 0")]]),
        ([_sig("AB", "O"), _sig("C", "O"), _sig("A", "O"), _sig("BC", "O"), _sig("I", "I")], "I AB C A BC", "1 2 3 4 5", [0, 1, 2, 3],
         [[(1, "subst 0 2"), (1, "subst 1 3")], [(1, "swap 0 2")], [(2, "subst 2 0")]]),
        ([_sig("A", "I"), _sig("S_out", "O"), _sig("Q", "O")], "A S_out Q\ndeclare S = Q + 1;", "1 2 3", [1, 2], [[]]),
        ([_sig("A", "I"), _sig("S_out", "O"), _sig("Q", "O")], "A S_out Q S\ndeclare S = Q + 1;", "1 2 3 Z", [1, 2], [[]]),
        ([_sig("A", "I"), _sig("Q_out", "O"), _sig("Q", "O")], "A Q_out", "1 2", [1, 2], [[]]),
        ([_sig("A", "I"), _sig("Q", "O")], "A Q_out", "1 2", [1], [[]]),
        ([_sig("A", "I"), _sig("V_out", "B"), _sig("Q", "O")], "A V_out V_out_out Q V\ndeclare V = Q;", "1 1 2 3 Z", [1, 2], [[]]),
        # a bidirectional B next to an INPUT literally named B_out: the column B_out is an input column and B's expected column at once
        ([_sig("CLK", "I", 1), _sig("B", "B"), _sig("B_out", "I"), _sig("Q", "O")], "CLK B B_out Q", "C 1 2 X", [1, 3], [[]]),
        ([_sig("CLK", "I", 1), _sig("B", "B"), _sig("B_out", "I"), _sig("Q", "O")], "B_out CLK Q", "2 C X", [1, 3], [[]]),
        # two C in one row, the second one in a column that is no input (must not bind)
        ([_sig("CLK", "I", 1), _sig("CK2", "I", 1), _sig("Q", "O")], "CLK CK2 Q", "C C X", [2], [[]]),
        ([_sig("CLK", "I", 1), _sig("Q", "O")], "CLK Q", "C C", [1], [[]]),
        ([_sig("CLK", "I", 1), _sig("B", "B")], "CLK B B_out", "C 1 C", [1], [[]]),
        ([_sig("CLK", "I", 1), _sig("Q", "O")], "CLK Q V\ndeclare V = Q;", "C X C", [1], [[]]),
        # header names that spell an expression: (P-Q) is P minus Q, never the signal called P-Q
        ([_sig("P", "O"), _sig("Q", "O"), _sig("P-Q", "O"), _sig("A", "I", 8)], "A P Q P-Q", "(P-Q) X X X", [0, 1, 2], [[]]),
        ([_sig("P", "O"), _sig("Q", "O"), _sig("P-Q", "O"), _sig("A", "I", 8)], "A P Q P-Q", "(P - Q) X X X", [0, 1, 2], [[]]),
        ([_sig("BUS-OUT", "O"), _sig("A", "I", 8)], "A BUS-OUT", "(BUS-OUT) X", [0], [[]]),
        ([_sig("BUS-OUT", "O"), _sig("A", "I", 8)], "A BUS-OUT", "(BUS - OUT) X", [0], [[]]),
    ]
    for i, (sigs, hdr, row, lay, faultsets) in enumerate(specs):
        for j, faults in enumerate(faultsets):
            cases.append({"id": "%s-nm-%d-%d" % (prefix, i, j), "kind": "run", "src": hdr + "\n" + row + "\n" + row + "\n" + row + "\n", "sigs": [dict(s_) for s_ in sigs],
                          "layout": lay, "table": [[str(2 + k_ + r_) for k_ in range(len(lay))] for r_ in range(3)], "echo": 0, "wdefault": 0, "faults": faults, "cont": 1,
                          "max": 20, "seed": 1})
    return cases


for _p in ("C01", "C18"):
    _extend(_p, (lambda pref: (lambda seed, tier: deep_nesting_cases(pref)))(_p.lower()), "plus 8-12 nested loops / whiles with a let at every level")
for _p in ("C13", "C14", "C06", "C11", "C03"):
    _extend(_p, (lambda pref: (lambda seed, tier: more_name_cases(pref)))(_p.lower()),
            "plus names that are ambiguous when concatenated (Q/QQ, AB+C/A+BC) with swapped / substituted answers, and a declared S next to a real pin S_out")
# the static iterator on the C05 / C02 / C17 tests as well
for _p in ("C05", "C02", "C17"):
    PROPS[_p]["cases"] = static_twins(PROPS[_p]["cases"], 5)
    if "STATIC" not in PROPS[_p]["tags"]:
        PROPS[_p]["tags"] = tuple(PROPS[_p]["tags"]) + ("STATIC", "SROW")
    PROPS[_p]["rule"] += "; every fifth test also through try_iter_static"


# C09 through the .dig entry point: errors of load_test carry the test's own source and must be renderable
def c09_dig_cases(seed, tier):
    import gen_dig
    return [dict(c, id="c09-" + c["id"]) for c in gen_dig.cases((seed ^ 0xC09) & 0xFFFFFF, 300 if tier == "quick" else 6000, 0, 0)]


_extend("C09", c09_dig_cases, "plus .dig documents whose tests are loaded with load_test: every error must be renderable with the source it carries")
PROPS["C09"]["oracles"] = PROPS["C09"]["oracles"] + [_f16.c16_load_oracle]


# ------------------------------------------------------------------ wild profiles: every dial at random, many at an extreme
def _wild(pref):
    return lambda seed, tier: add_faults(lambda s_, t_: gen.wild_cases(pref, s_, 80 if t_ == "quick" else 4000),
                                         ["err", "drop", "add", "dup", "swap", "subst"], 0.3, cont=0.5)(seed, tier)


for _p in ("C01", "C02", "C03", "C04", "C05", "C06", "C10", "C13", "C14", "C17", "C18"):
    _extend(_p, _wild(_p.lower()), "plus the wild family: whole tests from profiles whose every dial (numbers of signals up to 70, nesting up to 11, every kind of name / entry / "
            "layout / driver behaviour, faults, continuing callers) is drawn at random")
for _p in ("C15", "C19", "C20", "C11", "C12", "C09"):
    # these compare parse / bind / static projections: the wild tests are used without faults
    _extend(_p, (lambda pref: (lambda seed, tier: [dict(c, kind=("parse" if pref in ("c09", "c12") else c["kind"]), faults=[]) for c in gen.wild_cases(pref, seed, 60 if tier == "quick" else 3000)]))(_p.lower()),
            "plus the wild family (tests from profiles with every dial drawn at random)")


# C17: static iteration of tests whose declared signals draw (the static iterator evaluates virtual signals like a dynamic run)
_c17_b3 = PROPS["C17"]["cases"]
def _c17_static_decl(seed, tier):
    out = []
    for c in replay_cases(seed ^ 0x57A7, "quick")[: (60 if tier == "quick" else 600)]:
        if "declare V" in c["src"] and "Q +" in c["src"]:
            # the static iterator refuses tests that read outputs: make the declaration output-free
            src = c["src"].replace("declare V = Q + random(", "declare V = 1 + random(")
            out.append(dict(c, id=c["id"] + "-sdecl", kind="static", src=src))
            out.append(dict(c, id=c["id"] + "-rdecl", kind="run", src=src))
    return out
PROPS["C17"]["cases"] = lambda seed, tier: _c17_b3(seed, tier) + _c17_static_decl(seed, tier)
PROPS["C17"]["rule"] += "; plus static and dynamic runs of tests whose declared signal draws"


PROPS["C07"]["tags"] = tuple(PROPS["C07"]["tags"]) + ("STATIC", "SROW")


# ------------------------------------------------------------------ names that are variables only inside a scope that has ended
def scope_leak_cases(prefix):
    """after `repeat(k) row` the name n, after `end loop` the counter (and everything let-bound in the loop) are no variables
    any more: a later use of the name is a read of the OUTPUT of that name (recorded as such, so a driver that does not
    supply it is refused at construction, and the test is not static) or, without such an output, does not bind"""
    cases = []
    shapes = [
        ("A n Q", ["repeat(2) 1 X X", "(n) X X"], ["n"]),
        ("A n Q", ["repeat(2) (n) X X", "let y = n + 1;", "(y) X X"], ["n"]),
        ("A i Q", ["loop(i,2)", "(i) X X", "end loop", "(i+1) X X"], ["i"]),
        ("A i Q", ["loop(i,2)", "let t = i;", "(t) X X", "end loop", "loop(j,i)", "(j) X X", "end loop"], ["i"]),
        ("A t Q", ["loop(i,2)", "let t = i + 5;", "(t) X X", "end loop", "(t) X X"], ["t"]),
        ("A t Q", ["loop(i,1)", "loop(j,1)", "let t = 3;", "end loop", "(t) X X", "end loop", "(t) X X"], ["t"]),
        ("A w Q", ["let w = 0;", "while(w < 2)", "let w = w + 1;", "(w) X X", "end while", "(w) X X"], []),
        ("A n Q", ["loop(n,2)", "repeat(2) (n) X X", "(n) X X", "end loop", "(n) X X"], ["n"]),
        # an inner loop whose counter has the name of the binding made LAST in the enclosing loop's frame
        ("A j Q", ["loop(a,2)", "let j = 9;", "loop(j,2)", "(j) X X", "end loop", "(j) X X", "end loop", "(a) X X"], ["j", "a"]),
        ("A j Q", ["let j = 4;", "loop(a,2)", "let k = 1;", "let j = 9;", "loop(j,3)", "loop(j,2)", "(j) X X", "end loop", "(j) X X", "end loop", "(j+k) X X", "end loop"], []),
    ]
    for i, (hdr, body, outs) in enumerate(shapes):
        oname = hdr.split()[1]
        sig_sets = [[_sig("A", "I", 8), _sig(oname, "O", 8), _sig("Q", "O", 8)],
                    [_sig("A", "I", 8), _sig("Q", "O", 8)],                     # no such output: does not bind (unless the name is never read)
                    [_sig("A", "I", 8), _sig(oname, "I", 8), _sig("Q", "O", 8)]]  # the name is an INPUT: cannot be read
        for j, sigs in enumerate(sig_sets):
            hdr_j = hdr if j != 1 else hdr.replace(" " + oname + " ", " ")
            body_j = body if j != 1 else [l.replace(" X X", " X") if l.endswith(" X X") else l for l in body]
            out_idx = [k for k, s_ in enumerate(sigs) if s_["typ"] == "O"]
            for lay in ([out_idx, [k for k in out_idx if sigs[k]["name"] == "Q"]] if j == 0 else [out_idx]):
                for kind in ("run", "static"):
                    cases.append({"id": "%s-leak-%d-%d-%d-%s" % (prefix, i, j, len(lay), kind), "kind": kind, "src": hdr_j + "\n" + "\n".join(body_j) + "\n",
                                  "sigs": [dict(s_) for s_ in sigs], "layout": lay, "table": [[str(3 + k) for k in range(len(lay))], [str(5 + k) for k in range(len(lay))]],
                                  "echo": 0, "wdefault": 0, "faults": [], "max": 40, "seed": 1})
    return cases


for _p in ("C04", "C11", "C15", "C01"):
    _extend(_p, (lambda pref: (lambda seed, tier: scope_leak_cases(pref)))(_p.lower()),
            "plus fixed shapes for names that are variables only inside a scope that has ended (repeat's n, loop counters, lets of a loop body) and are outputs, inputs or nothing outside it; with drivers that do and do not supply them; dynamic and static")
if "STATIC" not in PROPS["C11"]["tags"]:
    PROPS["C11"]["tags"] = tuple(PROPS["C11"]["tags"]) + ("STATIC", "SROW")
# C04: answers of the wrong length / order in the middle of a run, caller goes on, later expressions read outputs
_c04b = PROPS["C04"]["cases"]
PROPS["C04"]["cases"] = lambda seed, tier: _c04b(seed, tier) + add_faults(run_family("c04f", 150 if tier == "quick" else 6000, 0, [
    {"reads": 0.95, "echo": 1.0, "maxdepth": 2, "wrow": 0.5, "wlet": 0.3, "full_layout": True, "pZXread": 0.0}]), ["drop", "add", "dup", "swap", "err"], 1.0, cont=1.0)(seed, "quick")
PROPS["C04"]["rule"] += "; plus a family of output-reading programs whose driver deviates (wrong length / order / error) in the middle, with a caller that goes on"


# ------------------------------------------------------------------ round-5 blind spots: boundaries at 64 columns, degenerate signal lists, many calls

def wide_boundary_cases(prefix):
    """headers of 64-70 columns: C / X in columns 62..66 (u64 bit sets wrap at 64), two C columns 64 apart, a C in a
    non-input column beyond 64, bits(63/64, v) groups with values that are not 0 / -1 / 2^m-1"""
    cases = []
    for ncol in (64, 65, 66, 70):
        names = ["c%d" % k for k in range(ncol)]
        for out_from in (ncol, ncol - 3, 60):
            sigs = [_sig(nm_, "I" if k < out_from else "O", 1) for k, nm_ in enumerate(names)]
            outs = [k for k in range(ncol) if k >= out_from]
            rows = []
            for spot in (0, 1, 62, 63, 64, 65, ncol - 1):
                if spot >= ncol:
                    continue
                for mark in ("X", "C"):
                    row = ["0"] * ncol
                    row[spot] = mark
                    if mark == "C" and spot + 64 < ncol:
                        row[spot + 64] = "C"
                    rows.append(" ".join(row))
            rows.append(" ".join(["1"] * ncol))
            for j, chunk in enumerate([rows[i:i + 4] for i in range(0, len(rows), 4)]):
                cases.append({"id": "%s-w64-%d-%d-%d" % (prefix, ncol, out_from, j), "kind": "run", "src": " ".join(names) + "\n" + "\n".join(chunk) + "\n",
                              "sigs": [dict(s_) for s_ in sigs], "layout": outs, "table": [["1"] * len(outs), ["0"] * len(outs)], "echo": 0, "wdefault": j % 2,
                              "faults": [], "max": 400, "seed": 1})
        # bits groups of 63 / 64 columns
        sigs = [_sig(nm_, "I", 1) for nm_ in names]
        vals = ["5", "(-2)", "0x5555555555555555", "(1<<62)", "(1<<63)", "0x7FFFFFFFFFFFFFFE", "(-(1<<62))", "6148914691236517205", "(~5)"]
        for width in (63, 64):
            if width > ncol:
                continue
            rows = [" ".join(["bits(%d,%s)" % (width, v)] + ["0"] * (ncol - width)) for v in vals]
            cases.append({"id": "%s-w64-bits-%d-%d" % (prefix, ncol, width), "kind": "run", "src": " ".join(names) + "\n" + "\n".join(rows) + "\n",
                          "sigs": [dict(s_) for s_ in sigs], "layout": [], "table": [[]], "echo": 0, "wdefault": 0, "faults": [], "max": 400, "seed": 1})
            cases.append({"id": "%s-w64-bits-%d-%d-s" % (prefix, ncol, width), "kind": "static", "src": " ".join(names) + "\n" + "\n".join(rows) + "\n",
                          "sigs": [dict(s_) for s_ in sigs], "layout": [], "table": [[]], "echo": 0, "wdefault": 0, "faults": [], "max": 400, "seed": 1})
    return cases


def degenerate_list_cases(prefix):
    """signal lists with only inputs / only outputs / one signal, programs with loops and variables, drivers that report
    nothing, or that report pins the test does not know (and then deviate), declared signals that read no output
    (constant, failing, drawing) with a driver that answers with an empty list"""
    cases = []
    progs = [
        ["let v = 3;", "loop(i,3)", "(i+v) 1", "end loop", "(v) 0", "repeat(2) (n) 1"],
        ["let w = 0;", "while(w < 3)", "(w) C", "let w = w + 1;", "end while", "X 1"],
    ]
    for pi, body in enumerate(progs):
        sigs = [_sig("A", "I", 8), _sig("B", "I", 1)]
        for k, (lay, faults) in enumerate([([], []), ([], [(2, "add 0")]), ([], [(3, "add 1"), (5, "err 4")])]):
            for kind in ("run", "static"):
                if kind == "static" and faults:
                    continue
                cases.append({"id": "%s-ino-%d-%d-%s" % (prefix, pi, k, kind), "kind": kind, "src": "A B\n" + "\n".join(body) + "\n", "sigs": [dict(s_) for s_ in sigs],
                              "layout": lay, "table": [[]], "echo": 0, "wdefault": k % 2, "faults": faults, "cont": 1, "max": 60, "seed": 1})
    # only outputs
    sigs = [_sig("Q", "O", 4), _sig("R", "O", 4)]
    for k, lay in enumerate([[0, 1], [1], []]):
        cases.append({"id": "%s-outo-%d" % (prefix, k), "kind": "run", "src": "Q R\n1 2\nlet x = 4;\nloop(i,2)\n(i) (x)\nend loop\nX X\n", "sigs": [dict(s_) for s_ in sigs],
                      "layout": lay, "table": [["1"] * len(lay), ["2"] * len(lay)], "echo": 0, "wdefault": 0, "faults": [], "max": 60, "seed": 1})
    # declared signals that read no output, driver answers with an empty list (and static runs)
    decls = ["7", "3 + 4 * 2", "8 / (2 - 2)", "random(1000003)", "1 + random(1099511627776)", "ite(1, 5, 1/0)", "signExt(1,2)"]
    for di, d in enumerate(decls):
        for hdr, row in (("A V", "1 X"), ("A V", "1 7"), ("A", "1")):
            sigs = [_sig("A", "I", 4), _sig("Q", "O", 4)]
            for lay in ([], [1]):
                for kind in ("run", "static"):
                    cases.append({"id": "%s-cdecl-%d-%s-%d-%s" % (prefix, di, len(hdr), len(lay), kind), "kind": kind,
                                  "src": hdr + "\ndeclare V = " + d + ";\n" + row + "\n" + row + "\n" + row.replace("1", "2", 1) + "\n", "sigs": [dict(s_) for s_ in sigs],
                                  "layout": lay, "table": [["1"] * len(lay)], "echo": 0, "wdefault": 0, "faults": [], "cont": 1, "max": 30, "seed": 5 + di})
    return cases


def many_calls_cases(prefix):
    """more than 64 function calls in one test, parentheses / unary operators / ite nested 70 deep, 100 rows"""
    sigs = [_sig("A", "I", 64), _sig("Q", "O", 4)]
    mk = lambda i, body: {"id": "%s-many-%d" % (prefix, i), "kind": "run", "src": "A Q\n" + body + "\n", "sigs": [dict(s_) for s_ in sigs], "layout": [1],
                          "table": [["1"]], "echo": 0, "wdefault": 0, "faults": [], "max": 300, "seed": 1}
    cases = [mk(0, "\n".join("(ite(%d,%d,%d)) X" % (k % 2, k, k + 1) for k in range(100))),
             mk(1, "(" + "(" * 70 + "5" + ")" * 70 + ") X"),
             mk(2, "(" + "-~!" * 24 + "5) X"),
             mk(3, "(" + "ite(1," * 70 + "7" + ",0)" * 70 + ") X"),
             mk(4, "\n".join("let v%d = ite(1,%d,2) + ite(0,1,%d);" % (k, k, k) for k in range(40)) + "\n(v39) X"),
             mk(5, "(" + " + ".join("ite(%d,1,2)" % (k % 2) for k in range(80)) + ") X")]
    return cases


for _p in ("C05", "C10", "C11", "C02", "C01"):
    _extend(_p, (lambda pref: (lambda seed, tier: wide_boundary_cases(pref)))(_p.lower()),
            "plus headers of 64-70 columns with C / X around column 64, C columns 64 apart, bits(63/64, v) groups")
for _p in ("C10", "C13", "C14", "C15", "C02", "C18", "C17"):
    _extend(_p, (lambda pref: (lambda seed, tier: degenerate_list_cases(pref)))(_p.lower()),
            "plus degenerate signal lists (only inputs / only outputs), drivers that report nothing or unknown pins, declared signals that read no output")
for _p in ("C08", "C09", "C10", "C12"):
    _extend(_p, (lambda pref: (lambda seed, tier: [dict(c, kind=("parse" if pref in ("c09", "c12") else c["kind"])) for c in many_calls_cases(pref)]))(_p.lower()),
            "plus tests with 100 function calls, nesting 70 deep")
for _p in ("C13", "C14", "C15", "C18"):
    if "STATIC" not in PROPS[_p]["tags"]:
        PROPS[_p]["tags"] = tuple(PROPS[_p]["tags"]) + ("STATIC", "SROW")


def c17_many_draws(seed, tier):
    sigs = [_sig("A", "I", 64), _sig("Q", "O", 4)]
    cases = []
    for i, (a, b) in enumerate([(15, 17), (16, 16), (257, 1), (32, 16), (255, 1), (16, 17)] + ([(256, 256), (255, 257)] if tier != "quick" else [])):
        body = ["loop(i,%d)" % a, "loop(j,%d)" % b, "let t = random(1099511627776);", "end loop", "end loop", "(random(1099511627776)) X", "resetRandom;",
                "(random(1099511627776)) X", "(random(1099511627776)) X", "loop(i,%d)" % (a * b - 2), "let t = random(1099511627776);", "end loop",
                "(random(1099511627776)) X", "resetRandom;", "(random(1099511627776)) X"]
        cases.append({"id": "c17-draws-%d" % i, "kind": "run" if i % 2 else "static", "src": "A Q\n" + "\n".join(body) + "\n", "sigs": [dict(s_) for s_ in sigs], "layout": [1],
                      "table": [["1"]], "echo": 0, "wdefault": 0, "faults": [], "max": 50, "seed": 77 + i, "fuel": 400000})
    return cases


_extend("C17", c17_many_draws, "plus resets after exactly 255 / 256 / 257 / 512 draws")


# every comparison that looks at END also looks at what two more next() calls after None give (AFTER none none calls=0)
for _p in PROPS:
    if "END" in PROPS[_p].get("tags", ()) and "AFTER" not in PROPS[_p]["tags"]:
        PROPS[_p]["tags"] = tuple(PROPS[_p]["tags"]) + ("AFTER",)


def after_none_oracle(case, trace):
    for t, r in trace:
        if t == "AFTER" and r.strip() != "none none calls=0":
            yield "next() after None did not stay None without driver calls: %s" % r.strip()


for _p in ("C02", "C10", "C01"):
    PROPS[_p]["oracles"] = list(PROPS[_p]["oracles"]) + [after_none_oracle]


# ------------------------------------------------------------------ round 5, second part
def trailing_while_cases(prefix):
    """the LAST statement is a while whose condition draws: once the condition was 0 and next() returned None, nothing is
    evaluated any more (no re-test of the condition, no draw, no row); and loops / whiles with an EMPTY body whose bound
    or condition draws: the bound is evaluated (one draw) although there is nothing to repeat"""
    sigs = [_sig("A", "I", 64), _sig("Q", "O", 4)]
    cases = []
    progs = [["1 X", "while(random(3)-1)", "2 X", "end while"],
             ["let k = 0;", "while(random(4)>1)", "(k) X", "let k = k + 1;", "end while"],
             ["loop(i,2)", "(i) X", "end loop", "while(random(3)-1)", "end while"],
             ["(random(1099511627776)) X", "loop(i,random(7))", "end loop", "(random(1099511627776)) X", "resetRandom;", "(random(1099511627776)) X", "(random(1099511627776)) X", "(random(1099511627776)) X"],
             ["(random(1099511627776)) X", "loop(i,random(5))", "# nothing", "", "end loop", "while(random(2)-1)", "end while", "(random(1099511627776)) X", "resetRandom;", "(random(1099511627776)) X"],
             ["loop(i,3)", "loop(j,random(6))", "end loop", "(random(1000003)) X", "end loop"]]
    for i, body in enumerate(progs):
        for sd in range(6):
            cases.append({"id": "%s-tw-%d-%d" % (prefix, i, sd), "kind": "run" if sd % 3 else "static", "src": "A Q\n" + "\n".join(body) + "\n", "sigs": [dict(s_) for s_ in sigs],
                          "layout": [1], "table": [["1"]], "echo": 0, "wdefault": 0, "faults": [], "max": 200, "seed": 1000 + 17 * sd + i})
    return cases


for _p in ("C02", "C17", "C01"):
    _extend(_p, (lambda pref: (lambda seed, tier: trailing_while_cases(pref)))(_p.lower()),
            "plus programs that end in a while whose condition draws (nothing is evaluated after None) and empty-bodied loops whose bound draws")


def c04_described_differently(seed, tier):
    """the driver's FIRST answer describes a pin the program reads with another width: that is not the test's signal, so the
    read output is missing and the constructor must refuse"""
    out = []
    rng = random.Random(seed ^ 0x0D1F)
    for c in PROPS_C04_BASE(seed, "quick")[:400]:
        if c.get("kind") != "run" or not c.get("layout"):
            continue
        if rng.random() < 0.25:
            out.append(dict(c, id=c["id"] + "-wd0", faults=[(0, "widen %d" % rng.randrange(0, len(c["layout"])))]))
    return out


PROPS_C04_BASE = _c04b
_extend("C04", c04_described_differently, "plus drivers whose first answer describes a read pin with another width")
PROPS["C06"]["cases"] = static_twins(PROPS["C06"]["cases"], 4)
if "STATIC" not in PROPS["C06"]["tags"]:
    PROPS["C06"]["tags"] = tuple(PROPS["C06"]["tags"]) + ("STATIC", "SROW")


def c10_almost_valid(seed, tier):
    """programs that must be REJECTED (the grammar-breaking edits of C12), as whole runs: if one of them is accepted after all, it is run"""
    rng = random.Random(seed ^ 0xA1A1)
    out = []
    n = 25 if tier == "quick" else 1500
    for i in range(n):
        c = gen.gen_run_case("c10-av-%d" % i, (seed * 7723 + i) & 0x7FFFFFFF, {"declare": 0.2, "maxdepth": 2, "budget": 10, "random": 0.2})
        for j, (t, what) in enumerate(breaking_edits(rng, c["src"])):
            if j % 4 == i % 4 or what.startswith(("wrong number", "unknown function", "malformed statement inside")):
                out.append(dict(c, id="%s-e%d" % (c["id"], j), src=t))
        # calls with too few / too many arguments in the positions where they would be evaluated
        for k_, call in enumerate(["ite(1,2)", "ite(1,2,3,4)", "random()", "random(4,5)", "signExt(1)"]):
            if (i + k_) % 5 == 0:
                out.append(dict(c, id="%s-ar%d" % (c["id"], k_), src=c["src"].rstrip("\r\n") + "\nlet ar = %s;\nloop(zq,%s)\nend loop\n" % (call, call)))
    return out


_extend("C10", c10_almost_valid, "plus programs that must be rejected (C12's edits), run if they are accepted")


# C07: more than 64 signals in the LIST (the header names a few): per-signal data is looked up by signal, never through a 64-bit set
def c07_many_signals(seed, tier):
    cases = []
    vals = ["(-1)", "255", "0x1F0", "(~0)", "(1<<63)", "17", "(-2)"]
    for n in (64, 65, 70, 130):
        sigs = [_sig("s%d" % k, "I" if k % 2 == 0 else "O", 4) for k in range(n)]
        for pick in ([0, 1, n - 2, n - 1], [62, 63, n - 2, n - 1], [n - 4, n - 3, n - 2, n - 1]):
            pick = sorted(set(k for k in pick if 0 <= k < n))
            hdr = " ".join("s%d" % k for k in pick)
            rows = [" ".join([v] * len(pick)) for v in vals]
            outs = [k for k in pick if k % 2 == 1]
            for kind in ("run", "static"):
                cases.append({"id": "c07-many-%d-%d-%s" % (n, pick[0], kind), "kind": kind, "src": hdr + "\n" + "\n".join(rows) + "\n", "sigs": [dict(s_) for s_ in sigs],
                              "layout": outs, "table": [["1"] * len(outs)], "echo": 0, "wdefault": 0, "faults": [], "max": 100, "seed": 1})
    return cases


_extend("C07", c07_many_signals, "plus signal lists of 64-130 signals of which the header names a few (out-of-range values on narrow signals at list positions >= 64)")
_extend("C06", c07_many_signals, "plus signal lists of 64-130 signals")
# C09 / C12: hundreds of blank lines before the header
_extend("C09", lambda seed, tier: [{"id": "c09-lead-%d" % n, "kind": "parse", "src": "\n" * n + "A Q\n1 X\n", "text_kind": "lead-blank"} for n in (300, 900, 2500, 6000)],
        "plus texts with up to 6000 blank lines before the header")


# C10: thousands of passes through a loop / while that yields no row (one next() call works through all of them)
def long_silent_loops(prefix):
    sigs = [_sig("A", "I", 32), _sig("Q", "O", 4)]
    cases = []
    for i, body in enumerate([["let w = 0;", "while(w < 3000)", "let w = w + 1;", "end while", "(w) X"],
                              ["let s = 0;", "loop(i,5000)", "let s = s + i;", "end loop", "(s) X"],
                              ["let s = 0;", "loop(i,70)", "loop(j,70)", "let s = s + 1;", "end loop", "end loop", "(s) X", "while(s > 0)", "let s = s - 1;", "end while", "(s) X"],
                              ["1 X", "let w = 0;", "while(w < 20000)", "let w = w + 1;", "end while", "2 X"],
                              ["1 X", "let w = 0;", "while(w < 400000)", "let w = w + 1;", "end while", "(w) X"],
                              ["let s = 0;", "loop(i,300000)", "let s = s + 1;", "end loop", "(s) X"]]):
        for kind in ("run", "static"):
            cases.append({"id": "%s-silent-%d-%s" % (prefix, i, kind), "kind": kind, "src": "A Q\n" + "\n".join(body) + "\n", "sigs": [dict(s_) for s_ in sigs],
                          "layout": [1], "table": [["1"]], "echo": 0, "wdefault": 0, "faults": [], "max": 20, "seed": 1, "fuel": 400000 if i < 4 else 3000000})
    return cases


for _p in ("C10", "C01"):
    _extend(_p, (lambda pref: (lambda seed, tier: long_silent_loops(pref)))(_p.lower()), "plus loops / whiles with 3000-20000 passes that yield no row")


# ------------------------------------------------------------------ round 6 items
def c07_clock_and_described(seed, tier):
    """(a) a column that holds a C in one row and out-of-range numbers in other rows (every entry is reduced on its own);
    (b) a driver whose first answer describes the output with another width (the expected values are reduced with the
    TEST's width)"""
    cases = []
    for w in (1, 2, 4, 8, 31, 32, 33, 63):
        sigs = [_sig("CLK", "I", w), _sig("D", "I", w), _sig("Q", "O", w)]
        rows = ["C 1 X", "(-1) (-1) (-1)", "0x1FF 0x1FF 0x1FF", "C (1<<%d) X" % min(w, 62), "(3<<%d) 7 (3<<%d)" % (max(w - 1, 0), max(w - 1, 0)), "C 0 X"]
        loop = ["loop(i,5)", "(i) (i*3) (i*5)", "end loop"]
        for k, faults in enumerate([[], [(0, "widen 0")], [(1, "widen 0")]]):
            cases.append({"id": "c07-clk-%d-%d" % (w, k), "kind": "run", "src": "CLK D Q\n" + "\n".join(rows + loop) + "\n", "sigs": [dict(s_) for s_ in sigs],
                          "layout": [2], "table": [["1"], ["0"]], "echo": 0, "wdefault": k % 2, "faults": faults, "cont": 1, "max": 100, "seed": 1})
    return cases


_extend("C07", c07_clock_and_described, "plus columns that hold a C in one row and out-of-range numbers in others; drivers that describe the output with another width")
_extend("C09", lambda seed, tier: [dict(c, kind="parse") for c in wide_boundary_cases("c09")], "plus headers of 64-70 columns with C / X around column 64 (parse)")


def c16_dupname_cases(seed, tier):
    """.dig documents in which several tests have the SAME label (or none) and a later one of them is broken: load_test(i)
    parses test i and its error carries the source of test i (it must be renderable), load_test_by_name gives the first"""
    import gen_dig
    rng = random.Random(seed ^ 0xD0B1)
    out = []
    n = 40 if tier == "quick" else 1500
    tries = 0
    while len(out) < n and tries < 20 * n:
        tries += 1
        r2 = random.Random(rng.randrange(1 << 30))
        desc = gen_dig.gen_desc(r2, r2.choice([0.0, 0.2, 0.5]))
        tests = [it for it in desc["items"] if it["k"] == "test"]
        if len(tests) < 2:
            continue
        lab = r2.choice(["same", None, "", "t"])
        for t in tests:
            t["label"] = lab
        broken = tests[r2.randrange(1, len(tests))]
        src = (broken["source"] or "").rstrip("\r\n")
        if not src.strip():
            continue
        broken["source"] = src + "\n" + r2.choice(["loop(i,2)", "let q = (1 +", "while(1)", "1 $ 1", "bits(70,1)"]) + r2.choice(["", "\n", "  \n ", "\n\n"])
        root = gen_dig.desc_tree(r2, desc)
        nodes = gen_dig.top_level(r2, root, 0.0)
        st = gen_dig.style(r2, 0.0)
        try:
            c = gen_dig.make_case("c16-dup-%d-%d" % (seed & 0xFFFF, len(out)), r2, nodes, st, "desc", {"desc": desc, "features": ["dupname"]})
        except AssertionError:
            continue
        out.append(c)
    return out


_extend("C16", c16_dupname_cases, "plus documents whose tests share one label (or have none) with a later one broken at its end")
_extend("C09", lambda seed, tier: [dict(c, id="c09-" + c["id"]) for c in c16_dupname_cases(seed, tier)], "plus .dig documents with equally named tests, a later one broken")


for _p in ("C10", "C05", "C20", "C08", "C02"):
    _extend(_p, (lambda pref: (lambda seed, tier: more_name_cases(pref)))(_p.lower()), "plus the name shapes (B next to an input B_out, two C in a row, names that spell an expression)")


# ------------------------------------------------------------------ round 7 additions

def c14_loop_shadow_cases(seed, tier):
    """a declared signal reads the OUTPUT of a name that is, at that row, a variable of a LOOP frame: the loop's own counter,
    the implicit n of repeat, a let inside the body, two levels deep - never the variable (C14: blind to variables)"""
    cases = []
    k = 0
    for oname, prog in [
        ("n", ["repeat(3) (n) X X"]),
        ("n", ["loop(i,2)", "repeat(2) (n+i) X X", "end loop"]),
        ("i", ["loop(i,3)", "(i) X X", "end loop"]),
        ("Q", ["loop(Q,3)", "(Q) X X", "end loop"]),
        ("Q", ["loop(i,3)", "let Q = 50 + i;", "(Q) X X", "end loop", "(1) X X"]),
        ("Q", ["let Q = 9;", "loop(i,2)", "(i) X X", "let Q = 60;", "(i) X X", "end loop", "(Q) X X"]),
        ("Q", ["loop(i,2)", "loop(j,2)", "let Q = 70 + j;", "(Q) X X", "end loop", "(i) X X", "end loop"]),
        ("Q", ["let w = 0;", "while(w < 2)", "let Q = 80 + w;", "(Q) X X", "let w = w + 1;", "end while", "(Q) X X"]),
        ("j", ["loop(i,2)", "loop(j,2)", "(i+j) X X", "end loop", "end loop"]),
        ("Q", ["loop(Q,Q+1)", "(Q) X X", "end loop"]),
        ("n", ["repeat(n) (n) X X"]),
        ("n", ["loop(i,2)", "repeat(n-5) (n+i) X X", "end loop"]),
    ]:
        prog = prog + (["(1) X X", "(2) X X"] if not prog[-1].startswith("(") else ["(3) X X"])
        for decl in ("%s + 100" % oname, "%s" % oname, "ite(%s > 5, %s, 0 - %s)" % (oname, oname, oname)):
            for vcol in (True, False):
                sigs = [{"name": "A", "typ": "I", "bits": 8, "default": "0"}, {"name": oname, "typ": "O", "bits": 8, "default": "-"},
                        {"name": "R", "typ": "O", "bits": 8, "default": "-"}]
                hdr = "A %s R" % oname + (" V" if vcol else "")
                tail = " X" if vcol else ""
                lines = [hdr, "declare V = %s;" % decl] + [l + tail if l.endswith("X X") else l for l in prog]
                table = [[str(7 + 3 * r_), str(200 + r_)] for r_ in range(12)]
                cases.append({"id": "c14-loopshadow-%d" % k, "kind": "run", "src": "\n".join(lines) + "\n", "sigs": sigs, "layout": [1, 2], "table": table,
                              "echo": 0, "wdefault": k % 2, "faults": [], "max": 40, "seed": 1 + k, "cont": 0})
                k += 1
    return cases


_extend("C14", c14_loop_shadow_cases, "plus fixed shapes: the declared signal reads an output whose name is, at that row, a variable of a loop frame (loop counter, n of repeat, let in the body, nested)")
_extend("C04", c14_loop_shadow_cases, "plus the loop-frame shadowing shapes of C14")


def c11_virtual_clash_cases(seed, tier):
    """a declared (virtual) name that is also the name of a device signal, in or not in the header, declared at top level or
    inside a loop; the device signal an input, an output or bidirectional, before or after the others"""
    cases = []
    k = 0
    for in_header in (True, False):
        for typ in ("I", "O", "B"):
            for pos in (0, 2):
                for inner in (False, True):
                    sigs = [{"name": "A", "typ": "I", "bits": 1, "default": "0"}, {"name": "Q", "typ": "O", "bits": 8, "default": "-"}]
                    sigs.insert(pos, {"name": "V", "typ": typ, "bits": 8, "default": "-" if typ == "O" else "0"})
                    hdr = "A Q" + (" V" if in_header else "")
                    decl = ["loop(i,1)", "declare V = Q + 1;", "end loop"] if inner else ["declare V = Q + 1;"]
                    row = "1 X" + (" X" if in_header else "")
                    cases.append({"id": "c11-vclash-%d" % k, "kind": "run", "src": "\n".join([hdr] + decl + [row]) + "\n", "sigs": sigs, "layout": [1], "table": [["3"]],
                                  "echo": 0, "wdefault": 0, "faults": [], "max": 10, "seed": 1, "c11": "declared name V is also a device signal"})
                    k += 1
    # control: the same without the device signal binds
    cases.append({"id": "c11-vclash-control", "kind": "run", "src": "A Q\ndeclare V = Q + 1;\n1 X\n",
                  "sigs": [{"name": "A", "typ": "I", "bits": 1, "default": "0"}, {"name": "Q", "typ": "O", "bits": 8, "default": "-"}], "layout": [1], "table": [["3"]],
                  "echo": 0, "wdefault": 0, "faults": [], "max": 10, "seed": 1, "c11": "intact"})
    return cases


_extend("C11", c11_virtual_clash_cases, "plus fixed shapes: a declared name that is also a device signal (in / not in the header, every direction, declared inside a loop)")


def c10_many_x_cases(seed, tier):
    """rows with 60-70 don't-care inputs (2^60.. rows: the first few are asked for), with and without a clock"""
    cases = []
    for k, nx in enumerate([60, 63, 64, 65, 70]):
        for clock in (False, True):
            sigs = [{"name": "I%d" % i, "typ": "I", "bits": 1, "default": "0"} for i in range(nx)] + [{"name": "K", "typ": "I", "bits": 1, "default": "0"},
                                                                                                    {"name": "Q", "typ": "O", "bits": 8, "default": "-"}]
            hdr = " ".join(s_["name"] for s_ in sigs)
            row = " ".join(["X"] * nx + ["C" if clock else "1", "X"])
            cases.append({"id": "c10-manyx-%d-%d" % (nx, clock), "kind": "run", "src": hdr + "\n" + row + "\n" + row + "\n", "sigs": sigs, "layout": [nx + 1], "table": [["1"]],
                          "echo": 0, "wdefault": k % 2, "faults": [], "max": 9, "seed": 1, "cont": 0})
            cases.append({"id": "c10-manyx-%d-%d-s" % (nx, clock), "kind": "static", "src": hdr + "\n" + row + "\n", "sigs": sigs, "layout": [], "table": [],
                          "echo": 0, "wdefault": 0, "faults": [], "max": 9, "seed": 1, "cont": 0})
    return cases


for _p in ("C10", "C05"):
    _extend(_p, c10_many_x_cases, "plus rows with 60-70 don't-care inputs (only the first items are asked for)")


def c05_declared_reads_cases(seed, tier):
    """expansions (X on inputs, C) in tests with a declared signal that reads an output the device changes on every call:
    each expanded row's declared value comes from THAT row's answer"""
    cases = []
    rng = random.Random(seed ^ 0x5D)
    for k in range(24 if tier == "quick" else 600):
        nx = rng.randrange(1, 4)
        clock = rng.random() < 0.5
        sigs = [{"name": "I%d" % i, "typ": "I", "bits": 1, "default": "0"} for i in range(nx)] + [{"name": "K", "typ": "I", "bits": 1, "default": "0"},
                                                                                                {"name": "Q", "typ": "O", "bits": 8, "default": "-"}]
        vcol = rng.random() < 0.7
        hdr = " ".join(s_["name"] for s_ in sigs) + (" V" if vcol else "")
        rows = []
        for _ in range(rng.randrange(1, 4)):
            ent = [rng.choice(["X", "X", "0", "1"]) for _ in range(nx)] + ["C" if clock and rng.random() < 0.7 else rng.choice(["0", "1"]), rng.choice(["X", "(Q)", "X"])]
            rows.append(" ".join(ent + (["X"] if vcol else [])))
        table = [[str(rng.randrange(0, 250))] for _ in range(40)]
        cases.append({"id": "c05-declreads-%d" % k, "kind": "run", "src": "\n".join([hdr, "declare V = Q + 1;"] + rows) + "\n", "sigs": sigs, "layout": [nx + 1], "table": table,
                      "echo": 0, "wdefault": k % 2, "faults": [], "max": 200, "seed": 1 + k, "cont": 0})
    return cases


_extend("C05", c05_declared_reads_cases, "plus expansions in tests whose declared signal reads an output that changes on every call")
_extend("C14", c05_declared_reads_cases, "plus the same expansions with a declared signal (C05)")


def c19_dup_rows_cases(seed, tier):
    """byte-identical rows (with and without parentheses) at several lines of the same block, of sibling blocks and after
    blank / comment lines, LF and CRLF: every row reports its OWN line"""
    cases = []
    sigs = [{"name": "A", "typ": "I", "bits": 8, "default": "0"}, {"name": "Q", "typ": "O", "bits": 8, "default": "-"}]
    rng = random.Random(seed ^ 0x19D)
    shapes = [
        ["A Q", "(1+2) X", "(1+2) X", "", "(1+2) X"],
        ["A Q", "let k = 1;", "(k) (k)", "(k) (k)", "# c", "(k) (k)", "7 X", "7 X"],
        ["", "", "A Q", "loop(i,2)", "(i) X", "(i) X", "end loop", "(i+0) X", "loop(i,2)", "(i) X", "end loop"],
        ["A Q", "repeat(2) (n) X", "repeat(2) (n) X", "", "", "repeat(2) (n) X"],
        ["A Q", "bits(8,3) ", "bits(8,3) ", "loop(j,1)", "bits(8,3) ", "end loop", "bits(8,3) "],
        ["A Q", "(0x10) X # same", "(0x10) X # same", "   ", "(0x10) X # same"],
    ]
    k = 0
    for sh in shapes:
        for eol in ("\n", "\r\n"):
            for final in (True, False):
                lines = [l if not l.startswith("bits") else l + "X" for l in sh]
                # bits(8,3) fills all 8 bits of A? no: A has 8 bits, bits(8,3) is ONE group of eight 1-bit entries - use a plain header for it
                if any(l.startswith("bits") for l in sh):
                    continue
                src = eol.join(lines) + (eol if final else "")
                cases.append({"id": "c19-duprows-%d" % k, "kind": "run", "src": src, "sigs": sigs, "layout": [1], "table": [[str(rng.randrange(0, 9))]],
                              "echo": 0, "wdefault": 0, "faults": [], "max": 60, "seed": 1 + k, "cont": 0})
                k += 1
    return cases


for _p in ("C19", "C20"):
    _extend(_p, c19_dup_rows_cases, "plus byte-identical rows at several lines of one block / of sibling blocks (every row reports its own line)")


# C03: what a caller sees for a bidirectional pin must not depend on which test of a .dig file was loaded
_c03_base2 = PROPS["C03"]["cases"]
def c03_dig_cases(seed, tier):
    """documents with two or more tests of which only some use <pin>_out for a pin (it is bidirectional for ALL of them)"""
    want = 25 if tier == "quick" else 300
    out = []
    for c in _gen_dig.cases((seed ^ 0xC03) & 0xFFFFFF, 30 * want, 0, 0):
        desc = c.get("c16", {}).get("desc")
        if "tree" not in c or c.get("no_model") or not desc:
            continue
        ins = set(it["label"] for it in desc["items"] if it["k"] == "pin" and it["elem"] in ("In", "Clock") and it["label"])
        uses = []
        for it in desc["items"]:
            if it["k"] == "test":
                first = next((l.split() for l in (it["source"] or "").split("\n") if l.split()), [])
                uses.append(frozenset(n for n in first if n.endswith("_out") and n[:-4] in ins))
        if len(uses) >= 2 and len(set(uses)) >= 2:
            out.append(dict(c, id="c03-" + c["id"]))
            if len(out) >= want:
                break
    return out


PROPS["C03"]["cases"] = lambda seed, tier: _c03_base2(seed, tier) + c03_dig_cases(seed, tier)
PROPS["C03"]["oracles"] = PROPS["C03"]["oracles"] + [_f16.c16_load_oracle]
PROPS["C03"]["rule"] += "; plus .dig documents (several tests per file, only some of them using <pin>_out): load_test(i) = from_str(source i) bound to the FILE's signals"


def c18_reset_in_loop_cases(seed, tier):
    """resetRandom executed inside loop / repeat / while bodies, with outer bindings shadowed in the body and used after it:
    a reset re-seeds the generator and leaves every frame as it is"""
    cases = []
    sigs = [{"name": "A", "typ": "I", "bits": 16, "default": "0"}, {"name": "Q", "typ": "O", "bits": 8, "default": "-"}]
    shapes = [
        ["let a = 5;", "loop(i,2)", "let a = a + 10;", "resetRandom;", "(a+i) X", "end loop", "(a) X"],
        ["let a = 5;", "let b = 7;", "loop(i,2)", "loop(j,2)", "let b = j;", "resetRandom;", "(a+b+i) X", "end loop", "(b) X", "end loop", "(a+b) X"],
        ["let a = 1;", "loop(i,3)", "resetRandom;", "end loop", "(a) X", "loop(k,1)", "(a+k) X", "end loop"],
        ["let w = 0;", "let a = 3;", "loop(i,2)", "while(w < 2)", "let w = w + 1;", "resetRandom;", "(w+a) X", "end while", "let w = 0;", "end loop", "(w) X", "(a) X"],
        ["let a = 2;", "loop(i,2)", "let a = random(5) + 10;", "resetRandom;", "let c = random(5);", "(a+c) X", "end loop", "(a) X"],
        ["let n = 40;", "loop(i,2)", "resetRandom;", "repeat(2) (n+i) X", "end loop", "(n) X"],
    ]
    for k, sh in enumerate(shapes):
        for cont in (0, 1):
            cases.append({"id": "c18-resetloop-%d-%d" % (k, cont), "kind": "run", "src": "\n".join(["A Q"] + sh) + "\n", "sigs": sigs, "layout": [1], "table": [["1"]],
                          "echo": 0, "wdefault": k % 2, "faults": [], "max": 60, "seed": 3 + k, "cont": cont})
    return cases


for _p in ("C18", "C01", "C17"):
    _extend(_p, c18_reset_in_loop_cases, "plus resetRandom executed inside loop / repeat / while bodies with shadowed outer bindings")


def _equal_valued_twins(prop):
    """copies of the fault cases whose deviation is a swap / substitution, with a driver that reports the SAME value for
    every output on every call: the deviating answer then has the value vector of the answer before it (only the
    signals differ), and it is still a deviation"""
    base = PROPS[prop]["cases"]
    def f(seed, tier):
        cases = base(seed, tier)
        rng = random.Random(seed ^ 0xE9A1)
        out = []
        for c in cases:
            if c.get("kind") == "run" and c.get("layout") and any(what.split()[0] in ("swap", "subst", "swapsig") for _, what in c.get("faults", [])) and "declare" not in c.get("src", ""):
                v = rng.choice(["1", "0", "3", "1"])
                out.append(dict(c, id=c["id"] + "-eqv", table=[[v] * len(c["layout"])]))
                if len(out) >= (40 if tier == "quick" else 1500):
                    break
        return cases + out
    PROPS[prop]["cases"] = f
    PROPS[prop]["rule"] += "; plus equal-valued twins of the swap / substitution cases (the deviating answer has the value vector of the answer before it)"


_equal_valued_twins("C13")
_equal_valued_twins("C03")


# ------------------------------------------------------------------ round 8 anticipations
def huge_header_cases(prefix):
    """256-300 columns / signals (one byte is not enough for a column index), names of 300 bytes, with a far duplicate,
    with X / C in the last columns, run and static"""
    cases = []
    for n in (255, 256, 257, 300):
        names = ["s%d" % i for i in range(n)]
        sigs = [{"name": nm_, "typ": "I" if i % 3 else "O", "bits": 1 + i % 8, "default": "0" if i % 3 else "-"} for i, nm_ in enumerate(names)]
        row1 = " ".join(("1" if i % 3 else "X") for i in range(n))
        row2 = " ".join((("X" if i == n - 2 else "C" if i == n - 1 and (n - 1) % 3 else "0") if i % 3 else "X") for i in range(n))
        lay = [i for i in range(n) if i % 3 == 0]
        src = " ".join(names) + "\n" + row1 + "\n" + row2 + "\n"
        cases.append({"id": "%s-huge-%d" % (prefix, n), "kind": "run", "src": src, "sigs": sigs, "layout": lay, "table": [[str(i % 2) for i in lay]],
                      "echo": 0, "wdefault": n % 2, "faults": [], "max": 12, "seed": n, "cont": 0})
        cases.append({"id": "%s-huge-%d-s" % (prefix, n), "kind": "static", "src": src, "sigs": sigs, "layout": [], "table": [], "echo": 0, "wdefault": 0, "faults": [], "max": 12, "seed": n})
        dup = list(names)
        dup[n - 1] = names[n - 256] if n > 256 else names[0]
        cases.append({"id": "%s-huge-%d-dup" % (prefix, n), "kind": "parse", "src": " ".join(dup) + "\n" + row1 + "\n"})
    # a driver whose answers have 270 entries (a position does not fit in a byte), in reverse order, some of them unknown to the test
    n = 300
    names = ["o%d" % i for i in range(n)]
    sigs = [{"name": nm_, "typ": "I" if i % 10 == 0 else "O", "bits": 4, "default": "0" if i % 10 == 0 else "-"} for i, nm_ in enumerate(names)]
    lay = [i for i in reversed(range(n)) if i % 10]
    row = " ".join(("1" if i % 10 == 0 else ("X" if i % 4 else str(i % 16))) for i in range(n))
    cases.append({"id": "%s-huge-out-300" % prefix, "kind": "run", "src": " ".join(names) + "\n" + row + "\n" + row + "\n", "sigs": sigs, "layout": lay,
                  "table": [[str(i % 16) for i in lay], [str((i + 1) % 16) for i in lay]], "echo": 0, "wdefault": 0, "faults": [], "max": 6, "seed": 7, "cont": 0})
    long_a, long_b = "N" * 300, "N" * 299 + "M"
    sigs = [{"name": long_a, "typ": "I", "bits": 4, "default": "0"}, {"name": long_b, "typ": "O", "bits": 4, "default": "-"}]
    cases.append({"id": "%s-longnames" % prefix, "kind": "run", "src": "%s %s\n3 (%s)\n(%s+1) X\n" % (long_a, long_b, long_b, long_b), "sigs": sigs, "layout": [1], "table": [["5"]],
                  "echo": 0, "wdefault": 0, "faults": [], "max": 12, "seed": 3, "cont": 0})
    cases.append({"id": "%s-longnames-dup" % prefix, "kind": "parse", "src": "%s %s %s\n1 1 1\n" % (long_a, long_b, long_a)})
    return cases


for _p in ("C06", "C09", "C10", "C11", "C12", "C05", "C03", "C13"):
    _extend(_p, (lambda pref: (lambda seed, tier: huge_header_cases(pref)))(_p.lower()), "plus headers of 255-300 columns (with a far duplicate; X / C in the last columns) and names of 300 bytes")


def c08_unary_chains(seed, tier):
    sigs = [{"name": "A", "typ": "I", "bits": 1, "default": "0"}, {"name": "Q", "typ": "O", "bits": 8, "default": "-"}]
    rng = random.Random(seed ^ 0x08C)
    lines, exp = ["A V", "declare V = Q;", "let x = 5;", "let m = %s;" % lit64(MIN64)[1:-1]], []
    env = {"x": 5, "m": MIN64}
    for k in range(60):
        ops = [rng.choice(["-", "!", "~"]) for _ in range(rng.randrange(2, 9))]
        atom = rng.choice([("var", "x"), ("var", "m"), ("num", 0), ("num", 1), ("num", 2 ** 63 - 1)])
        e = atom
        for o in reversed(ops):
            e = ("un", o, e)
        inner = "x" if atom == ("var", "x") else "m" if atom == ("var", "m") else str(atom[1])
        text = "".join(ops) + inner
        if k % 3 == 0:
            text = "".join(o + "(" for o in ops) + inner + ")" * len(ops)
        if k % 3 == 1:
            text = "((((" + text + "))))" + rng.choice([" + 0", " * 1", ""])
        lines.append("0 (%s)" % text)
        exp.append(py_eval(e, env))
    return [{"id": "c08-unary-chains", "kind": "run", "src": "\n".join(lines) + "\n", "sigs": sigs, "layout": [1], "table": [["1"]],
             "echo": 0, "wdefault": 0, "faults": [], "max": 100000, "seed": 1, "c08": exp}]


_extend("C08", c08_unary_chains, "plus chains of 2-8 unary operators over variables and boundary literals, with nested parentheses")


def c08_algebra(seed, tier):
    """shapes that invite an "algebraic simplification" which is wrong in wrapping 64-bit arithmetic or under the C precedence:
    a leading unary operator before * / %, two operators with literal right operands in a row (x*L/M, x+L-M, x<<L>>M ...),
    ite with literal branches and a non-boolean condition, x op x, neutral / absorbing elements, double unary operators -
    each over pairs of boundary values; expected values from the Python oracle"""
    X, Y = ("var", "x"), ("var", "y")
    def n_(v):
        return ("num", v)
    def b_(op, l, r):
        return ("bin", op, l, r)
    def u_(op, e):
        return ("un", op, e)
    T = []
    for uop in ("-", "~", "!"):
        for op in ("*", "/", "%", "+", "-", "<<", ">>", "&", "|", "^", "<", "="):
            T.append(("%sx%sy" % (uop, op), b_(op, u_(uop, X), Y)))
    for (L, M) in [(2, 2), (8, 4), (6, 3), (4, 2), (3, 3), (10, 5), (2, 4), (1, 1), (63, 63), (3, 2), (64, 1), (7, 7)]:
        T.append(("x*%d/%d" % (L, M), b_("/", b_("*", X, n_(L)), n_(M))))
        T.append(("x*%d%%%d" % (L, M), b_("%", b_("*", X, n_(L)), n_(M))))
        T.append(("x/%d*%d" % (L, M), b_("*", b_("/", X, n_(L)), n_(M))))
        T.append(("x+%d-%d" % (L, M), b_("-", b_("+", X, n_(L)), n_(M))))
        T.append(("x-%d+%d" % (L, M), b_("+", b_("-", X, n_(L)), n_(M))))
        T.append(("x<<%d>>%d" % (L, M), b_(">>", b_("<<", X, n_(L)), n_(M))))
        T.append(("x>>%d<<%d" % (L, M), b_("<<", b_(">>", X, n_(L)), n_(M))))
        T.append(("x&%d|%d" % (L, M), b_("|", b_("&", X, n_(L)), n_(M))))
        T.append(("x|%d&%d" % (L, M), b_("|", X, b_("&", n_(L), n_(M)))))
        T.append(("x^%d^%d" % (L, M), b_("^", b_("^", X, n_(L)), n_(M))))
        T.append(("x*%d*%d" % (L, M), b_("*", b_("*", X, n_(L)), n_(M))))
    lits = [("0", 0), ("1", 1), ("2", 2), ("(0-1)", -1)]
    for ct, ca in [("x", X), ("x&4", b_("&", X, n_(4))), ("x-y", b_("-", X, Y)), ("!x", u_("!", X)), ("x=y", b_("=", X, Y))]:
        for (ta, va) in lits:
            for (tb, vb) in lits:
                ea = n_(va) if va >= 0 else b_("-", n_(0), n_(1))
                eb = n_(vb) if vb >= 0 else b_("-", n_(0), n_(1))
                T.append(("ite(%s,%s,%s)" % (ct, ta, tb), ("fn", "ite", [ca, ea, eb])))
    T.append(("ite(x,1,0)+ite(y,1,0)", b_("+", ("fn", "ite", [X, n_(1), n_(0)]), ("fn", "ite", [Y, n_(1), n_(0)]))))
    T.append(("ite(x,0,1)*ite(y,0,1)", b_("*", ("fn", "ite", [X, n_(0), n_(1)]), ("fn", "ite", [Y, n_(0), n_(1)]))))
    for op in gen.BINOPS:
        T.append(("x%sx" % op, b_(op, X, X)))
    M1 = b_("-", n_(0), n_(1))
    for (t_, e_) in [("x*0", b_("*", X, n_(0))), ("0*x", b_("*", n_(0), X)), ("x*1", b_("*", X, n_(1))), ("1*x", b_("*", n_(1), X)), ("x/1", b_("/", X, n_(1))),
                     ("x%1", b_("%", X, n_(1))), ("x+0", b_("+", X, n_(0))), ("0+x", b_("+", n_(0), X)), ("0-x", b_("-", n_(0), X)), ("x-0", b_("-", X, n_(0))),
                     ("x<<0", b_("<<", X, n_(0))), ("x>>0", b_(">>", X, n_(0))), ("x&0", b_("&", X, n_(0))), ("x|0", b_("|", X, n_(0))), ("x&(0-1)", b_("&", X, M1)),
                     ("x|(0-1)", b_("|", X, M1)), ("x*(0-1)", b_("*", X, M1)), ("x/(0-1)", b_("/", X, M1)), ("x%(0-1)", b_("%", X, M1)), ("x*2", b_("*", X, n_(2))),
                     ("x<<1", b_("<<", X, n_(1))), ("x/2", b_("/", X, n_(2))), ("x>>1", b_(">>", X, n_(1))), ("x%2", b_("%", X, n_(2))), ("x&1", b_("&", X, n_(1))),
                     ("x<<64", b_("<<", X, n_(64))), ("x>>64", b_(">>", X, n_(64))), ("x<<63>>63", b_(">>", b_("<<", X, n_(63)), n_(63))), ("x^(0-1)", b_("^", X, M1)),
                     ("--x", u_("-", u_("-", X))), ("!!x", u_("!", u_("!", X))), ("~~x", u_("~", u_("~", X))), ("-~x", u_("-", u_("~", X))), ("~-x", u_("~", u_("-", X))),
                     ("!-x", u_("!", u_("-", X))), ("-!x", u_("-", u_("!", X))), ("!!!x", u_("!", u_("!", u_("!", X)))), ("x=!!x", b_("=", X, u_("!", u_("!", X)))),
                     ("x+y-y", b_("-", b_("+", X, Y), Y)), ("x*y/y", b_("/", b_("*", X, Y), Y)), ("x-y+y", b_("+", b_("-", X, Y), Y)), ("x/y*y+x%y", b_("+", b_("*", b_("/", X, Y), Y), b_("%", X, Y)))]:
        T.append((t_, e_))
    MAXI = 2 ** 63 - 1
    pairs = [(0, 1), (1, 0), (2, 3), (5, 2), (6, 4), (6, 6), (-1, 2), (-2, -1), (MAXI, 2), (MAXI, MAXI), (MIN64, 2), (MIN64, -1), (MIN64, 3), (MIN64, MIN64), (MIN64 + 1, 2),
             (1 << 62, 2), ((1 << 62) + 1, 4), (-(1 << 62), 3), (3, MIN64), (7, MAXI), (1 << 32, 1 << 31), ((1 << 31) - 1, 1 << 33), (-7, 2), (7, -2), (-7, -2), (4, 64), (4, 65), (9, 63)]
    if tier == "quick":
        rng = random.Random(seed ^ 0xA18)
        always = [p_ for p_ in pairs if MIN64 in p_ or MAXI in p_]
        rest = [p_ for p_ in pairs if p_ not in always]
        pairs = always + rest[:4] + rng.sample(rest[4:], 5)
    sigs = [{"name": "A", "typ": "I", "bits": 1, "default": "0"}, {"name": "Q", "typ": "O", "bits": 8, "default": "-"}]
    cases = []
    for k, (xv, yv) in enumerate(pairs):
        env = {"x": xv, "y": yv}
        lines = ["A V", "declare V = Q;", "let x = %s;" % (str(xv) if xv >= 0 else lit64(xv)[1:-1]), "let y = %s;" % (str(yv) if yv >= 0 else lit64(yv)[1:-1])]
        exp = []
        for (t_, e_) in T:
            try:
                v = py_eval(e_, env)
            except ZeroDivisionError:
                continue
            lines.append("0 (%s)" % t_)
            exp.append(v)
        cases.append({"id": "c08-alg-%d" % k, "kind": "run", "src": "\n".join(lines) + "\n", "sigs": sigs, "layout": [1], "table": [["1"]],
                      "echo": 0, "wdefault": 0, "faults": [], "max": 100000, "seed": 1, "c08": exp})
    return cases


_extend("C08", c08_algebra, "plus shapes that invite a wrong algebraic simplification (leading unary before * / %, x*L/M and the like, ite with literal branches, x op x, neutral elements, double unary) over pairs of boundary values")


def odd_width_cases(prefix):
    """signals of width 0 and of widths above 64 (65, 100, 255) next to ordinary ones, as inputs, outputs and bidirectional,
    with out-of-range / negative / boundary values, Z, C and X in the rows; run (both write_input variants) and static"""
    cases = []
    k = 0
    rows = ["1 5 X X", "(0-1) (0-1) (0-1) X", "0x1FF 0x7FFFFFFFFFFFFFFF 3 X", "Z 2 X X", "1 Z X (Q)", "C 7 X X", "X 1 X X", "(1<<63) (1<<63) (1<<63) X", "bits(2,3) X X"]
    loop = ["loop(i,3)", "(i) (i*3) (i) X", "end loop"]
    for wa in (0, 1, 65, 100, 255):
        for wq in (0, 8, 64, 65):
            sigs = [{"name": "A", "typ": "I", "bits": wa, "default": "0"}, {"name": "B", "typ": "B" if k % 2 else "I", "bits": 4 if wa else 0, "default": "Z" if k % 3 == 0 else "1"},
                    {"name": "Q", "typ": "O", "bits": wq, "default": "-"}, {"name": "R", "typ": "O", "bits": 65 if wq == 8 else 3, "default": "-"}]
            hdr = "A B Q R"
            src = hdr + "\n" + "\n".join(rows + loop) + "\n"
            table = [["3", "1"], ["255", "0"], ["-1", "7"], ["Z", "X"], ["9223372036854775807", "2"]]
            for kind in ("run", "static"):
                cases.append({"id": "%s-width-%d-%d-%s" % (prefix, wa, wq, kind), "kind": kind, "src": src if kind == "run" else src.replace("(Q)", "X"), "sigs": [dict(s_) for s_ in sigs],
                              "layout": [2, 3], "table": table, "echo": 0, "wdefault": k % 2, "faults": [], "max": 60, "seed": 1 + k, "cont": 1})
            k += 1
    return cases


for _p in ("C02", "C03", "C06", "C07", "C10", "C13"):
    _extend(_p, (lambda pref: (lambda seed, tier: odd_width_cases(pref)))(_p.lower()), "plus signals of width 0 and of widths 65 / 100 / 255 (inputs, outputs, bidirectional) with out-of-range values, Z, C, X")


def c14_round8_cases(seed, tier):
    """(a) the ONLY bindings of the program are inside while bodies, and shadow an output a declared signal reads;
    (b) a declared signal named <bidirectional>_out, in and not in the header; (c) a 64-bit output reporting i64::MIN,
    i64::MIN + 1, i64::MAX, -1 read by a declared signal and by row expressions"""
    cases = []
    k = 0
    for prog in (["while(!Q)", "let Q = 2;", "(Q) X X X", "end while", "(1) X X X"],
                 ["while(Q < 3)", "let Q = Q + 1;", "(Q) X X X", "end while"],
                 ["loop(i,1)", "while(!R)", "let R = 5;", "(R) X X X", "end while", "end loop", "(2) X X X"]):
        for decl in ("Q + R + 100", "ite(Q, 7, R)"):
            sigs = [{"name": "A", "typ": "I", "bits": 8, "default": "0"}, {"name": "Q", "typ": "O", "bits": 8, "default": "-"}, {"name": "R", "typ": "O", "bits": 8, "default": "-"}]
            cases.append({"id": "c14-whileonly-%d" % k, "kind": "run", "src": "\n".join(["A Q R V", "declare V = %s;" % decl] + prog) + "\n", "sigs": sigs, "layout": [1, 2],
                          "table": [["0", "0"]], "echo": 0, "wdefault": k % 2, "faults": [], "max": 30, "seed": 1 + k, "cont": 0})
            k += 1
    for in_hdr in (True, False):
        for typ in ("B", "I"):
            sigs = [{"name": "D", "typ": typ, "bits": 4, "default": "Z" if typ == "B" else "0"}, {"name": "Q", "typ": "O", "bits": 8, "default": "-"}]
            hdr = "D Q" + (" D_out" if in_hdr else "")
            rows = ["1 X" + (" 5" if in_hdr else ""), "Z X" + (" (Q+1)" if in_hdr else ""), "2 (Q)" + (" X" if in_hdr else "")]
            for lay in ([1], [0, 1]):
                cases.append({"id": "c14-declout-%d" % k, "kind": "run", "src": "\n".join([hdr, "declare D_out = Q + 1;"] + rows) + "\n", "sigs": [dict(s_) for s_ in sigs], "layout": lay,
                              "table": [["4"] * len(lay), ["9"] * len(lay)], "echo": 0, "wdefault": 0, "faults": [], "max": 30, "seed": 1 + k, "cont": 1})
                k += 1
    for v in (str(MIN64), str(MIN64 + 1), str(2 ** 63 - 1), "-1", str(MIN64 + 2)):
        sigs = [{"name": "A", "typ": "I", "bits": 64, "default": "0"}, {"name": "Q", "typ": "O", "bits": 64, "default": "-"}, {"name": "P", "typ": "B", "bits": 64, "default": "Z"}]
        src = "A Q P_out V W\ndeclare V = Q;\ndeclare W = P + 0;\n(Q) X X X X\nlet m = Q;\n(m+1) (Q) (P) (Q) (P)\n"
        cases.append({"id": "c14-min-%d" % k, "kind": "run", "src": src, "sigs": sigs, "layout": [1, 2], "table": [[v, v]], "echo": 0, "wdefault": 0, "faults": [], "max": 30, "seed": 1 + k, "cont": 1})
        k += 1
    return cases


for _p in ("C14", "C04", "C11"):
    _extend(_p, c14_round8_cases, "plus: bindings only inside while bodies that shadow an output a declared signal reads; a declared signal named <bidirectional>_out; 64-bit outputs reporting i64::MIN / MIN+1 / MAX / -1")


def c11_declare_in_loop_cases(seed, tier):
    """a declare INSIDE a loop / while body whose expression mentions a name that is a variable of an enclosing scope, the
    loop's own counter, a name bound later, an output, an input, or nothing at all: a declaration never sees variables"""
    cases = []
    k = 0
    for wrap in (["loop(i,2)", "%s", "end loop"], ["let w = 0;", "while(w < 1)", "%s", "let w = w + 1;", "end while"], ["loop(i,1)", "loop(j,1)", "%s", "end loop", "end loop"], ["%s"]):
        for nm_ in ("k", "i", "later", "Q", "A", "nosuch", "n"):
            body = [l if l != "%s" else "declare V = %s + 1;" % nm_ for l in wrap]
            src = "\n".join(["A Q V", "let k = 1;"] + body + ["let later = 2;", "1 X X", "repeat(2) 0 X X"]) + "\n"
            sigs = [{"name": "A", "typ": "I", "bits": 4, "default": "0"}, {"name": "Q", "typ": "O", "bits": 8, "default": "-"}]
            cases.append({"id": "c11-declloop-%d" % k, "kind": "run", "src": src, "sigs": sigs, "layout": [1], "table": [["3"]], "echo": 0, "wdefault": 0, "faults": [], "max": 20,
                          "seed": 1 + k, "cont": 0, "c11": "declare inside a block mentions %s" % nm_})
            cases.append({"id": "c11-declloop-%d-s" % k, "kind": "static", "src": src, "sigs": sigs, "layout": [], "table": [], "echo": 0, "wdefault": 0, "faults": [], "max": 20, "seed": 1 + k})
            k += 1
    return cases


for _p in ("C11", "C14", "C15"):
    _extend(_p, c11_declare_in_loop_cases, "plus declares inside loop / while bodies that mention enclosing variables, the loop counter, later bindings, outputs, inputs, unknown names (dynamic and static)")


def c07_z_then_wide_cases(seed, tier):
    """a row that releases one input (Z) and drives later inputs with numbers that do not fit, in every order of the signals"""
    cases = []
    k = 0
    import itertools
    for order in itertools.permutations(range(3)):
        names = ["A", "B", "C"]
        sigs_all = [{"name": "A", "typ": "I", "bits": 3, "default": "0"}, {"name": "B", "typ": "B", "bits": 4, "default": "Z"}, {"name": "C", "typ": "I", "bits": 2, "default": "1"}]
        sigs = [sigs_all[i] for i in order] + [{"name": "Q", "typ": "O", "bits": 5, "default": "-"}]
        for hdr_order in (["A", "B", "C", "Q"], ["C", "Q", "B", "A"]):
            rowvals = {"A": ["Z", "0xFF", "(0-1)", "Z"], "B": ["0x1F", "Z", "Z", "(1<<10)"], "C": ["7", "255", "Z", "Z"], "Q": ["X", "0xFFF", "(0-1)", "33"]}
            rows = [" ".join(rowvals[h][r] for h in hdr_order) for r in range(4)]
            cases.append({"id": "c07-zwide-%d" % k, "kind": "run", "src": " ".join(hdr_order) + "\n" + "\n".join(rows) + "\n", "sigs": [dict(s_) for s_ in sigs], "layout": [3], "table": [["31"]],
                          "echo": 0, "wdefault": k % 2, "faults": [], "max": 20, "seed": 1 + k, "cont": 0})
            cases.append({"id": "c07-zwide-%d-s" % k, "kind": "static", "src": " ".join(hdr_order) + "\n" + "\n".join(rows) + "\n", "sigs": [dict(s_) for s_ in sigs], "layout": [], "table": [],
                          "echo": 0, "wdefault": 0, "faults": [], "max": 20, "seed": 1 + k})
            k += 1
    return cases


_extend("C07", c07_z_then_wide_cases, "plus rows that release one input (Z) and drive later ones with numbers that do not fit, in every signal order")
_extend("C18", c14_loop_shadow_cases, "plus loops whose counter / n / body lets are named like an output pin (vars() after the loop)")
_extend("C03", (lambda seed, tier: degenerate_list_cases("c03")), "plus degenerate signal lists (only outputs, only inputs, one signal)")


def c01_unary_bound_cases(seed, tier):
    """loop bounds, repeat counts, while conditions and bits values that are chains of unary operators over values outside {0,1}"""
    cases = []
    sigs = [{"name": "A", "typ": "I", "bits": 16, "default": "0"}, {"name": "Q", "typ": "O", "bits": 8, "default": "-"}]
    for k, (kv, e) in enumerate([(6, "!!k"), (6, "--k"), (6, "~~k"), (0, "!k"), (5, "!!!k+2"), (3, "-~k"), (2, "~-k+4"), (7, "!!k+!!k"), (-3, "--k+5"), (4, "!!(k-4)+1")]):
        prog = ["let k = %s;" % (str(kv) if kv >= 0 else "0-%d" % -kv), "loop(i,%s)" % e, "(i) X", "end loop", "repeat(%s) (n+10) X" % e, "let w = 0;", "while((w < %s) & !!k | 0)" % e,
                "(w+20) X", "let w = w + 1;", "let k = k * !!k;", "end while", "bits(1,%s) X" % e, "(%s) X" % e]
        for cont in (0, 1):
            cases.append({"id": "c01-unarybound-%d-%d" % (k, cont), "kind": "run", "src": "\n".join(["A Q"] + prog) + "\n", "sigs": sigs, "layout": [1], "table": [["1"]],
                          "echo": 0, "wdefault": k % 2, "faults": [], "max": 80, "seed": 3 + k, "cont": cont})
    return cases


for _p in ("C01", "C18"):
    _extend(_p, c01_unary_bound_cases, "plus loop bounds / repeat counts / while conditions / bits values that are chains of unary operators over values outside {0,1}")


PROPS["C12"]["cases"] = (lambda base: (lambda seed, tier: base(seed, tier) + [dict(c, id="c12-" + c["id"]) for c in c16_dupname_cases(seed, tier)]))(PROPS["C12"]["cases"])
PROPS["C12"]["oracles"] = PROPS["C12"]["oracles"] + [_f16.c16_load_oracle]
PROPS["C12"]["rule"] += "; plus .dig documents with several tests of one name (some of them malformed): load_test(i) = from_str(source i), so a malformed test is rejected whichever test was loaded before"


# ------------------------------------------------------------------ round 9
def extreme_loop_cases(prefix):
    """loop / repeat bounds at the ends of the range (i64::MIN, MIN+1, -1, 0, MAX) and counters re-bound by let to extreme
    values (MAX: the step wraps to MIN and the loop goes on; hugely negative), rows capped by max items"""
    sigs = [{"name": "A", "typ": "I", "bits": 64, "default": "0"}, {"name": "Q", "typ": "O", "bits": 8, "default": "-"}]
    MINS = "(1<<63)"
    progs = [
        ["loop(i,%s)" % MINS, "(i) X", "end loop", "(7) X"],
        ["repeat(~0x7FFFFFFFFFFFFFFF) (n) X", "(8) X"],
        ["loop(i,%s+1)" % MINS, "(i) X", "end loop", "repeat(0-1) (n) X", "(9) X"],
        ["let b = %s;" % MINS, "loop(i,b)", "loop(j,b+b)", "(j) X", "end loop", "end loop", "(b) X"],
        ["loop(i,0x7FFFFFFFFFFFFFFF)", "(i) X", "end loop"],
        ["loop(i,3)", "(i) X", "let i = ite(i = 0, 0x7FFFFFFFFFFFFFFF, i);", "end loop", "(5) X"],
        ["loop(i,3)", "(i) X", "let i = ite(i = 0, 0-0x7FFFFFFFFFFFFFFF, i);", "end loop", "(5) X"],
        ["loop(i,3)", "(i) X", "let i = ite(i = 1, %s, i);" % MINS, "end loop", "(5) X"],
        ["loop(i,2)", "loop(j,2)", "let j = 0x7FFFFFFFFFFFFFFF;", "(i) X", "end loop", "end loop"],
        ["loop(i,0x7FFFFFFFFFFFFFFF)", "let i = 0x7FFFFFFFFFFFFFFE;", "(i) X", "end loop", "(4) X"],
        ["let w = 0x7FFFFFFFFFFFFFFF;", "while(w > 0)", "(w) X", "let w = w + 1;", "end while", "(w) X"],
    ]
    cases = []
    for k, pr_ in enumerate(progs):
        for kind in ("run", "static"):
            cases.append({"id": "%s-extreme-%d-%s" % (prefix, k, kind), "kind": kind, "src": "\n".join(["A Q"] + pr_) + "\n", "sigs": [dict(s_) for s_ in sigs], "layout": [1] if kind == "run" else [],
                          "table": [["1"]] if kind == "run" else [], "echo": 0, "wdefault": k % 2, "faults": [], "max": 12, "seed": 1 + k, "cont": 0})
    return cases


for _p in ("C01", "C10", "C18"):
    _extend(_p, (lambda pref: (lambda seed, tier: extreme_loop_cases(pref)))(_p.lower()), "plus loop / repeat bounds at the ends of the range and counters re-bound to i64::MAX / hugely negative values")


def c07_unrelated_out_pin_cases(seed, tier):
    """a real output pin N_out next to an UNRELATED pin N (input or output) of another width: every signal is reduced to its own width"""
    cases = []
    k = 0
    for (wn, wo) in [(4, 9), (9, 4), (1, 8), (8, 1), (3, 64), (64, 3)]:
        for tn in ("I", "O"):
            sigs = [{"name": "N", "typ": tn, "bits": wn, "default": "0" if tn == "I" else "-"}, {"name": "N_out", "typ": "O", "bits": wo, "default": "-"},
                    {"name": "A", "typ": "I", "bits": 2, "default": "0"}]
            rows = ["0xFFF 0xFFF 1", "(0-1) (0-1) 2", "0x155 0x2AA 3", "(1<<63) (1<<62) 0"]
            cases.append({"id": "c07-unrelout-%d" % k, "kind": "run", "src": "N N_out A\n" + "\n".join(rows) + "\n", "sigs": sigs, "layout": [1] if tn == "I" else [0, 1], "table": [["5"] * (1 if tn == "I" else 2)],
                          "echo": 0, "wdefault": k % 2, "faults": [], "max": 12, "seed": 1 + k, "cont": 0})
            k += 1
    return cases


for _p in ("C07", "C03", "C06"):
    _extend(_p, c07_unrelated_out_pin_cases, "plus a real output pin N_out next to an unrelated pin N of another width")


def c09_constant_fault_texts(seed, tier):
    """constant expressions that FAIL when evaluated (division / remainder by a zero that is visible at parse time, an empty
    random range, signExt) in every place an expression can stand: they parse, and fail only when run"""
    cases = []
    k = 0
    for e in ("1/0", "7 % 0", "8/(2-2)", "1/(0*5)", "(1<<63)/(0-1)", "random(0)", "random(1)", "signExt(4,3)", "ite(1,1/0,2)", "ite(0,1/0,2)", "0/0", "5%(3-3)"):
        for shape in ("A Q\n(%s) X\n", "A Q\nlet a = %s;\n(a) X\n", "A Q\nbits(1,%s) X\n", "A Q\nloop(i,%s)\n1 X\nend loop\n", "A Q\nrepeat(%s) 1 X\n",
                      "A Q\nwhile(%s)\n1 X\nend while\n", "A Q V\ndeclare V = %s;\n1 X X\n", "A Q\n1 (%s)\n"):
            sigs = [{"name": "A", "typ": "I", "bits": 4, "default": "0"}, {"name": "Q", "typ": "O", "bits": 4, "default": "-"}]
            cases.append({"id": "c09-constfault-%d" % k, "kind": "run", "src": shape % e, "sigs": sigs, "layout": [1], "table": [["1"]], "echo": 0, "wdefault": 0, "faults": [], "max": 6, "seed": 1 + k, "cont": 1})
            k += 1
    # rows that are too wide in front of a bits entry, and other width arithmetic at parse time
    for t in ("A B\n1 0 1 bits(2,3)\n", "A B\n1 0 1 1 1 bits(64,3)\n", "A B\nbits(64,0) bits(64,0) bits(64,0) bits(64,0) 0 1\n", "A B\n0 1 " + "bits(64,0) " * 4 + "\n", "A\nbits(0,5)\n",
              "A B\nrepeat(2) bits(64,1) bits(64,1) bits(64,1) bits(64,1) 1 1\n", "A B\nbits(255,1)\n", "A B\nbits(256,1)\n", "A B\nbits(18446744073709551615,1)\n"):
        cases.append({"id": "c09-widtharith-%d" % k, "kind": "parse", "src": t})
        k += 1
    return cases


for _p in ("C09", "C10", "C12"):
    _extend(_p, c09_constant_fault_texts, "plus constant expressions that fail when evaluated, in every place an expression can stand (they parse; they fail when run), and rows whose width arithmetic is extreme")


def c11_many_clashes_cases(seed, tier):
    """binding that fails for SEVERAL reasons at once (2-6 declared names that are also device signals; unknown columns plus a
    clash; duplicate signals plus unknown columns): the same error every time"""
    cases = []
    for k, nclash in enumerate((2, 3, 4, 6)):
        names = ["V%d" % i for i in range(nclash)]
        decl = ["declare %s = Q + %d;" % (n_, i) for i, n_ in enumerate(names)]
        sigs = [{"name": "A", "typ": "I", "bits": 1, "default": "0"}, {"name": "Q", "typ": "O", "bits": 8, "default": "-"}] + [{"name": n_, "typ": "O" if i % 2 else "I", "bits": 4, "default": "-" if i % 2 else "0"} for i, n_ in enumerate(names)]
        for variant in range(3):
            hdr = "A Q" + ("".join(" " + n_ for n_ in names) if variant == 0 else " NOSUCH ALSONOT" if variant == 1 else "")
            row = "1 X" + (" X" * nclash if variant == 0 else " 1 1" if variant == 1 else "")
            sg = [dict(s_) for s_ in sigs] + ([dict(sigs[0])] if variant == 2 else [])
            cases.append({"id": "c11-manyclash-%d-%d" % (k, variant), "kind": "run", "src": "\n".join([hdr] + decl + [row]) + "\n", "sigs": sg, "layout": [1], "table": [["3"]],
                          "echo": 0, "wdefault": 0, "faults": [], "max": 6, "seed": 1 + k, "c11": "several reasons to refuse at once"})
    return cases


for _p in ("C11", "C15"):
    _extend(_p, c11_many_clashes_cases, "plus bindings that must be refused for several reasons at once (the same error every time)")
_extend("C08", (lambda seed, tier: [dict(c, id="c08-" + c["id"]) for c in c14_round8_cases(seed, tier) if "min" in c["id"]]), "plus 64-bit outputs at the ends of the range read in expressions")


def c04_after_bad_answer(seed, tier):
    """rows that read outputs AFTER an answer that was refused (same length, other signals / order) or after a driver error,
    with a caller that continues: the values read are those of the last ACCEPTED answer"""
    fam = add_faults(run_family("c04f", 120 if tier == "quick" else 4000, 0, [
        {"reads": 0.9, "declare": 0.2, "maxdepth": 2, "wlet": 0.3, "wrow": 0.5, "full_layout": True, "pZX": 0.05, "echo": 0.0},
        {"reads": 0.8, "declare": 0.0, "maxdepth": 1, "wrow": 0.6, "full_layout": True, "n_bidir": 1}]),
        ["subst", "swap", "err", "swapsig", "drop", "add"], 1.0, cont=1.0)
    return fam(seed, "quick")


_extend("C04", c04_after_bad_answer, "plus reads after a refused answer or a driver error with a caller that continues (values of the last accepted answer)")


def c20_empty_body_cases(seed, tier):
    """programs without any statement, in every layout: header + line break, + blank lines, + comment lines, + blanks at the end"""
    sigs = [{"name": "A", "typ": "I", "bits": 1, "default": "0"}, {"name": "B", "typ": "O", "bits": 1, "default": "-"}]
    cases = []
    for k, t in enumerate(["A B\n", "A B\n\n", "A B\n# todo\n", "A B\n   \n", "A B\n\t\n# x\n\n", "A B\r\n", "A B\r\n\r\n", "A B \n", "\n\nA B\n", "A B\n#", "A B\n# no newline",
                           "A B\n \r\n", "A B\n\n\n\n   "]):
        cases.append({"id": "c20-emptybody-%d" % k, "kind": "run", "src": t, "sigs": sigs, "layout": [1], "table": [["1"]], "echo": 0, "wdefault": 0, "faults": [], "max": 4, "seed": 1 + k})
    for k, t in enumerate(["A B", "A B   ", "A B\t", ""]):
        cases.append({"id": "c20-noheaderbreak-%d" % k, "kind": "parse", "src": t})
    return cases


for _p in ("C20", "C19", "C12"):
    _extend(_p, c20_empty_body_cases, "plus programs without any statement in every layout (and headers without a line break: rejected)")


# the Display rendering of the bound test (impl Display for TestCase = the Gallina printer Show.show_prog, extracted) is part of
# the comparison wherever whole programs are run: it shows the parse TREE (the printer parenthesises every binary operation)
for _p in ("C01", "C08", "C12", "C18", "C19", "C20"):
    if "PROG" not in PROPS[_p]["tags"]:
        PROPS[_p]["tags"] = tuple(PROPS[_p]["tags"]) + ("PROG",)


# ------------------------------------------------------------------ round 10
def laziness_cases(prefix):
    """WHICH sub-expressions are evaluated, in which order, how often: a failing operand (division by a zero variable, a read
    of an output at Z) on the right of every binary operator whose left operand is 0 / 1 / -1, on the left, on both sides
    (the LEFT error is the one reported); literal zeros next to failing operands; ite with a failing condition and equal
    branches, with an unselected failing or floating branch, with leaf branches; drawing operands on both sides (the bounds
    are logged in evaluation order)"""
    sigs = [{"name": "A", "typ": "I", "bits": 8, "default": "0"}, {"name": "Q", "typ": "O", "bits": 8, "default": "-"}, {"name": "EN", "typ": "O", "bits": 1, "default": "-"}]
    exprs = []
    for op in gen.BINOPS:
        for l in ("k", "1", "(0-1)", "0"):
            exprs.append("%s %s (8/k)" % (l, op))
            exprs.append("(8/k) %s %s" % (op, l))
        exprs.append("Q %s (1/k)" % op)
        exprs.append("(1/k) %s Q" % op)
        exprs.append("random(3) %s random(5)" % op)
        exprs.append("(random(7)+1) %s (random(2)+random(9))" % op)
    exprs += ["Q - Q", "Q ^ Q", "Q = Q", "(Q+1) - (Q+1)", "k - (1/k)", "100-1-2-3-4-5-6-7-8", "1000/2/2/2/2/2/2/2/2/2", "1-2+3-4+5-6+7-8+9-10+11", "1<<1<<1<<1<<1<<1<<1<<1<<1<<1",
              "3 * (4 / 3)", "7 - (3 - 1)", "64 / (4 * 2)", "17 % (5 % 3)", "1 << (2 >> 1)", "(1 << 2) >> 1", "2 * (3 % 2)", "k + (Q - Q)"]
    exprs += ["0 * (1/0)", "(1/0) * 0", "0 & (1%0)", "0 / k", "0 % k", "0 << (1/k)", "0 >> Q", "k * Q", "Q * k", "k & Q",
              "ite(1/k,5,5)", "ite(Q,5,5)", "ite(k,1/k,3)", "ite(1,3,1/k)", "ite(EN,Q,7)", "ite(EN,7,Q)", "ite(k,Q,Q)", "ite(1,7,Q)", "ite(0,Q,7)",
              "ite(random(2)-1,random(3),random(4))", "ite(k,random(3),4)+random(5)", "random(random(3)+2)", "signExt(1/k,Q)", "signExt(k,k)",
              "-(1/k)", "!(8%k)", "~Q", "!Q", "k = (1/k)", "(1/k) = k", "1 | (1/k)", "(0-1) | Q", "0 ^ Q"]
    cases = []
    for k, e in enumerate(exprs):
        for (qv, env) in (("Z", "0"), ("5", "0"), ("Z", "1")):
            src = "A Q EN\nlet k = 0;\n(%s) X X\n(%s) X X\n" % ("k", e) if False else "A Q EN\nlet k = 0;\n1 X X\n(%s) X X\nresetRandom;\n(random(11)) X X\n" % e
            cases.append({"id": "%s-lazy-%d-%s%s" % (prefix, k, qv, env), "kind": "run", "src": src, "sigs": [dict(s_) for s_ in sigs], "layout": [1, 2], "table": [[qv, env]],
                          "echo": 0, "wdefault": k % 2, "faults": [], "max": 12, "seed": 5 + k, "cont": 1})
    return cases


for _p in ("C08", "C01", "C04", "C10", "C14", "C17"):
    _extend(_p, (lambda pref: (lambda seed, tier: laziness_cases(pref)))(_p.lower()),
            "plus laziness / order shapes: a failing operand on either side of every binary operator next to 0 / 1 / -1 operands, which of two errors wins, literal zeros next to failing operands, ite with failing conditions / unselected failing branches / leaf branches, drawing operands on both sides")


def polling_cases(prefix):
    """polling loops: a while whose condition reads a device output that the device changes after some calls (the condition is
    evaluated AFTER the body's last row has been answered), whose body ends in a plain row / a clock row / a let; conditions
    that meet Z or X (an error item on every poll, capped); two loops in a row with the same counter and lets in the first"""
    cases = []
    k = 0
    def sig3():
        return [{"name": "A", "typ": "I", "bits": 8, "default": "0"}, {"name": "RDY", "typ": "O", "bits": 1, "default": "-"}, {"name": "Q", "typ": "O", "bits": 8, "default": "-"},
                {"name": "IO", "typ": "B", "bits": 4, "default": "Z"}]
    progs = [
        ["while(!RDY)", "1 X X X", "end while", "2 X X X"],
        ["let t = 0;", "while(Q < 3)", "(t) X X X", "let t = t + 1;", "end while", "(t) X (Q) X"],
        ["while(!RDY)", "C X X X", "end while", "3 X X X"],
        ["while(RDY = 0)", "1 X X Z", "(Q) X X Z", "end while", "(Q) 1 X X"],
        ["loop(i,2)", "while(!RDY)", "(i) X X X", "end while", "(i+10) X X X", "end loop"],
        ["while(IO_out < 2)", "1 X X Z", "end while", "5 X X X"],
        ["while(!RDY & (Q < 200))", "(Q) X X X", "end while"],
    ]
    seqs = [["0", "0", "0", "1", "1", "0", "1"], ["0", "1"], ["1"], ["0", "Z", "0", "1"], ["X", "X"], ["0", "0", "0", "0", "0", "0", "0", "0", "1"]]
    for pr_ in progs:
        for sq in seqs:
            table = [[v, str(j) if v not in ("Z", "X") or j % 2 else v, str(j % 4)] for j, v in enumerate(sq)]
            for cont in (0, 1):
                cases.append({"id": "%s-poll-%d" % (prefix, k), "kind": "run", "src": "A RDY Q IO_out\n" + "\n".join(pr_) + "\n", "sigs": sig3(), "layout": [1, 2, 3], "table": table,
                              "echo": 0, "wdefault": k % 2, "faults": [], "max": 24, "seed": 1 + k, "cont": cont})
                k += 1
    sg = [{"name": "A", "typ": "I", "bits": 8, "default": "0"}, {"name": "Q", "typ": "O", "bits": 8, "default": "-"}]
    for pr_ in (["let t = 5;", "loop(i,2)", "let t = i + 10;", "let u = 1;", "(t) X", "end loop", "loop(i,2)", "(t+i) X", "end loop", "(t) X"],
                ["loop(n,2)", "let v = n;", "(v) X", "end loop", "repeat(2) (n) X", "(0) X"],
                ["loop(i,1)", "let a = 1;", "end loop", "loop(i,1)", "let b = 2;", "end loop", "loop(i,2)", "(i) X", "end loop"],
                ["let w = 9;", "loop(i,2)", "let w = i;", "end loop", "loop(i,2)", "end loop", "loop(j,1)", "(w) X", "end loop", "(w) X"]):
        for cont in (0, 1):
            cases.append({"id": "%s-twoloops-%d" % (prefix, k), "kind": "run", "src": "A Q\n" + "\n".join(pr_) + "\n", "sigs": [dict(s_) for s_ in sg], "layout": [1], "table": [["1"]],
                          "echo": 0, "wdefault": 0, "faults": [], "max": 24, "seed": 1 + k, "cont": cont})
            k += 1
    return cases


for _p in ("C01", "C04", "C18", "C02", "C10"):
    _extend(_p, (lambda pref: (lambda seed, tier: polling_cases(pref)))(_p.lower()),
            "plus polling loops (a while condition that reads an output the device changes after some calls; Z / X in the sequence) and two loops in a row with the same counter")


def declared_order_cases(prefix):
    """several declared signals whose names are NOT in alphabetical order (declared at top level and inside blocks), one of
    which fails on some answers (reads a Z), others that draw random numbers: they are evaluated and reported in
    DECLARATION order, the ones behind a failing one are not evaluated, with a caller that continues and a resetRandom"""
    cases = []
    k = 0
    sg = [{"name": "A", "typ": "I", "bits": 8, "default": "0"}, {"name": "Q", "typ": "O", "bits": 8, "default": "-"}, {"name": "P", "typ": "O", "bits": 8, "default": "-"}]
    for decls in (["declare W = Q + 1;", "declare D = random(10);"], ["declare Z9 = random(5);", "declare A0 = Q + P;", "declare M = random(7) + A0*0;"],
                  ["loop(i,1)", "declare W = P;", "end loop", "declare D = Q + random(3);", "declare B = random(4);"], ["declare V2 = Q;", "declare V1 = P;", "declare V0 = Q / P;"]):
        names = [l.split()[1] for l in decls if l.startswith("declare")]
        for in_hdr in (True, False):
            hdr = "A Q P" + ("".join(" " + n_ for n_ in names) if in_hdr else "")
            tail = " X" * len(names) if in_hdr else ""
            rows = ["1 X X" + tail, "2 X X" + tail, "resetRandom;", "3 X X" + tail, "(random(9)) X X" + tail]
            for table in ([["5", "2"]], [["5", "2"], ["Z", "2"], ["5", "0"], ["5", "Z"], ["X", "X"]]):
                cases.append({"id": "%s-declorder-%d" % (prefix, k), "kind": "run", "src": "\n".join([hdr] + decls + rows) + "\n", "sigs": [dict(s_) for s_ in sg], "layout": [1, 2], "table": table,
                              "echo": 0, "wdefault": k % 2, "faults": [], "max": 24, "seed": 1 + k, "cont": 1})
                cases.append({"id": "%s-declorder-%d-b" % (prefix, k), "kind": "bind", "src": "\n".join([hdr] + decls + rows) + "\n", "sigs": [dict(s_) for s_ in sg], "layout": [], "table": [],
                              "echo": 0, "wdefault": 0, "faults": [], "max": 24, "seed": 1 + k})
                k += 1
    return cases


for _p in ("C14", "C17", "C06", "C15"):
    _extend(_p, (lambda pref: (lambda seed, tier: declared_order_cases(pref)))(_p.lower()),
            "plus several declared signals with names out of alphabetical order, one failing on some answers, others drawing random numbers (declaration order; nothing behind a failing one is evaluated)")


def c11_clock_without_inputs_cases(seed, tier):
    """a C entry in a column that is not input-capable when the header has NO input column at all (only outputs, declared
    signals, <b>_out columns), and variations: refused at binding"""
    cases = []
    sg = [{"name": "Q", "typ": "O", "bits": 1, "default": "-"}, {"name": "R", "typ": "O", "bits": 1, "default": "-"}, {"name": "D", "typ": "B", "bits": 1, "default": "Z"},
          {"name": "A", "typ": "I", "bits": 1, "default": "0"}]
    for k, (hdr, rows, decl) in enumerate([("Q R", ["C 1"], []), ("Q", ["C"], []), ("D_out Q", ["C X"], []), ("V Q", ["C X"], ["declare V = Q;"]), ("Q R", ["1 1", "X C"], []),
                                           ("Q A", ["C 1"], []), ("A Q", ["1 C"], []), ("D_out", ["C"], []), ("Q R", ["loop(i,1)", "C 0", "end loop"], []), ("D Q", ["C X"], []), ("A", ["C"], [])]):
        cases.append({"id": "c11-cnoinput-%d" % k, "kind": "run", "src": "\n".join([hdr] + decl + rows) + "\n", "sigs": [dict(s_) for s_ in sg], "layout": [0, 1], "table": [["1", "0"]],
                      "echo": 0, "wdefault": 0, "faults": [], "max": 8, "seed": 1 + k, "c11": "C where no input column / not an input column"})
    return cases


for _p in ("C11", "C10", "C05"):
    _extend(_p, c11_clock_without_inputs_cases, "plus C entries in headers without any input column (refused at binding)")


def c07_bits_overflow_cases(seed, tier):
    """bits(n, v) with a v that does not fit in n bits (too large, negative), its columns bound to signals WIDER than one bit"""
    cases = []
    sg = [{"name": "A", "typ": "I", "bits": 4, "default": "0"}, {"name": "B", "typ": "I", "bits": 3, "default": "0"}, {"name": "Q", "typ": "O", "bits": 5, "default": "-"},
          {"name": "R", "typ": "O", "bits": 2, "default": "-"}]
    for k, rows in enumerate([["bits(2,12) bits(2,12)"], ["bits(2,0-1) bits(2,0-3)"], ["bits(4,0x1F5)"], ["bits(3,100) 7"], ["let v = 0-7;", "bits(2,v) bits(2,v*v)"], ["bits(1,6) bits(1,0-1) bits(2,255)"],
                              ["bits(4,(1<<63)+5)"], ["loop(i,3)", "bits(2,i*5) bits(2,i-2)", "end loop"]]):
        for kind in ("run", "static"):
            cases.append({"id": "c07-bitsover-%d-%s" % (k, kind), "kind": kind, "src": "A B Q R\n" + "\n".join(rows) + "\n", "sigs": [dict(s_) for s_ in sg], "layout": [2, 3] if kind == "run" else [],
                          "table": [["1", "1"]] if kind == "run" else [], "echo": 0, "wdefault": k % 2, "faults": [], "max": 12, "seed": 1 + k})
    return cases


for _p in ("C07", "C01", "C06"):
    _extend(_p, c07_bits_overflow_cases, "plus bits(n, v) with values that do not fit in n bits on columns of signals wider than one bit")


def c11_letter_case_cases(seed, tier):
    """names that differ from a signal's name in letter case only - read in an expression, used as a column, as a C column, as
    <b>_OUT: signal names are case-sensitive, so these name nothing"""
    cases = []
    sg = [{"name": "A", "typ": "I", "bits": 4, "default": "0"}, {"name": "Q", "typ": "O", "bits": 4, "default": "-"}, {"name": "Bus", "typ": "B", "bits": 4, "default": "Z"}]
    for k, (hdr, rows) in enumerate([("A Q", ["(q) X"]), ("A Q", ["(Q) X", "(a) X"]), ("a Q", ["1 X"]), ("A q", ["1 X"]), ("A Q Bus_OUT", ["1 X X"]), ("A Q bus_out", ["1 X X"]), ("A Q BUS", ["1 X Z"]),
                                     ("A Q Bus_out", ["1 X (bus)"]), ("A Q", ["let q = 1;", "(q) X"]), ("A Q", ["(Q+q) X", "let q = 2;"]), ("A Q Bus", ["C X (BUS)"]), ("A Q", ["loop(Q,2)", "(q) X", "end loop"])]):
        cases.append({"id": "c11-lettercase-%d" % k, "kind": "run", "src": "\n".join([hdr] + rows) + "\n", "sigs": [dict(s_) for s_ in sg], "layout": [1, 2], "table": [["3", "5"]],
                      "echo": 0, "wdefault": 0, "faults": [], "max": 8, "seed": 1 + k, "c11": "a name that differs from a signal in letter case only"})
    return cases


for _p in ("C11", "C06", "C04"):
    _extend(_p, c11_letter_case_cases, "plus names that differ from a signal's name in letter case only (read, column, C column, _OUT suffix)")


def round11_shapes(prefix):
    """fixed shapes of round 11: let Q = Q (an output frozen into a variable); a name let-bound only in a while body that
    never runs, read afterwards (it reads the output); a column that is both clocked with C and read in an expression; a
    header wider than the signal list with C / X in a late driving column; more than 32 bindings in scope with shadowing;
    a row whose bits field and a field to its right both draw; a declared comparison with an expected value above 1; two
    identical consecutive clock rows (static and dynamic); a counter rewound to -1 once"""
    cases = []
    k = 0
    def add(src, sigs, layout, table, kinds=("run",), **kw):
        nonlocal k
        for kind in kinds:
            c = {"id": "%s-r11-%d-%s" % (prefix, k, kind), "kind": kind, "src": src, "sigs": [dict(s_) for s_ in sigs], "layout": layout if kind == "run" else [], "table": table if kind == "run" else [],
                 "echo": 0, "wdefault": k % 2, "faults": [], "max": 40, "seed": 3 + k, "cont": 1}
            c.update(kw)
            cases.append(c)
        k += 1
    AQ = [{"name": "A", "typ": "I", "bits": 8, "default": "0"}, {"name": "Q", "typ": "O", "bits": 8, "default": "-"}]
    add("A Q\n1 X\nlet Q = Q;\n(Q) X\n(Q) X\nlet Q = Q;\n(Q+1) X\n", AQ, [1], [["1"], ["2"], ["3"], ["4"]])
    add("A Q\n1 X\nwhile(0)\nlet Q = 9;\nend while\n(Q) X\nloop(i,Q)\n(i) X\nend loop\n(Q) X\n", AQ, [1], [["2"], ["3"], ["1"], ["2"]])
    add("A Q\nlet z = 0;\nwhile(z)\nlet Q = 1;\nend while\n(Q+1) X\n2 X\n(Q+1) X\n", AQ, [1], [["5"], ["6"], ["7"]])
    CK = [{"name": "K", "typ": "B", "bits": 1, "default": "0"}, {"name": "D", "typ": "I", "bits": 4, "default": "0"}, {"name": "Q", "typ": "O", "bits": 4, "default": "-"}]
    add("K D Q K_out\nC 1 X X\n0 (K) X X\nC (K+1) X 1\n", CK, [2, 0], [["1", "1"], ["2", "0"]])
    add("D Q K K_out\n1 X C X\n2 X X 1\n3 X C 0\n", CK, [2, 0], [["1", "1"], ["2", "0"]], kinds=("run", "static"))
    add("Q K_out D K\nX X 1 C\nX 1 X X\nX X 2 C\n", CK, [2, 0], [["1", "1"], ["2", "0"]], kinds=("run", "static"))
    many = "".join("let v%d = %d;\n" % (i, i) for i in range(40))
    add("A Q\n" + many + "loop(v3,2)\nlet v7 = 100 + v3;\nlet v39 = 7;\n(v7) X\nend loop\n(v7+v39) X\n", AQ, [1], [["1"]])
    A2 = [{"name": "A", "typ": "I", "bits": 1, "default": "0"}, {"name": "B", "typ": "I", "bits": 1, "default": "0"}, {"name": "C2", "typ": "I", "bits": 16, "default": "0"}, {"name": "Q", "typ": "O", "bits": 8, "default": "-"}]
    add("A B C2 Q\nbits(2,random(4)) (random(1000)) X\n(random(1000)) bits(2,random(4)) X\nresetRandom;\nbits(2,random(4)) (random(1000)) X\n".replace("(random(1000)) bits(2,random(4)) X", "bits(1,random(2)) bits(1,random(2)) (random(9)) X"), A2, [3], [["1"]])
    add("A Q V W\ndeclare V = Q < 3;\ndeclare W = !Q;\n1 X 3 2\n2 X 1 0\n3 X (0-1) 255\n", AQ, [1], [["1"], ["5"], ["0"]], kinds=("run",))
    CL = [{"name": "CLK", "typ": "I", "bits": 1, "default": "0"}, {"name": "D", "typ": "I", "bits": 4, "default": "0"}, {"name": "Q", "typ": "O", "bits": 4, "default": "-"}]
    add("CLK D Q\nC 1 X\nC 1 X\n0 1 X\nC 1 1\nC 1 1\n", CL, [2], [["1"]], kinds=("run", "static"))
    add("A Q\nlet once = 0;\nloop(i,3)\n(i) X\nlet i = ite((i = 1) & !once, 0-1, i);\nlet once = once | (i < 0);\nend loop\n(9) X\n", AQ, [1], [["1"]])
    add("A Q\n1 X\n2 X\nlet a = 1;\nlet b = a + 1;\n", AQ, [1], [["1"]])
    # a driver that also answers for the declared signals (it reports every non-input entry of TestCase::signals): they are
    # evaluated from their expressions all the same - and draw
    add("A Q V W\ndeclare V = random(10);\ndeclare W = Q + random(20);\n1 X X X\n2 X X X\nresetRandom;\n3 X X X\n(random(9)) X X X\n", AQ, [1, 2, 3], [["1", "7", "8"], ["2", "X", "0"]])
    add("A Q V\ndeclare V = random(1000);\n1 X X\nresetRandom;\n1 X X\n", AQ, [2, 1], [["7", "1"]])
    BD = [{"name": "A", "typ": "I", "bits": 4, "default": "0"}, {"name": "IO", "typ": "B", "bits": 4, "default": "Z"}, {"name": "Q", "typ": "O", "bits": 4, "default": "-"}]
    add("A IO_out Q\n(IO) X X\n1 (IO) X\n", BD, [1, 2], [["3", "1"]], kinds=("run", "static", "bind"))
    add("A IO Q V\ndeclare V = IO + 1;\n1 Z X X\n", BD, [1, 2], [["3", "1"]], kinds=("run", "static"))
    return cases


for _p in ("C01", "C04", "C05", "C11", "C14", "C15", "C17", "C18", "C10", "C07"):
    _extend(_p, (lambda pref: (lambda seed, tier: round11_shapes(pref)))(_p.lower()),
            "plus fixed shapes of round 11 (an output frozen by let Q = Q; a name bound only in a while body that never runs; a column clocked and read; headers wider than the signal list; 40 bindings with shadowing; draws of bits fields; declared comparisons; identical consecutive clock rows; a counter rewound once; reads of bidirectional pins, static too)")


def c09_unicode_number_texts(seed, tier):
    """texts that start with a byte order mark (with an error further on, next to a multi-byte character), ASCII digits
    continued by non-ASCII digits in every place a number can stand, other look-alikes of digits and of blanks"""
    cases = []
    k = 0
    for t in ["\ufeffA B\n1 é)\n", "\ufeffA B\n1 1\n", "\ufeffA B\nlet a = 1é;\n", "A B\n\ufeff1 1\n", "\ufeff\ufeffA B\n1 1 1\n", "A B\n1２ 1\n", "A B\n1 1２\n", "A B\nlet a = 1２;\n", "A B\nloop(i,1２)\n1 1\nend loop\n",
              "A B\nbits(1２,1) 1\n", "A B\nbits(1,1２) 1\n", "A B\nrepeat(1٣) 1 1\n", "A B\n(1٣) 1\n", "A B\n0x1２ 1\n", "A B\n0b1２ 1\n", "A B\n01２ 1\n", "A B\n1\u00a01\n", "A\u00a0B\n1 1\n", "A B\n1\u20071\n", "A B\n１ 1\n", "A B\n٣ 1\n"]:
        cases.append({"id": "c09-unicodenum-%d" % k, "kind": "parse", "src": t})
        k += 1
    return cases


for _p in ("C09", "C12", "C20"):
    _extend(_p, c09_unicode_number_texts, "plus texts with a byte order mark and ASCII digits continued by non-ASCII digits in every place a number can stand")


def c20_truncated_layout_cases(seed, tier):
    """a program that is cut off inside a block, in every layout of its end (no final line break, one, several, blanks, a
    comment, CRLF): rejected in all of them - the verdict does not depend on the layout"""
    cases = []
    k = 0
    for body in ("loop(i,2)\n1 1", "while(1)\n1 1", "loop(i,2)\nlet a = 1;", "loop(i,2)\nloop(j,2)\n1 1\nend loop", "while(1)\nrepeat(2) 1 1", "loop(i,2)\nresetRandom;", "loop(i,2)\n(1) (2)",
                 "loop(i,2)\n1 1\nend", "loop(i,2)\nend while", "loop(i,2)"):
        for tail in ("", "\n", "\n\n", " ", "\t\n", " # c", "\n# c", "\n# c\n", "\r\n", "\r", "\n   \n"):
            cases.append({"id": "c20-trunc-%d" % k, "kind": "parse", "src": "A B\n" + body + tail})
            k += 1
    return cases


for _p in ("C20", "C19", "C12"):
    _extend(_p, c20_truncated_layout_cases, "plus programs cut off inside a block in every layout of their end (rejected in all of them)")
_c20_base3 = PROPS["C20"]["cases"]
PROPS["C20"]["cases"] = lambda seed, tier: _c20_base3(seed, tier) + [dict(c, id="c20-" + c["id"]) for c in _gen_dig.cases((seed ^ 0xC20) & 0xFFFFFF, 40 if tier == "quick" else 800, 0, 0)]
PROPS["C20"]["oracles"] = PROPS["C20"]["oracles"] + [_f16.c16_load_oracle, _f16.c16_desc_oracle]
PROPS["C20"]["rule"] += "; plus .dig documents (sources indented, with blank lines, CR LF): load_test(i) = from_str(source i) and the source is kept verbatim"

_c20_base4 = PROPS["C20"]["cases"]
PROPS["C20"]["cases"] = lambda seed, tier: _c20_base4(seed, tier) + long_text_cases("c20", seed, tier)
PROPS["C20"]["rule"] += "; plus the long texts of C19 (65 536+ lines)"


# ------------------------------------------------------------------ round 12
def c16_many_pins_cases(seed, tier):
    """circuits with 33-90 labelled pins whose In / Clock / Out elements are interleaved in the document (outputs first,
    alternating, inputs last): the signal list is inputs in document order, then outputs in document order, however many"""
    import gen_dig
    rng = random.Random(seed ^ 0x16AA)
    out = []
    n = 6 if tier == "quick" else 120
    tries = 0
    while len(out) < n and tries < 20 * n:
        tries += 1
        r2 = random.Random(rng.randrange(1 << 30))
        npins = r2.choice([33, 34, 40, 48, 64, 65, 90])
        order = r2.choice(["out-first", "alternate", "random", "in-last-one"])
        elems = []
        for i in range(npins):
            if order == "out-first":
                elems.append("Out" if i < npins // 2 else r2.choice(["In", "In", "Clock"]))
            elif order == "alternate":
                elems.append("Out" if i % 2 == 0 else "In")
            elif order == "in-last-one":
                elems.append("Out" if i < npins - 1 else "In")
            else:
                elems.append(r2.choice(["In", "Out", "Out", "Clock"]))
        pins = [gen_dig.gen_pin(r2, e, "P%d" % i, 0.0) for i, e in enumerate(elems)]
        names_i = [p["label"] for p in pins if p["elem"] != "Out"]
        names_o = [p["label"] for p in pins if p["elem"] == "Out"]
        cols = r2.sample(names_i, min(len(names_i), 2)) + r2.sample(names_o, min(len(names_o), 2))
        if not cols:
            continue
        src = " ".join(cols) + "\n" + " ".join("1" for _ in cols) + "\n" + " ".join("0" for _ in cols) + "\n"
        tests = [{"k": "test", "label": "many", "source": src}]
        items = pins + tests if r2.random() < 0.5 else tests + pins
        desc = {"items": items, "features": ["many-pins"]}
        root = gen_dig.desc_tree(r2, desc)
        nodes = gen_dig.top_level(r2, root, 0.0)
        st = gen_dig.style(r2, 0.0)
        try:
            c = gen_dig.make_case("c16-many-%d-%d" % (seed & 0xFFFF, len(out)), r2, nodes, st, "desc", {"desc": desc, "features": ["many-pins"]})
        except AssertionError:
            continue
        out.append(c)
    return out


_extend("C16", c16_many_pins_cases, "plus circuits with 33-90 labelled pins, outputs and inputs interleaved in the document")


def _add_dig(prop, salt, n_quick, n_thorough, text):
    """.dig documents for a property whose promise also holds for tests that come out of a document: the file's signal
    list (names, directions, widths, defaults) is compared with the model's, load_test(i) with parse + bind (oracle)"""
    pref = prop.lower()
    _extend(prop, lambda seed, tier: [dict(c, id=pref + "d-" + c["id"]) for c in _gen_dig.cases((seed ^ salt) & 0xFFFFFF, n_quick if tier == "quick" else n_thorough, 0, 0)
                                      if "tree" in c and not c.get("no_model")], text)
    PROPS[prop]["dig_tags"] = tuple(t for t in ("DIG", "SIGNALS", "TEST", "MISSING") if t not in PROPS[prop]["tags"])
    if _f16.c16_load_oracle not in PROPS[prop]["oracles"]:
        PROPS[prop]["oracles"] = list(PROPS[prop]["oracles"]) + [_f16.c16_load_oracle]


_add_dig("C07", 0xC07D, 40, 800, "plus .dig documents: the widths the circuit declares are the widths the loaded tests reduce to (signal list compared with the model's; load_test = parse + bind)")
_add_dig("C11", 0xC11D, 60, 1200, "plus .dig documents: load_test accepts / refuses a test exactly as from_str + with_signals(file.signals) does, with the same error and locations")
_add_dig("C02", 0xC02D, 40, 800, "plus .dig documents: a loaded test is bound to ALL the file's signals (load_test = parse + bind), so every input-capable pin is sent")


def c12_row_arity_texts(seed, tier):
    """rows with one or two entries too many / too few where the surplus (or the last) entry is of every kind (number in
    every radix, X, Z, C in both cases, an expression, a bits field), at top level, in a loop, after repeat, in a while body
    that never runs; and rows that have the same non-blank characters as an earlier valid row but split differently
    (`1 0` / `10`, `1 00` / `10 0`): a row is judged by its own entries"""
    cases = []
    k = 0
    kinds = ["1", "X", "Z", "C", "x", "z", "c", "(1)", "bits(1,0)", "0x1", "0b1", "01", "(A)"]
    places = [lambda r: r + "\n", lambda r: "loop(i,2)\n" + r + "\nend loop\n", lambda r: "repeat(2) " + r + "\n", lambda r: "while(0)\n" + r + "\nend while\n",
              lambda r: "loop(i,0)\nloop(j,1)\n" + r + "\nend loop\nend loop\n"]
    for n in (1, 2, 3):
        hdr = " ".join(["A", "B", "Q"][:n]) + "\n"
        good = " ".join(["1"] * n)
        for kd in kinds:
            for pi, place in enumerate(places):
                for extra in (1, 2):
                    row = " ".join(["1"] * n + [kd] * extra)
                    cases.append({"id": "c12-arity-%d" % k, "kind": "parse", "src": hdr + good + "\n" + place(row)})
                    k += 1
                if n >= 2:
                    row = " ".join(["1"] * (n - 2) + [kd])
                    cases.append({"id": "c12-arity-%d" % k, "kind": "parse", "src": hdr + place(row) + good + "\n"})
                    k += 1
                if pi == 0 and kd.startswith("bits"):
                    cases.append({"id": "c12-arity-%d" % k, "kind": "parse", "src": hdr + " ".join(["bits(%d,1)" % n, "C"]) + "\n"})
                    k += 1
    for (hdr, a, b) in [("A B", "1 0", "10"), ("A B", "1 0", "1 0 "), ("A B", "1 0", " 1  0"), ("A B", "1 00", "10 0"), ("A B", "10 0", "1 00"), ("A B Q", "1 0 1", "10 1"), ("A B Q", "1 0 1", "1 01"),
                        ("A B Q", "1 0 1", "101"), ("A B", "1 X", "1X"), ("A B", "X X", "XX"), ("A B", "1 Z", "1Z"), ("A B", "0 C", "0C"), ("A B", "1 1", "1 1 # 1"), ("A B", "1 1", "1 # 1"),
                        ("A B", "0x1 0", "0x10"), ("A B", "0 x", "0x"), ("A B", "0 b1", "0b1"), ("A", "10", "1 0"), ("A", "1", "1 "), ("A B Q", "1 1 1", "11 1"), ("A B Q", "11 1 1", "1 11 1"), ("A B Q", "1 1 1", "1 1 1 1")]:
        for place in places[:3]:
            cases.append({"id": "c12-arity-%d" % k, "kind": "parse", "src": hdr + "\n" + a + "\n" + place(b)})
            k += 1
            cases.append({"id": "c12-arity-%d" % k, "kind": "parse", "src": hdr + "\n" + place(a) + b + "\n" + a + "\n"})
            k += 1
    return cases


for _p in ("C12", "C10", "C09"):
    _extend(_p, c12_row_arity_texts, "plus rows with surplus / missing entries of every kind in every place, and rows with the non-blank characters of an earlier valid row split differently")


def round12_shapes(prefix):
    """fixed shapes of round 12: shift counts of 64 and more in a loop bound / while condition / repeat count; let, loop and
    repeat variables named like an output the driver answers for; a signal list without any input; a declared signal that
    draws, static as well (the static run is also taken through nth / skip / step_by); narrow outputs next to 64-bit input
    columns only (or no input column at all); a Z default left out of the header next to driven inputs; rows with Z after a
    driven input; a computation-only while; a loop body that moves its own counter past the bound"""
    cases = []
    k = 0
    def add(src, sigs, layout, table, kinds=("run",), **kw):
        nonlocal k
        for kind in kinds:
            c = {"id": "%s-r12-%d-%s" % (prefix, k, kind), "kind": kind, "src": src, "sigs": [dict(s_) for s_ in sigs], "layout": layout if kind == "run" else [], "table": table if kind == "run" else [],
                 "echo": 0, "wdefault": k % 2, "faults": [], "max": 60, "seed": 4 + 6 * k, "cont": 1}
            c.update(kw)
            cases.append(c)
        k += 1
    AQ = [{"name": "A", "typ": "I", "bits": 8, "default": "0"}, {"name": "Q", "typ": "O", "bits": 8, "default": "-"}]
    add("A Q\nlet k = 64;\nloop(i, 1 << k)\n(i) X\nend loop\nlet x = 4;\nwhile(x >> 65)\n(x) X\nlet x = x - 1;\nend while\nrepeat(1 << 65) 7 X\nloop(j, 3 << (0-63))\n(j) X\nend loop\n", AQ, [1], [["1"]])
    add("A Q\nloop(i, 1 << 64)\n(i) X\nend loop\nloop(i, 2 >> 64)\n(i+10) X\nend loop\nloop(i, 8 >> 66)\n(i+20) X\nend loop\nlet w = 1 << 127;\nwhile(w)\n(30) X\nlet w = 0;\nend while\n", AQ, [1], [["1"]])
    AQN = [{"name": "A", "typ": "I", "bits": 16, "default": "0"}, {"name": "Q", "typ": "O", "bits": 8, "default": "-"}, {"name": "n", "typ": "O", "bits": 8, "default": "-"}, {"name": "i", "typ": "O", "bits": 8, "default": "-"}]
    add("A Q n i\nlet Q = 5;\n(Q+1) X X X\nloop(i,2)\n(i*2+1) X X X\nend loop\nrepeat(3) (n*2+1) X X X\n(n) X X X\n(i) X X X\n", AQN, [1, 2, 3], [["100", "101", "102"]])
    add("A Q n i\n(Q) X X X\nlet Q = Q + 1;\n(Q) X X X\nloop(n,2)\nlet i = n + 50;\n(i) X X X\nend loop\n(i+n) X X X\n", AQN, [3, 1, 2], [["102", "100", "101"]])
    OQ = [{"name": "Q", "typ": "O", "bits": 8, "default": "-"}, {"name": "R", "typ": "O", "bits": 4, "default": "-"}]
    add("Q R\n1 2\n3 X\n", OQ, [0, 1], [["1", "2"], ["3", "4"]], kinds=("run", "static", "bind"))
    add("Q R\n(Q) X\n(R+1) (Q)\n", OQ, [0, 1], [["1", "2"], ["3", "4"]], kinds=("run", "bind"))
    add("Q\n1\n", OQ[:1], [0], [["1"]], kinds=("run", "static"))
    AQV = AQ
    add("A Q V\ndeclare V = random(1000);\n1 X X\n2 X X\nresetRandom;\n3 X X\n4 X X\n5 X X\n", AQV, [1], [["1"]], kinds=("run", "static"))
    add("A Q V W\ndeclare V = random(1000);\ndeclare W = random(7) + V;\n1 X X X\n2 X 3 X\nresetRandom;\n3 X X X\n4 X X 2\n5 X X X\n(random(9)) X X X\n", AQV, [1], [["1"]], kinds=("run", "static"))
    W64 = [{"name": "A", "typ": "I", "bits": 64, "default": "0"}, {"name": "B", "typ": "I", "bits": 4, "default": "9"}, {"name": "Q", "typ": "O", "bits": 8, "default": "-"}, {"name": "R", "typ": "O", "bits": 3, "default": "-"}]
    add("A Q R\n1 300 9\n2 (0-1) (0-1)\n(0-1) 0x1FF 15\n", W64, [2, 3], [["44", "1"], ["255", "7"]], kinds=("run", "static"))
    add("Q R\n300 9\n(0-1) 15\n", W64, [2, 3], [["44", "1"], ["255", "7"]], kinds=("run", "static"))
    add("A Q\n(0-1) 300\nlet q = 1;\n2 (q+511)\n", W64, [2, 3], [["44", "1"], ["0", "7"]])
    ZD = [{"name": "A", "typ": "I", "bits": 4, "default": "0"}, {"name": "T", "typ": "B", "bits": 4, "default": "Z"}, {"name": "E", "typ": "I", "bits": 1, "default": "Z"}, {"name": "B", "typ": "I", "bits": 4, "default": "3"}, {"name": "Q", "typ": "O", "bits": 4, "default": "-"}]
    add("A Q\n1 X\n2 X\n", ZD, [4, 1], [["1", "2"], ["3", "4"]], kinds=("run", "static"))
    add("A T B Q\n1 Z 2 X\n1 5 Z X\nZ Z 1 X\n2 Z Z X\n", ZD, [4, 1], [["1", "2"], ["3", "4"]], kinds=("run", "static"))
    add("B Q\n1 X\nC X\n", ZD, [4], [["1"], ["3"]], kinds=("run", "static"))
    add("A Q\nlet s = 0;\nlet i = 0;\nwhile(i < 4)\nlet s = s + i;\nlet i = i + 1;\nend while\n(s) X\nloop(j,2)\nwhile(s > 3)\nlet s = s - 3;\nend while\n(s+j) X\nend loop\n", AQ, [1], [["1"]])
    add("A Q\nlet i = 7;\nloop(i,5)\n(i) X\nlet i = ite(i = 1, 10, i);\nend loop\n(i) X\nloop(j,3)\nlet j = j + 5;\n(j) X\nend loop\n(i) X\n", AQ, [1], [["1"]])
    return cases


for _p in ("C01", "C02", "C04", "C06", "C07", "C08", "C11", "C14", "C15", "C17", "C18", "C10"):
    _extend(_p, (lambda pref: (lambda seed, tier: round12_shapes(pref)))(_p.lower()),
            "plus fixed shapes of round 12 (shift counts of 64 and more in bounds; variables named like answered outputs; signal lists without inputs; declared draws, static too; narrow outputs beside 64-bit input columns; Z defaults outside the header; computation-only while; a body that moves its own loop counter)")
_extend("C15", (lambda seed, tier: huge_header_cases("c15")), "plus headers of 255-300 columns and answers of 270 entries")


def c19_multi_cases(seed, tier):
    """several iterators over ONE test whose rows expand (X inputs, C clocks), advanced out of step: every expansion still
    reports the line of its own source row, as in the iterator run alone"""
    rng = random.Random(seed ^ 0x19AB)
    sigs = [{"name": "CLK", "typ": "I", "bits": 1, "default": "0"}, {"name": "A", "typ": "I", "bits": 1, "default": "0"}, {"name": "B", "typ": "I", "bits": 2, "default": "0"},
            {"name": "Q", "typ": "O", "bits": 4, "default": "-"}]
    srcs = ["CLK A B Q\nC X 1 X\n\n0 X X X\n# c\nC 1 2 X\nX X 3 X\n",
            "\n\nCLK A B Q\n0 X 0 X\nloop(i,2)\n\nC X (i) X\nend loop\nrepeat(2) C 0 X X\n0 0 0 X\n",
            "CLK A B Q # h\r\nX X 1 X\r\n\r\nC X 2 X # c\r\n\r\n1 1 1 X\r\n",
            "CLK A B Q\n0 0 0 X\n0 X 0 X\n0 0 0 X\nC C 0 X\n0 0 0 X\n"]
    out = []
    for i, src in enumerate(srcs):
        for j in range(2 if tier == "quick" else 12):
            run = {"id": "c19-multi-%d-%d-solo" % (i, j), "kind": "run", "src": src, "sigs": [dict(s_) for s_ in sigs], "layout": [3], "table": [["1"], ["2"]], "echo": 0, "wdefault": 0,
                   "faults": [], "max": 80, "seed": 2 + j, "cont": 1}
            out.append(run)
            k = rng.randrange(2, 4)
            out.append(dict(run, id="c19-multi-%d-%d-multi" % (i, j), kind="multi", niter=k, sched=[rng.randrange(0, k) for _ in range(rng.randrange(6, 40))], group=run["id"], no_model=True))
    return out


_extend("C19", c19_multi_cases, "plus 2-3 iterators over one test with expanding rows, advanced out of step (each reports the lines of the solo run)")
PROPS["C19"]["pair_oracles"] = list(PROPS["C19"].get("pair_oracles", [])) + [c15_pair_oracle]


# ------------------------------------------------------------------ round 13
def round13_shapes(prefix):
    """fixed shapes of round 13: names longer than 16 bytes that share a long prefix (and a length); an output read by a
    declared signal going 0 -> Z -> 0 -> X between consecutive checked rows; outputs ahead of inputs in the signal list
    with undriven inputs behind them; a Z next to an X in one row; a declared column right of an X input; clocks on inputs
    wider than one bit; loops whose rows fit their signal at first and overflow later; random on both sides of an output
    column; random in a top-level loop bound reached through rows only"""
    cases = []
    k = 0
    def add(src, sigs, layout, table, kinds=("run",), **kw):
        nonlocal k
        for kind in kinds:
            c = {"id": "%s-r13-%d-%s" % (prefix, k, kind), "kind": kind, "src": src, "sigs": [dict(s_) for s_ in sigs], "layout": layout if kind == "run" else [], "table": table if kind == "run" else [],
                 "echo": 0, "wdefault": k % 2, "faults": [], "max": 80, "seed": 2 + 5 * k, "cont": 1}
            c.update(kw)
            cases.append(c)
        k += 1
    AQ = [{"name": "A", "typ": "I", "bits": 8, "default": "0"}, {"name": "Q", "typ": "O", "bits": 8, "default": "-"}]
    add("A Q\nlet counter_for_phase_one = 1;\nlet counter_for_phase_two = 2;\n(counter_for_phase_one) X\n(counter_for_phase_two) X\nlet counter_for_phase_one = 5;\n(counter_for_phase_one + counter_for_phase_two) X\n"
        "loop(a_very_long_loop_counter_a,2)\nloop(a_very_long_loop_counter_b,2)\n(a_very_long_loop_counter_a * 2 + a_very_long_loop_counter_b) X\nend loop\nend loop\n", AQ, [1], [["1"]])
    LQ = [{"name": "A", "typ": "I", "bits": 8, "default": "0"}, {"name": "output_of_the_first_stage_1", "typ": "O", "bits": 8, "default": "-"}, {"name": "output_of_the_first_stage_2", "typ": "O", "bits": 8, "default": "-"}]
    add("A output_of_the_first_stage_1 output_of_the_first_stage_2\n(output_of_the_first_stage_1) X X\n(output_of_the_first_stage_2) 1 2\n", LQ, [1, 2], [["1", "2"], ["3", "4"]], kinds=("run", "bind"))
    add("A Q V\ndeclare V = Q + 1;\n1 X X\n2 X X\n3 X X\n4 X X\n5 X X\n", AQ, [1], [["0"], ["Z"], ["0"], ["X"], ["0"], ["0"]])
    add("A Q V W\ndeclare V = !Q;\ndeclare W = Q * 0;\n1 0 X X\n1 0 1 0\n1 X 1 0\n1 0 1 0\n", AQ, [1], [["0"], ["0"], ["X"], ["Z"], ["0"]])
    OI = [{"name": "Q", "typ": "O", "bits": 4, "default": "-"}, {"name": "A", "typ": "I", "bits": 4, "default": "3"}, {"name": "R", "typ": "O", "bits": 4, "default": "-"}, {"name": "B", "typ": "I", "bits": 4, "default": "5"},
          {"name": "T", "typ": "B", "bits": 4, "default": "Z"}]
    add("A Q\n1 X\n2 X\n", OI, [0, 2], [["1", "2"]], kinds=("run", "static", "bind"))
    add("R Q\n(R) (Q)\n1 2\n", OI, [2, 0], [["1", "2"], ["1", "2"]], kinds=("run", "bind"))
    add("Q B R\nX 1 X\nX C X\nX X X\n", OI, [0, 2, 4], [["1", "2", "3"]], kinds=("run", "static"))
    ZX = [{"name": "A", "typ": "I", "bits": 1, "default": "0"}, {"name": "T", "typ": "B", "bits": 1, "default": "Z"}, {"name": "B", "typ": "I", "bits": 1, "default": "0"}, {"name": "Q", "typ": "O", "bits": 2, "default": "-"}]
    add("A T B Q\n0 Z 0 X\nX Z 0 X\n0 Z X X\nZ X 0 1\nC Z X X\n0 0 0 X\n", ZX, [3, 1], [["1", "0"]], kinds=("run", "static"))
    add("A B Q V\ndeclare V = 2;\nX 0 X X\n0 X X X\nX X 1 X\n", ZX, [3], [["1"]], kinds=("run", "static"))
    add("V A B Q\ndeclare V = 2;\nX X 0 X\nX 0 X 2\n", ZX, [3], [["1"]], kinds=("run", "static"))
    WC = [{"name": "CK", "typ": "I", "bits": 4, "default": "0"}, {"name": "D", "typ": "I", "bits": 64, "default": "0"}, {"name": "Q", "typ": "O", "bits": 4, "default": "-"}]
    add("CK D Q\nC 1 X\nC C X\n0 C 1\n", WC, [2], [["1"]], kinds=("run", "static"))
    add("CK Q\nloop(i,20)\n(i) (i+1)\nend loop\nrepeat(4) 0 (1-n)\nloop(i,3)\n(0-1) X\n(0-1) X\nend loop\n255 X\n255 X\n(255) X\n", WC, [2], [["1"]], kinds=("run", "static"))
    RQ = [{"name": "A", "typ": "I", "bits": 32, "default": "0"}, {"name": "Q", "typ": "O", "bits": 32, "default": "-"}, {"name": "B", "typ": "I", "bits": 32, "default": "0"}]
    add("A Q B\n(random(1000000)) (random(1000000)) (random(1000000))\nresetRandom;\n(random(1000000)) (random(1000000)) (random(1000000))\n", RQ, [1], [["1"]], kinds=("run", "static"))
    add("Q A B\n(random(1000000)) (random(1000000)) (random(1000000))\nresetRandom;\n(random(1000000)) X (random(1000000))\n", RQ, [1], [["1"]], kinds=("run", "static"))
    add("A Q B\n1 X 1\nloop(i, random(4) + 1)\n(i) X (random(100))\nend loop\n2 X 2\nloop(j, random(3) + 1)\n(j) X 0\nend loop\nresetRandom;\n3 X (random(100))\nrepeat((random(8)&3)+1) 4 X 4\n", RQ, [1], [["1"]], kinds=("run", "static"))
    return cases


for _p in ("C01", "C04", "C05", "C06", "C07", "C10", "C14", "C17", "C18", "C02", "C13"):
    _extend(_p, (lambda pref: (lambda seed, tier: round13_shapes(pref)))(_p.lower()),
            "plus fixed shapes of round 13 (long names with a common prefix; a read output going 0 / Z / 0 / X between consecutive rows; outputs ahead of inputs in the list; Z beside X; a declared column right of an X input; clocks on wide inputs; rows that overflow their signal only in later passes; random on both sides of an output column and in top-level loop bounds)")


def round13_parse_texts(seed, tier):
    """a name declared twice where the second declaration is the last thing in the text, in every end layout (no semicolon,
    no line break, neither, blanks, a comment); duplicated header names whose second occurrence is the last / first / only
    other column; calls with too few arguments in every position; comments with non-ASCII text and Unicode line separators"""
    cases = []
    k = 0
    def add(t):
        nonlocal k
        cases.append({"id": "r13-parse-%d" % k, "kind": "parse", "src": t})
        k += 1
    for first in ("declare v = Q;\n0 X\n", "declare v = 1;\n", "loop(i,1)\ndeclare v = i;\nend loop\n"):
        for second in ("declare v = (Q + 1) * 2", "declare v = 2;", "declare v = 2", "declare v = 2 ", "declare v = 2 # c", "declare v = ite(1,", "declare v", "declare v =", "declare v = 2;;", "declare w = 2"):
            for end in ("", "\n", " ", "\t\n", "\n\n"):
                add("A Q\n" + first + second + end)
    for hdr in ("A B A", "A A", "A B C A", "A B B", "A B C C", "A B C B", "Q A Q", "A_out A A_out", "A B\tA", "A B A ", "A B A\t#c", "a A", "A B C D E F G A", "A B C D E F G G"):
        add(hdr + "\n" + " ".join("1" for _ in hdr.split("#")[0].split()) + "\n")
    for call in ("ite(1,2)", "ite(1)", "ite()", "signExt(3)", "signExt()", "random()", "ite(1,2,3,4)", "signExt(1,2,3)", "random(1,2)"):
        for place in ("let a = %s;\n", "(%s) 1\n", "loop(i,%s)\n1 1\nend loop\n", "while(%s)\nend while\n", "bits(2,%s)\n", "repeat(%s) 1 1\n", "declare v = %s;\n", "let a = 1 + -%s;\n", "let a = ite(%s,1,2);\n"):
            add("A B\n" + place % call)
    for cm in ("# 3 µs → grün", "# next\u0085line", "# sep ", "# para # more", "#\u0085", "#   1 1", "# ff\x0c", "# é", "#→"):
        add("A B\n" + cm + "\n1 1\n" + cm + "\n0 0 " + cm + "\n")
        add("A B " + cm + "\n1 1\n")
    return cases


for _p in ("C09", "C12", "C10", "C20", "C19"):
    _extend(_p, round13_parse_texts, "plus a redeclared name as the last statement in every end layout, duplicated header names in the last column, calls with too few arguments everywhere, comments with non-ASCII text and Unicode line separators")
_add_dig("C06", 0xC06D, 40, 800, "plus .dig documents: a loaded test has an outputs / expected entry for every pin the file declares (signal list compared with the model's; load_test = parse + bind)")


def many_bindings_cases(prefix):
    """more than 65 535 bindings alive at once: 62 nested one-pass loops that each re-bind the same 1100 names; rows read
    the innermost visible binding on the way in and after every twentieth `end loop` on the way out.  Too large for the
    model's interpreter (skip_model): judged by many_bindings_oracle, which knows the values by construction"""
    depth, names = 62, 1100
    lines = ["A Q"]
    for d in range(depth):
        lines.append("loop(i%d,1)" % d)
        for n in range(names):
            lines.append("let v%d = %d;" % (n, d))
    lines.append("(v0) X")
    expect = [depth - 1]
    for j in range(depth):
        lines.append("end loop")
        if j % 20 == 0 and j < depth - 1:
            lines.append("(v0 + v%d) X" % (names - 1))
            expect.append(2 * (depth - 2 - j))
    sigs = [{"name": "A", "typ": "I", "bits": 64, "default": "0"}, {"name": "Q", "typ": "O", "bits": 8, "default": "-"}]
    return [{"id": "%s-manybind" % prefix, "kind": "run", "src": "\n".join(lines) + "\n", "sigs": sigs, "layout": [1], "table": [["1"]], "echo": 0, "wdefault": 0, "faults": [], "max": 50, "seed": 2,
             "cont": 1, "no_model": True, "skip_model": True, "expect_a": expect}]


def many_bindings_oracle(case, trace):
    if "expect_a" not in case or any(t == "HANG" for t, _ in trace):
        return      # (cut off by the watchdog on a loaded machine: nothing is claimed)
    got = []
    for t, r in trace:
        if t == "ROW":
            m_ = re.search(r"\| A=(-?\d+)", r)
            got.append(int(m_.group(1)) if m_ else None)
    ended = any(t == "END" and r.startswith("none") for t, r in trace)
    if got != case["expect_a"] or not ended:
        yield "with more than 65 535 bindings alive the rows read %s (run ended: %s) instead of the innermost visible bindings %s" % (got, ended, case["expect_a"])


for _p in ("C18", "C14", "C10"):
    _extend(_p, (lambda pref: (lambda seed, tier: many_bindings_cases(pref)))(_p.lower()), "plus one test with 68 200 bindings alive at once (62 nested loops re-binding 1100 names), judged by construction")
    PROPS[_p]["oracles"] = list(PROPS[_p]["oracles"]) + [many_bindings_oracle]
