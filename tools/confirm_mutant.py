#!/usr/bin/env python3
"""Confirm a seeded change and run the checks against it.

  tools/confirm_mutant.py <id> <patch> <demo.rs> <notes.md> <prop> [<prop> ...]

1. in a scratch worktree of /repo (under /tmp, removed afterwards): the demonstration passes on
   the clean tree; with the patch applied the crate compiles, the complete existing suite passes,
   and the demonstration fails;
2. runs `./check <prop>` (quick tier) for each listed property against a second scratch worktree with
   the patch applied (tools/altrun.py: a scratch copy of /verif with VERIF_REPO pointing at it, so /repo,
   the evidence and the replays stay as they are and several changes can be run in parallel), and
   records which of them report a VIOLATION;
3. writes seeded/<id>/{patch.diff, demo.rs, notes.md, meta.json}.
Never commits anything to /repo."""
import json, os, shutil, subprocess, sys, time
sys.path.insert(0, os.path.dirname(os.path.abspath(__file__)))

ROOT = os.path.abspath(os.path.join(os.path.dirname(os.path.abspath(__file__)), ".."))
REPO = "/repo"
TARGET = os.environ.get("VERIF_CONFIRM_TARGET", "/root/scratch/confirm_target")


def sh(cmd, cwd=None, timeout=1800, env=None):
    e = dict(os.environ)
    e["CARGO_NET_OFFLINE"] = "true"
    e["CARGO_TARGET_DIR"] = TARGET
    if env:
        e.update(env)
    for k in [k for k, v in e.items() if v == ""]:
        del e[k]
    p = subprocess.run(cmd, shell=True, cwd=cwd, env=e, stdout=subprocess.PIPE, stderr=subprocess.STDOUT, timeout=timeout)
    out = "\n".join(l for l in p.stdout.decode("utf-8", "replace").split("\n") if "WARNING conda" not in l)
    return p.returncode, out


def main():
    mid, patch, demo, notes = sys.argv[1:5]
    props = sys.argv[5:]
    wt = "/root/scratch/confirm_%s" % mid
    meta = {"id": mid, "properties": props, "ran": [], "when": time.strftime("%Y-%m-%d %H:%M:%S")}
    sh("git -C %s worktree remove --force %s" % (REPO, wt))
    rc, out = sh("git -C %s worktree add -q --detach %s HEAD" % (REPO, wt))
    if rc != 0:
        print(out)
        return 2
    try:
        demo_name = "seeded_demo"
        shutil.copy(demo, os.path.join(wt, "tests", demo_name + ".rs"))
        rc, out = sh("cargo test --offline --test %s" % demo_name, cwd=wt)
        meta["demo_passes_on_clean_tree"] = (rc == 0)
        meta["ran"].append("clean tree: cargo test --offline --test seeded_demo -> rc %d" % rc)
        os.remove(os.path.join(wt, "tests", demo_name + ".rs"))
        rc, out = sh("git apply %s" % os.path.abspath(patch), cwd=wt)
        meta["patch_applies"] = (rc == 0)
        if rc != 0:
            print("patch does not apply:\n" + out)
        else:
            rc, out = sh("cargo test --offline 2>&1", cwd=wt)
            passed = sum(int(l.split("ok. ")[1].split(" passed")[0]) for l in out.split("\n") if l.startswith("test result: ok."))
            meta["existing_suite_passes_with_change"] = (rc == 0)
            meta["existing_tests_passed"] = passed
            meta["ran"].append("patched tree: cargo test --offline -> rc %d, %d tests passed" % (rc, passed))
            shutil.copy(demo, os.path.join(wt, "tests", demo_name + ".rs"))
            rc, out = sh("cargo test --offline --test %s" % demo_name, cwd=wt)
            meta["demo_fails_with_change"] = (rc != 0)
            meta["ran"].append("patched tree: cargo test --offline --test seeded_demo -> rc %d" % rc)
    finally:
        sh("git -C %s worktree remove --force %s" % (REPO, wt))
    confirmed = meta.get("demo_passes_on_clean_tree") and meta.get("patch_applies") and \
        meta.get("existing_suite_passes_with_change") and meta.get("demo_fails_with_change")
    meta["confirmed"] = bool(confirmed)
    print(json.dumps({k: v for k, v in meta.items() if k != "ran"}, indent=1))
    if not confirmed:
        return 1
    # run the checks against it: a patched scratch worktree and a scratch copy of /verif (tools/altrun.py);
    # /repo itself, the evidence and the replays of /verif are not touched
    import altrun
    results = {}
    with altrun.Alt(mid, patch) as alt:
        for p in props:
            r, out = alt.check(p)
            results[p] = r
            print(p, "exit", r["exit"], "violations", r["violations"], r["first"][:1])
            if r["exit"] != 0 and r["first"]:
                r["replay_excerpt"] = alt.replay_text(r["first"][0])[-800:]
    # restore evidence of the unchanged tree for the checks we disturbed
    meta["checks"] = results
    meta["detected_by"] = [p for p, r in results.items() if r["exit"] != 0]
    d = os.path.join(ROOT, "seeded", mid)
    os.makedirs(d, exist_ok=True)
    shutil.copy(patch, os.path.join(d, "patch.diff"))
    shutil.copy(demo, os.path.join(d, "demo.rs"))
    if os.path.exists(notes):
        shutil.copy(notes, os.path.join(d, "notes.md"))
    meta["breaks"] = props[0] if props else None
    meta["needs"] = "see notes.md"
    json.dump(meta, open(os.path.join(d, "meta.json"), "w"), indent=1)
    return 0


if __name__ == "__main__":
    sys.exit(main())
