#!/usr/bin/env python3
"""Cross-check of the extraction (DESIGN.md section 6.2): a sample of `run` cases is evaluated by the
function XCheck.xcheck twice - inside Coq (vm_compute, one coqc call) and in the extracted OCaml
program - and the two integer lists must be equal.

  xcheck.py <n> <seed>   -> prints a summary line, exit 1 on any difference"""
import os, random, subprocess, sys
ROOT = os.path.abspath(os.path.join(os.path.dirname(os.path.abspath(__file__)), ".."))
sys.path.insert(0, os.path.join(ROOT, "tools"))
import gen, runner  # noqa: E402

WORK = os.path.join(ROOT, ".work")


def coq_name(s):
    return "[" + "; ".join(str(ord(ch)) for ch in s) + "]%N"


def coq_inval(v):
    return "IZ" if v == "Z" else "(IVal (%s)%%Z)" % v


def coq_outval(v):
    return "OZ" if v == "Z" else "OX" if v == "X" else "(OVal (%s)%%Z)" % v


def coq_signal(s):
    typ = {"I": "(TyInput %s)" % coq_inval(s["default"]), "O": "TyOutput", "B": "(TyBidir %s)" % coq_inval(s["default"])}[s["typ"]]
    return "{| sname := %s; sbits := %d%%N; styp := %s |}" % (coq_name(s["name"]), s["bits"], typ)


def coq_fault(f):
    k, what = f
    w = what.split()
    kind = w[0]
    body = {"err": "FErr %s%%N" % w[1], "drop": "FDrop %s" % w[1], "add": "FAdd %s" % w[1], "dup": "FDup %s" % w[1],
            "swap": "FSwap %s %s" % tuple(w[1:3]) if kind == "swap" else "", "subst": "FSubst %s %s" % tuple(w[1:3]) if kind == "subst" else ""}[kind]
    return "(%d, %s)%%nat" % (k, body)


def coq_case(c, fuel, n):
    script = "{| sc_layout := [%s]%%nat; sc_table := [%s]; sc_echo := %s; sc_faults := [%s] |}" % (
        "; ".join(str(i) for i in c["layout"]),
        "; ".join("[" + "; ".join(coq_outval(v) for v in row) + "]" for row in c["table"]),
        "true" if c.get("echo") else "false",
        "; ".join(coq_fault(f) for f in c.get("faults", [])))
    return "xcheck %s [%s] %s %s %d %d" % (coq_name(c["src"]), "; ".join(coq_signal(s) for s in c["sigs"]), script,
                                         "true" if c.get("wdefault") else "false", fuel, n)


def main():
    n = int(sys.argv[1]) if len(sys.argv) > 1 else 12
    seed = int(sys.argv[2]) if len(sys.argv) > 2 else 1
    rng = random.Random(seed ^ 0xC0C)
    cases = []
    for i in range(n):
        prof = rng.choice([{"pC": 0.2, "pX": 0.15, "declare": 0.3, "reads": 0.4, "maxdepth": 2, "budget": 8},
                           {"maxdepth": 3, "budget": 8, "wlet": 0.3, "pbits": 0.1},
                           {"n_bidir": 1, "reads": 0.5, "echo": 1.0, "budget": 6}])
        c = gen.gen_run_case("xc-%d" % i, rng.randrange(1 << 30), prof)
        c["kind"] = "xcheck"
        c["max"] = 12
        c["fuel"] = 400
        if rng.random() < 0.3:
            c["faults"] = [(rng.randrange(0, 5), rng.choice(["err 7", "drop 0", "swap 0 1"]))]
        cases.append(c)
    os.makedirs(WORK, exist_ok=True)
    vf = os.path.join(WORK, "xcheck_cases.v")
    with open(vf, "w") as f:
        f.write("From DTR Require Import Prelude I64 Ast Parser Bind Eval Stmt Iter Script XCheck.\n")
        for c in cases:
            f.write('Goal True. idtac "@@ %s". Abort.\nEval vm_compute in (%s).\n' % (c["id"], coq_case(c, 400, 12)))
    p = subprocess.run(["coqc", "-noglob", "-Q", os.path.join(ROOT, "coq", "theories"), "DTR", vf], cwd=WORK,
                       stdout=subprocess.PIPE, stderr=subprocess.STDOUT, timeout=1800)
    out = p.stdout.decode()
    if p.returncode != 0:
        print("xcheck: coqc failed:\n" + out[-2000:])
        return 1
    coqres = {}
    for ch in out.split("@@ ")[1:]:
        cid, _, rest = ch.partition("\n")
        body = rest.split(": list Z")[0]
        body = body.replace("=", " ", 1)
        nums = [w.replace("%Z", "").strip("()") for w in body.replace("[", " ").replace("]", " ").replace(";", " ").split()]
        coqres[cid.strip()] = [x for x in nums if x]
    cf = os.path.join(WORK, "xcheck.cases")
    with open(cf, "w") as f:
        for c in cases:
            gen.write_case(f, c)
            # model_run reads `fuel`
        pass
    txt = open(cf).read().replace("\nend\n", "\nfuel 400\nend\n")
    open(cf, "w").write(txt)
    p = subprocess.run([runner.model_bin(), cf], stdout=subprocess.PIPE, stderr=subprocess.DEVNULL, timeout=600)
    tr = runner.parse_traces(p.stdout.decode())
    bad = 0
    total_len = 0
    for c in cases:
        ml = [r.split() for t, r in tr.get(c["id"], []) if t == "XCHECK"]
        a = coqres.get(c["id"])
        if not ml or a is None or ml[0] != a:
            bad += 1
            print("xcheck: DIFFERENCE on %s\n  coq  : %s\n  ocaml: %s" % (c["id"], " ".join(a or ["<none>"])[:300], " ".join(ml[0] if ml else ["<none>"])[:300]))
        else:
            total_len += len(a)
    print("xcheck: %d cases evaluated in Coq (vm_compute) and in the extracted OCaml model, %d integers compared, %d differences" % (len(cases), total_len, bad))
    return 1 if bad else 0


if __name__ == "__main__":
    sys.exit(main())
