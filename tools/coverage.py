#!/usr/bin/env python3
"""Measures which lines of the crate's non-test sources the correspondence families reach.

Not a check (registers nothing, decides nothing): a diagnostic for the quality of the tie.  The
harness is built with the nightly toolchain and `-C instrument-coverage` into a scratch target
directory (default /root/scratch/cov_target, removed afterwards unless --keep), every family's
quick-tier cases (corpus included) are run through it, and llvm-cov reports the regions of
/repo/src that no case executed.  Output: coverage/summary.json and coverage/uncovered.txt.

usage: python3 tools/coverage.py [--seed N] [--tier quick|thorough] [--keep] [C01 C02 ...]
"""
import json, os, re, shutil, subprocess, sys, glob

HERE = os.path.dirname(os.path.abspath(__file__))
ROOT = os.path.abspath(os.path.join(HERE, ".."))
sys.path.insert(0, HERE)
import runner, families  # noqa: E402


REPO = os.environ.get("VERIF_REPO", "/repo")
TOOLBIN = glob.glob(os.path.expanduser("~/.rustup/toolchains/nightly-x86_64-unknown-linux-gnu/lib/rustlib/*/bin"))
SCRATCH = os.environ.get("VERIF_COV_DIR", "/root/scratch/cov_target")


def main():
    args = [a for a in sys.argv[1:] if not a.startswith("--")]
    seed = 20260928
    tier = "quick"
    if "--seed" in sys.argv:
        seed = int(sys.argv[sys.argv.index("--seed") + 1]); args.remove(str(seed))
    if "--tier" in sys.argv:
        tier = sys.argv[sys.argv.index("--tier") + 1]; args.remove(tier)
    props = args or sorted(families.PROPS)
    if not TOOLBIN:
        print("no llvm-tools in the nightly toolchain"); return 2
    tb = TOOLBIN[0]
    os.makedirs(SCRATCH, exist_ok=True)
    runner.build_harness()      # makes sure Cargo.toml / Cargo.lock of the harness exist
    env = {"RUSTFLAGS": "-C instrument-coverage", "CARGO_TARGET_DIR": SCRATCH, "RUSTUP_TOOLCHAIN": "nightly"}
    rc, out = runner.sh("cargo build --offline", timeout=1800, cwd=runner.harness_dir(), env=env)
    if rc != 0:
        print(out[-3000:]); return 2
    binpath = os.path.join(SCRATCH, "debug", "dtr_harness")
    prof = os.path.join(SCRATCH, "prof")
    shutil.rmtree(prof, ignore_errors=True)
    os.makedirs(prof)
    os.environ["LLVM_PROFILE_FILE"] = os.path.join(prof, "h-%p-%m.profraw")
    total = 0
    for p in props:
        cfg = families.PROPS[p]
        cases = families.corpus_cases(p) + cfg["cases"](seed, tier)
        total += len(cases)
        runner.run_sharded(binpath, cases, "cov." + p, timeout=900)
        print("%s: %d cases" % (p, len(cases)), flush=True)
    merged = os.path.join(SCRATCH, "all.profdata")
    subprocess.run([os.path.join(tb, "llvm-profdata"), "merge", "-sparse", "-o", merged] + glob.glob(os.path.join(prof, "*.profraw")), check=True)
    srcs = []
    for dp, _, fs in os.walk(os.path.join(REPO, "src")):
        for fn in fs:
            if fn.endswith(".rs") and fn not in ("tests.rs",):
                srcs.append(os.path.join(dp, fn))
    exp = subprocess.run([os.path.join(tb, "llvm-cov"), "export", "-format=text", "-instr-profile", merged, binpath] + srcs,
                         stdout=subprocess.PIPE, check=True).stdout
    data = json.loads(exp)["data"][0]
    os.makedirs(os.path.join(ROOT, "coverage"), exist_ok=True)
    summary = {"seed": seed, "tier": tier, "cases": total, "files": {}}
    unc = []
    for f in data["files"]:
        name = os.path.relpath(f["filename"], REPO)
        if not name.startswith("src/") or name.endswith("tests.rs"):
            continue
        s = f["summary"]
        summary["files"][name] = {"lines": s["lines"]["count"], "lines_covered": s["lines"]["covered"],
                                  "regions": s["regions"]["count"], "regions_covered": s["regions"]["covered"],
                                  "functions": s["functions"]["count"], "functions_covered": s["functions"]["covered"]}
        # segments: [line, col, count, hasCount, isRegionEntry, isGap]
        text = open(f["filename"], encoding="utf-8").read().split("\n")
        in_test = test_lines(text)
        zero = set()
        segs = f["segments"]
        for i, sg in enumerate(segs):
            line, col, count, has, entry, gap = sg[:6]
            if has and count == 0 and not gap:
                end = segs[i + 1][0] if i + 1 < len(segs) else line
                endcol = segs[i + 1][1] if i + 1 < len(segs) else 0
                for l in range(line, end + 1):
                    if l == end and endcol <= 1 and l != line:
                        continue
                    zero.add(l)
        for l in sorted(zero):
            if l - 1 < len(text) and l not in in_test and text[l - 1].strip() not in ("", "}", "{", "})", "};", ")", "),", "},"):
                unc.append("%s:%d: %s" % (name, l, text[l - 1].rstrip()))
    tl = sum(v["lines"] for v in summary["files"].values())
    tc = sum(v["lines_covered"] for v in summary["files"].values())
    summary["lines"] = tl
    summary["lines_covered"] = tc
    summary["uncovered_listed"] = len(unc)
    json.dump(summary, open(os.path.join(ROOT, "coverage", "summary.json"), "w"), indent=1)
    open(os.path.join(ROOT, "coverage", "uncovered.txt"), "w").write("\n".join(unc) + "\n")
    print("lines %d / %d covered (whole files, unit-test modules included in the totals); %d uncovered non-test lines listed in coverage/uncovered.txt" % (tc, tl, len(unc)))
    if "--keep" not in sys.argv:
        shutil.rmtree(SCRATCH, ignore_errors=True)
    return 0


def test_lines(text):
    """line numbers inside #[cfg(test)] mod blocks"""
    out = set()
    i = 0
    n = len(text)
    while i < n:
        if re.match(r"\s*#\[cfg\(test\)\]", text[i]):
            j = i + 1
            depth = 0
            started = False
            while j < n:
                depth += text[j].count("{") - text[j].count("}")
                if "{" in text[j]:
                    started = True
                out.add(j + 1)
                if started and depth <= 0:
                    break
                if not started and text[j].rstrip().endswith(";"):
                    break
                j += 1
            i = j
        i += 1
    return out


if __name__ == "__main__":
    sys.exit(main())
