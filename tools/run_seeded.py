#!/usr/bin/env python3
"""Re-run checks against an already confirmed seeded change:  tools/run_seeded.py <id> <prop> [<prop> ...]
Applies seeded/<id>/patch.diff to /repo, runs `./check <prop>` (quick), records the outcome in
seeded/<id>/meta.json, undoes the patch.  `tools/run_seeded.py --all` re-runs every seeded change against
the properties listed in its meta.json."""
import json, os, subprocess, sys
ROOT = os.path.abspath(os.path.join(os.path.dirname(os.path.abspath(__file__)), ".."))


def sh(cmd, cwd=None, timeout=3000):
    p = subprocess.run(cmd, shell=True, cwd=cwd, stdout=subprocess.PIPE, stderr=subprocess.STDOUT, timeout=timeout)
    return p.returncode, "\n".join(l for l in p.stdout.decode("utf-8", "replace").split("\n") if "WARNING conda" not in l)


def run(mid, props):
    d = os.path.join(ROOT, "seeded", mid)
    meta = json.load(open(os.path.join(d, "meta.json")))
    props = props or meta.get("properties", [])
    rc, out = sh("git -C /repo status --short")
    if out.strip():
        print("/repo not clean"); return 2
    rc, out = sh("git -C /repo apply %s" % os.path.join(d, "patch.diff"))
    if rc != 0:
        print(mid, "patch does not apply:", out[:300]); return 2
    try:
        for p in props:
            rc, out = sh("./check %s --tier quick" % p, cwd=ROOT)
            viol = [l for l in out.split("\n") if l.startswith("VIOLATION")]
            meta.setdefault("checks", {})[p] = {"exit": rc, "violations": len(viol), "first": viol[:2],
                                                 "summary": [l for l in out.split("\n") if l.startswith(p + " quick")][:1]}
            print(mid, p, "exit", rc, "violations", len(viol), viol[:1])
    finally:
        sh("git -C /repo checkout -- .")
        sh("python3 %s" % os.path.join(ROOT, "tools", "gen_tables.py"))
    meta["properties"] = sorted(set(meta.get("properties", []) + props))
    meta["detected_by"] = sorted(p for p, r in meta["checks"].items() if r["exit"] == 1)
    json.dump(meta, open(os.path.join(d, "meta.json"), "w"), indent=1)
    return 0


if __name__ == "__main__":
    if sys.argv[1] == "--all":
        for mid in sorted(os.listdir(os.path.join(ROOT, "seeded"))):
            if os.path.exists(os.path.join(ROOT, "seeded", mid, "meta.json")):
                run(mid, [])
    else:
        sys.exit(run(sys.argv[1], sys.argv[2:]))
