#!/usr/bin/env python3
"""Re-run checks against an already confirmed seeded change:  tools/run_seeded.py <id> <prop> [<prop> ...]
Applies seeded/<id>/patch.diff to a scratch worktree, runs a scratch copy of `./check <prop>` (quick) against it
(tools/altrun.py), records the outcome in seeded/<id>/meta.json.  `tools/run_seeded.py --all` re-runs every seeded change against
the properties listed in its meta.json."""
import json, os, subprocess, sys
ROOT = os.path.abspath(os.path.join(os.path.dirname(os.path.abspath(__file__)), ".."))


def sh(cmd, cwd=None, timeout=3000):
    p = subprocess.run(cmd, shell=True, cwd=cwd, stdout=subprocess.PIPE, stderr=subprocess.STDOUT, timeout=timeout)
    return p.returncode, "\n".join(l for l in p.stdout.decode("utf-8", "replace").split("\n") if "WARNING conda" not in l)


def run(mid, props):
    d = os.path.join(ROOT, "seeded", mid)
    meta = json.load(open(os.path.join(d, "meta.json")))
    props = props or meta.get("properties", [])
    sys.path.insert(0, os.path.join(ROOT, "tools"))
    import altrun
    try:
        with altrun.Alt(mid, os.path.join(d, "patch.diff")) as alt:
            for p in props:
                r, out = alt.check(p)
                meta.setdefault("checks", {})[p] = r
                print(mid, p, "exit", r["exit"], "violations", r["violations"], r["first"][:1], flush=True)
    except RuntimeError as ex:
        print(mid, ex); return 2
    meta["properties"] = sorted(set(meta.get("properties", []) + props))
    meta["detected_by"] = sorted(p for p, r in meta["checks"].items() if r["exit"] == 1)
    json.dump(meta, open(os.path.join(d, "meta.json"), "w"), indent=1)
    return 0


if __name__ == "__main__":
    if sys.argv[1] == "--all":
        for mid in sorted(os.listdir(os.path.join(ROOT, "seeded"))):
            if os.path.exists(os.path.join(ROOT, "seeded", mid, "meta.json")):
                run(mid, [])
    else:
        sys.exit(run(sys.argv[1], sys.argv[2:]))
