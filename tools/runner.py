#!/usr/bin/env python3
"""Runs case files through the implementation harness and the extracted model, in shards,
and parses the canonical traces."""
import os, subprocess, sys, time, shutil
from concurrent.futures import ThreadPoolExecutor

ROOT = os.path.abspath(os.path.join(os.path.dirname(os.path.abspath(__file__)), ".."))
WORK = os.path.join(ROOT, ".work")
REPO = os.environ.get("VERIF_REPO", "/repo")
NPROC = int(os.environ.get("VERIF_JOBS", "16"))

sys.path.insert(0, os.path.join(ROOT, "tools"))
import gen  # noqa: E402


def harness_dir():
    return os.path.join(ROOT, "harness")


def harness_bin(profile="debug"):
    return os.path.join(harness_dir(), "target", profile, "dtr_harness")


def model_bin():
    return os.path.join(ROOT, "ocaml", "_build", "model_run")


def sh(cmd, timeout=None, cwd=None, env=None):
    e = dict(os.environ)
    e["CARGO_NET_OFFLINE"] = "true"
    if env:
        e.update(env)
    p = subprocess.run(cmd, shell=isinstance(cmd, str), cwd=cwd, env=e, stdout=subprocess.PIPE,
                       stderr=subprocess.STDOUT, timeout=timeout)
    out = p.stdout.decode("utf-8", "replace")
    out = "\n".join(l for l in out.split("\n") if "WARNING conda" not in l)
    return p.returncode, out


def build_harness(release=False):
    """(re)build the harness against the current working tree of the repository"""
    hd = harness_dir()
    tmpl = open(os.path.join(hd, "Cargo.toml.in")).read().replace("@REPO@", REPO)
    ct = os.path.join(hd, "Cargo.toml")
    if not os.path.exists(ct) or open(ct).read() != tmpl:
        open(ct, "w").write(tmpl)
    lock = os.path.join(hd, "Cargo.lock")
    if not os.path.exists(lock):
        shutil.copy(os.path.join(REPO, "Cargo.lock"), lock)
    cmd = "cargo build --offline" + (" --release" if release else "")
    rc, out = sh(cmd, timeout=1500, cwd=hd)
    if rc != 0 and "Cargo.lock" in out:
        # the repository's lock file changed: start again from it
        shutil.copy(os.path.join(REPO, "Cargo.lock"), lock)
        rc, out = sh(cmd, timeout=1500, cwd=hd)
    return rc, out


def write_cases(path, cases, with_rng=None):
    with open(path, "w") as f:
        for c in cases:
            if with_rng is not None and c["id"] in with_rng:
                c = dict(c)
                c["rng"] = with_rng[c["id"]]
            gen.write_case(f, c)


def parse_traces(text):
    """-> dict: case id -> list of (tag, rest-of-line)"""
    res = {}
    cur = None
    for line in text.split("\n"):
        if not line:
            continue
        tag, _, rest = line.partition(" ")
        if tag == "CASE":
            cur = rest.strip()
            res[cur] = []
            continue
        if tag == "DONE":
            if cur is not None:
                res[cur].append(("DONE", ""))
            cur = None
            continue
        if cur is not None:
            res[cur].append((tag, rest))
    return res


def _big_stack():
    """the extracted model recurses on the length of its input (non-tail-recursive list functions): give it the largest
    stack the system allows, so that texts of 10^5 lines do not end in a native stack overflow"""
    import resource
    try:
        soft, hard = resource.getrlimit(resource.RLIMIT_STACK)
        resource.setrlimit(resource.RLIMIT_STACK, (hard, hard))
    except (ValueError, OSError):
        pass


def _run_shard(args):
    binpath, casefile, outfile, timeout = args
    t0 = time.time()
    try:
        with open(outfile, "wb") as out:
            # only the extracted MODEL gets the enlarged stack: the implementation runs with the ordinary one, so that
            # unbounded recursion in the crate still shows as what it is (a crash)
            p = subprocess.run([binpath, casefile], stdout=out, stderr=subprocess.DEVNULL, timeout=timeout,
                               preexec_fn=(_big_stack if "model" in os.path.basename(binpath) else None))
        return (p.returncode, time.time() - t0)
    except subprocess.TimeoutExpired:
        return ("timeout", time.time() - t0)


def run_sharded(binpath, cases, tag, with_rng=None, timeout=600, nshards=None):
    """-> (traces dict, problems list). A shard that crashes or times out is re-run case by case
    so that the offending case is identified."""
    os.makedirs(WORK, exist_ok=True)
    nshards = nshards or max(1, min(NPROC, (len(cases) + 24) // 25))
    shards = [cases[i::nshards] for i in range(nshards)]
    jobs = []
    for i, sc in enumerate(shards):
        cf = os.path.join(WORK, "%s.%d.cases" % (tag, i))
        of = os.path.join(WORK, "%s.%d.out" % (tag, i))
        write_cases(cf, sc, with_rng)
        jobs.append((binpath, cf, of, timeout))
    with ThreadPoolExecutor(max_workers=NPROC) as ex:
        results = list(ex.map(_run_shard, jobs))
    traces = {}
    problems = []
    for i, (job, (rc, _)) in enumerate(zip(jobs, results)):
        text = open(job[2], "rb").read().decode("utf-8", "replace")
        tr = parse_traces(text)
        traces.update(tr)
        if rc != 0:
            # find the case(s) without a DONE line and re-run them alone
            for c in shards[i]:
                t = tr.get(c["id"])
                if t is None or not t or t[-1][0] != "DONE":
                    cf = os.path.join(WORK, "%s.single.cases" % tag)
                    of = os.path.join(WORK, "%s.single.out" % tag)
                    write_cases(cf, [c], with_rng)
                    rc1, _ = _run_shard((binpath, cf, of, 60))
                    t1 = parse_traces(open(of, "rb").read().decode("utf-8", "replace")).get(c["id"], [])
                    if rc1 != 0 or not t1 or t1[-1][0] != "DONE":
                        problems.append((c["id"], "crash-or-hang rc=%s" % (rc1,)))
                        traces[c["id"]] = t1 + [("ABORT", str(rc1))]
                    else:
                        traces[c["id"]] = t1
    return traces, problems


def rng_events(trace):
    ev = []
    for tag, rest in trace:
        if tag == "RNG":
            ev += rest.split()
    return ev


def run_both(cases, tag, release=False, model=True, timeout=600):
    """run the implementation, feed its generator log to the model, run the model"""
    hb = harness_bin("release" if release else "debug")
    impl, iprob = run_sharded(hb, cases, tag + ".impl", timeout=timeout)
    if not model:
        return impl, {}, iprob, []

    def run_model(cs, t):
        rng = {c["id"]: rng_events(impl.get(c["id"], [])) for c in cs}
        # a draw log too long for the model's (quadratic) oracle is not passed on: check.py does not compare such a case
        rng = {k: v for k, v in rng.items() if v and len(v) <= 40000}
        return run_sharded(model_bin(), cs, t, with_rng=rng, timeout=timeout)
    # (a case flagged skip_model is too large for the model's interpreter - 68 000 live bindings - and is judged by an
    # intrinsic oracle of its family alone)
    mod, mprob = run_model([c for c in cases if not c.get("skip_model")], tag + ".model")
    # The harness' per-case watchdog (4 s) can fire spuriously on a loaded machine.  Where the implementation was
    # cut off by the watchdog but the model terminates, the HANG verdict is only believed after the case, run alone
    # with a 60 s limit, still does not finish.
    def model_ends(t):
        return not (any(x == "END" and r.startswith("oof") for x, r in t) or any(x == "ABORT" for x, _ in t))
    hung = [c for c in cases if any(t == "HANG" for t, _ in impl.get(c["id"], [])) and not c.get("no_model") and mod.get(c["id"]) and model_ends(mod[c["id"]])]
    if hung:
        os.environ["VERIF_CASE_TIMEOUT_MS"] = "60000"
        try:
            for c in hung[:20]:
                t1, _ = run_sharded(hb, [c], tag + ".rehang", timeout=200, nshards=1)
                if c["id"] in t1:
                    impl[c["id"]] = t1[c["id"]]
        finally:
            del os.environ["VERIF_CASE_TIMEOUT_MS"]
        m2, _ = run_model(hung[:20], tag + ".remodel")
        mod.update(m2)
    return impl, mod, iprob, mprob


def project(trace, tags, first_word_only=()):
    out = []
    for tag, rest in trace:
        if tag in tags:
            rest = rest.split(" #")[0].rstrip()
            if tag in first_word_only:
                rest = rest.split(" ")[0] if rest else ""
            out.append(tag + " " + rest)
    return out
