//! Correspondence harness: runs the real crate on a case file and prints the canonical
//! trace (same format as ocaml/model_run.ml prints for the Coq model).
//! Everything is observed through the public API, plus the `verif-hooks` feature for the
//! generator log / seed override and the raw lexers.
use digital_test_runner::{
    dig, static_test, verif_hooks, ExpectedValue, InputEntry, InputValue, OutputEntry, OutputValue,
    ParsedTestCase, Signal, SignalType, TestCase, TestDriver,
};
use std::fmt::Write as _;
use std::io::Read;
use std::panic::{catch_unwind, AssertUnwindSafe};
use std::str::FromStr;

// ------------------------------------------------------------------ text helpers

fn hex_decode(h: &str) -> String {
    let bytes: Vec<u8> = (0..h.len() / 2)
        .map(|i| u8::from_str_radix(&h[2 * i..2 * i + 2], 16).unwrap())
        .collect();
    String::from_utf8(bytes).expect("case file holds valid UTF-8")
}

fn hex_encode(s: &str) -> String {
    s.bytes().map(|b| format!("{b:02x}")).collect()
}

fn nm(s: &str) -> String {
    if !s.is_empty() && s.bytes().all(|b| b.is_ascii_alphanumeric() || b == b'_') {
        s.to_string()
    } else {
        format!("%{}", hex_encode(s))
    }
}

fn inval_s(v: InputValue) -> String {
    match v {
        InputValue::Value(n) => n.to_string(),
        InputValue::Z => "Z".into(),
    }
}
fn outval_s(v: OutputValue) -> String {
    match v {
        OutputValue::Value(n) => n.to_string(),
        OutputValue::Z => "Z".into(),
        OutputValue::X => "X".into(),
    }
}
fn expval_s(v: ExpectedValue) -> String {
    match v {
        ExpectedValue::Value(n) => n.to_string(),
        ExpectedValue::Z => "Z".into(),
        ExpectedValue::X => "X".into(),
    }
}

fn signal_s(s: &Signal) -> String {
    let (t, d) = match &s.typ {
        SignalType::Input { default } => ("I", format!(":{}", inval_s(*default))),
        SignalType::Output => ("O", String::new()),
        SignalType::Bidirectional { default } => ("B", format!(":{}", inval_s(*default))),
        SignalType::Virtual { .. } => ("V", String::new()),
    };
    format!("{}:{}:{}{}", nm(&s.name), t, s.bits, d)
}

fn inputs_s(inputs: &[InputEntry<'_>]) -> String {
    inputs
        .iter()
        .map(|e| {
            format!(
                "{}={}{}",
                nm(&e.signal.name),
                inval_s(e.value),
                if e.changed { "*" } else { "" }
            )
        })
        .collect::<Vec<_>>()
        .join(" ")
}

/// leading identifier of a Debug rendering
fn ident(s: &str) -> &str {
    let end = s
        .find(|c: char| !(c.is_ascii_alphanumeric() || c == '_'))
        .unwrap_or(s.len());
    &s[..end]
}

// ------------------------------------------------------------------ case files

#[derive(Clone, Debug)]
enum Fault {
    Err(u64),
    Drop(usize),
    Add(usize),
    Dup(usize),
    Swap(usize, usize),
    Subst(usize, usize),
    /// the i-th entry is reported for a signal of the same name and type but one more bit
    Widen(usize),
    /// an entry for a signal the test does not know (signal s with one more bit) is appended, value 7
    AddW(usize),
    /// from this call on the driver's own signal table has entries i and j exchanged IN PLACE (same addresses, other signals)
    SwapSig(usize, usize),
}

#[derive(Clone, Debug, Default)]
struct Case {
    id: String,
    kind: String,
    src: String,
    sigs: Vec<Signal>,
    layout: Vec<usize>,
    table: Vec<Vec<OutputValue>>,
    echo: bool,
    wdefault: bool,
    faults: Vec<(usize, Fault)>,
    max: usize,
    seed: u64,
    sched: Vec<usize>,
    niter: usize,
    xml: String,
    cont: bool,
    rebits: Vec<(usize, usize)>,
}

fn parse_inval(s: &str) -> InputValue {
    if s == "Z" {
        InputValue::Z
    } else {
        InputValue::Value(s.parse().unwrap())
    }
}
fn parse_outval(s: &str) -> OutputValue {
    match s {
        "Z" => OutputValue::Z,
        "X" => OutputValue::X,
        _ => OutputValue::Value(s.parse().unwrap()),
    }
}

fn read_cases(text: &str) -> Vec<Case> {
    let mut cases = vec![];
    let mut cur = Case::default();
    for line in text.lines() {
        let f: Vec<&str> = line.split(' ').filter(|x| !x.is_empty()).collect();
        if f.is_empty() {
            continue;
        }
        match f[0] {
            "case" => {
                cur = Case {
                    id: f[1].to_string(),
                    kind: "run".into(),
                    max: 1000,
                    seed: 1,
                    niter: 2,
                    ..Default::default()
                }
            }
            "kind" => cur.kind = f[1].to_string(),
            "src" => cur.src = hex_decode(f.get(1).copied().unwrap_or("")),
            "xml" => cur.xml = hex_decode(f.get(1).copied().unwrap_or("")),
            "sig" => {
                let name = hex_decode(f[1]);
                let bits: usize = f[3].parse().unwrap();
                let dflt = f.get(4).copied().unwrap_or("0");
                let sig = match f[2] {
                    "I" => Signal {
                        name,
                        bits,
                        typ: SignalType::Input {
                            default: parse_inval(dflt),
                        },
                    },
                    "B" => Signal {
                        name,
                        bits,
                        typ: SignalType::Bidirectional {
                            default: parse_inval(dflt),
                        },
                    },
                    _ => Signal {
                        name,
                        bits,
                        typ: SignalType::Output,
                    },
                };
                cur.sigs.push(sig);
            }
            "layout" => cur.layout = f[1..].iter().map(|x| x.parse().unwrap()).collect(),
            "row" => cur.table.push(f[1..].iter().map(|x| parse_outval(x)).collect()),
            "echo" => cur.echo = f[1] == "1",
            "wdefault" => cur.wdefault = f[1] == "1",
            "fault" => {
                let k: usize = f[1].parse().unwrap();
                let a = |i: usize| -> usize { f[3 + i].parse().unwrap() };
                let fault = match f[2] {
                    "err" => Fault::Err(f[3].parse().unwrap()),
                    "drop" => Fault::Drop(a(0)),
                    "add" => Fault::Add(a(0)),
                    "dup" => Fault::Dup(a(0)),
                    "swap" => Fault::Swap(a(0), a(1)),
                    "subst" => Fault::Subst(a(0), a(1)),
                    "widen" => Fault::Widen(a(0)),
                    "addw" => Fault::AddW(a(0)),
                    "swapsig" => Fault::SwapSig(a(0), a(1)),
                    other => panic!("bad fault {other}"),
                };
                cur.faults.push((k, fault));
            }
            "max" => cur.max = f[1].parse().unwrap(),
            "seed" => cur.seed = f[1].parse().unwrap(),
            "sched" => cur.sched = f[1..].iter().map(|x| x.parse().unwrap()).collect(),
            "niter" => cur.niter = f[1].parse().unwrap(),
            "cont" => cur.cont = f[1] == "1",
            "rebits" => cur.rebits.push((f[1].parse().unwrap(), f[2].parse().unwrap())),
            "end" => cases.push(cur.clone()),
            _ => {}
        }
    }
    cases
}

// ------------------------------------------------------------------ the scripted driver
// Same script as coq/theories/Script.v.

#[derive(Debug)]
struct DrvError(u64);
impl std::fmt::Display for DrvError {
    fn fmt(&self, f: &mut std::fmt::Formatter<'_>) -> std::fmt::Result {
        write!(f, "scripted driver error {}", self.0)
    }
}
impl std::error::Error for DrvError {}

#[derive(Default)]
struct Shared {
    /// log lines of the calls not yet printed
    log: Vec<String>,
    /// what the driver itself returned: (call number, signal name, value)
    record: Vec<(usize, String, OutputValue)>,
}
type Sh = std::rc::Rc<std::cell::RefCell<Shared>>;

thread_local! {
    /// when set, every driver call first parses, binds and completely iterates another (static) test - a driver that uses
    /// the library itself while it is being called
    static REENTRANT: std::cell::Cell<bool> = const { std::cell::Cell::new(false) };
}

fn nested_use_of_the_library() {
    let src = "X Y W\n\n\n\n\nlet q = 3;\n1 0 (q)\nloop(i,2)\nC X (i+q)\nend loop\n(random(5)) 1 1\nresetRandom;\n";
    let sigs = vec![
        Signal::input("X", 1, InputValue::Value(0)),
        Signal::output("Y", 1),
        Signal::input("W", 8, InputValue::Z),
    ];
    if let Ok(p) = ParsedTestCase::from_str(src) {
        if let Ok(t) = p.with_signals(sigs) {
            if let Ok(it) = t.try_iter_static() {
                for _ in it {}
            }
        }
    }
}

struct Script {
    /// number of signals of the test; `sigs` holds them followed by their widened copies
    n: usize,
    sigs: Vec<Signal>,
    layout: Vec<usize>,
    table: Vec<Vec<OutputValue>>,
    echo: bool,
    faults: Vec<(usize, Fault)>,
    /// number of calls so far
    k: usize,
    sh: Sh,
}

impl Script {
    fn new(c: &Case, sigs: &[Signal], sh: Sh) -> Self {
        // the signal list, followed by a copy of every signal with one more bit (same name, same type): what a driver
        // reports when its own description of a pin differs from the test's (fault `widen`)
        let mut all = sigs.to_vec();
        for s in sigs {
            let mut w = s.clone();
            w.bits += 1;
            all.push(w);
        }
        Script {
            n: sigs.len(),
            sigs: all,
            layout: c.layout.clone(),
            table: c.table.clone(),
            echo: c.echo,
            faults: c.faults.clone(),
            k: 0,
            sh,
        }
    }

    fn fault_at(&self, k: usize) -> Option<Fault> {
        self.faults.iter().find(|(i, _)| *i == k).map(|(_, f)| f.clone())
    }

    fn answer(&mut self, inputs: &[InputEntry<'_>], kind: &str) -> Result<Vec<(usize, OutputValue)>, DrvError> {
        let k = self.k;
        self.k += 1;
        if REENTRANT.with(|r| r.get()) {
            REENTRANT.with(|r| r.set(false));
            let log = verif_hooks::take_rng_log();
            let _ = catch_unwind(AssertUnwindSafe(nested_use_of_the_library));
            let _ = verif_hooks::take_rng_log();
            for ev in log {
                // (the nested run's generator events are not part of this run's log)
                let _ = ev;
            }
            REENTRANT.with(|r| r.set(true));
        }
        self.sh.borrow_mut().log.push(format!("CALL {} {}", kind, inputs_s(inputs)));
        let fault = self.fault_at(k);
        // every in-place exchange scheduled for this call (there may be several), in order
        let swaps: Vec<(usize, usize)> = self
            .faults
            .iter()
            .filter_map(|(kk, f)| match f {
                Fault::SwapSig(i, j) if *kk == k => Some((*i, *j)),
                _ => None,
            })
            .collect();
        for (i, j) in swaps {
            if i < self.n && j < self.n {
                self.sigs.swap(i, j);
                // ... and with them their widened copies: a widened entry describes what the table says NOW
                self.sigs.swap(self.n + i, self.n + j);
            }
        }
        if let Some(Fault::Err(code)) = fault {
            return Err(DrvError(code));
        }
        if kind == "W" {
            return Ok(vec![]);
        }
        let mut sum: i128 = 0;
        for (i, e) in inputs.iter().enumerate() {
            let v = match e.value {
                InputValue::Value(v) => v as i128,
                InputValue::Z => 0,
            };
            sum += (i as i128 + 1) * v;
        }
        // entries: (index into self.sigs, value)
        let mut outs: Vec<(usize, OutputValue)> = vec![];
        for (j, &si) in self.layout.iter().enumerate() {
            if si >= self.n {
                continue;
            }
            let base = if self.table.is_empty() {
                OutputValue::Value(0)
            } else {
                let row = &self.table[k % self.table.len()];
                row.get(j).copied().unwrap_or(OutputValue::Value(0))
            };
            let v = match base {
                OutputValue::Value(v) if self.echo => {
                    OutputValue::Value((v as i128 + sum).rem_euclid(1i128 << 64) as u64 as i64)
                }
                other => other,
            };
            outs.push((si, v));
        }
        match fault {
            Some(Fault::Drop(i)) => {
                if i < outs.len() {
                    outs.remove(i);
                }
            }
            Some(Fault::Add(s)) => {
                if s < self.n {
                    outs.push((s, OutputValue::Value(7)));
                }
            }
            Some(Fault::Dup(i)) => {
                if i < outs.len() {
                    let o = outs[i];
                    outs.push(o);
                }
            }
            Some(Fault::Swap(i, j)) => {
                if i < outs.len() && j < outs.len() {
                    outs.swap(i, j);
                }
            }
            Some(Fault::Subst(i, s)) => {
                if i < outs.len() && s < self.n {
                    outs[i].0 = s;
                }
            }
            Some(Fault::AddW(sg)) => {
                if sg < self.n {
                    outs.push((sg + self.n, OutputValue::Value(7)));
                }
            }
            Some(Fault::Widen(i)) => {
                if i < outs.len() && outs[i].0 < self.n {
                    outs[i].0 += self.n;
                }
            }
            _ => {}
        }
        for (si, v) in &outs {
            self.sh.borrow_mut().record.push((k, self.sigs[*si].name.clone(), *v));
        }
        Ok(outs)
    }
}

/// inherits the trait's default write_input
struct DriverDefaultW(Script);
/// overrides write_input
struct DriverOverrideW(Script);

impl TestDriver for DriverDefaultW {
    type Error = DrvError;
    fn write_input_and_read_output(&mut self, inputs: &[InputEntry<'_>]) -> Result<Vec<OutputEntry<'_>>, DrvError> {
        let outs = self.0.answer(inputs, "RW")?;
        Ok(outs
            .into_iter()
            .map(|(si, value)| OutputEntry {
                signal: &self.0.sigs[si],
                value,
            })
            .collect())
    }
}

impl TestDriver for DriverOverrideW {
    type Error = DrvError;
    fn write_input_and_read_output(&mut self, inputs: &[InputEntry<'_>]) -> Result<Vec<OutputEntry<'_>>, DrvError> {
        let outs = self.0.answer(inputs, "RW")?;
        Ok(outs
            .into_iter()
            .map(|(si, value)| OutputEntry {
                signal: &self.0.sigs[si],
                value,
            })
            .collect())
    }
    fn write_input(&mut self, inputs: &[InputEntry<'_>]) -> Result<(), DrvError> {
        self.0.answer(inputs, "W").map(|_| ())
    }
}

thread_local! {
    /// the script behind the zero-sized driver below
    static ZST_SCRIPT: std::cell::RefCell<Option<Script>> = const { std::cell::RefCell::new(None) };
}

/// A driver whose TYPE has no size (its state lives elsewhere - here in a thread-local, in real life in a global or
/// behind an FFI handle): it is a driver like any other.
struct DriverZst;

impl TestDriver for DriverZst {
    type Error = DrvError;
    fn write_input_and_read_output(&mut self, inputs: &[InputEntry<'_>]) -> Result<Vec<OutputEntry<'_>>, DrvError> {
        let (outs, sigs) = ZST_SCRIPT.with(|z| {
            let mut z = z.borrow_mut();
            let sc = z.as_mut().expect("script installed");
            let outs = sc.answer(inputs, "RW");
            (outs, sc.sigs.clone())
        });
        let outs = outs?;
        // the entries must borrow signals that outlive the call: leak a copy of the table (a few hundred bytes per call, test code)
        let sigs: &'static [Signal] = Box::leak(sigs.into_boxed_slice());
        Ok(outs.into_iter().map(|(si, value)| OutputEntry { signal: &sigs[si], value }).collect())
    }
    fn write_input(&mut self, inputs: &[InputEntry<'_>]) -> Result<(), DrvError> {
        ZST_SCRIPT.with(|z| z.borrow_mut().as_mut().expect("script installed").answer(inputs, "W").map(|_| ()))
    }
}

// ------------------------------------------------------------------ printing results

fn parse_err_line(err: &digital_test_runner::errors::ParseError, src: &str) -> String {
    let dbg = format!("{err:?}");
    // ParseError { kind: <Kind...>, at: [..], source_code: .. }
    let kind_full = dbg
        .strip_prefix("ParseError { kind: ")
        .map(|s| s.split(", at: [").next().unwrap_or(s))
        .unwrap_or("?");
    let name = ident(kind_full);
    // token kinds / numbers carried by the kind, in order
    let mut detail = String::new();
    for part in kind_full.split(|c: char| c == '{' || c == ',' || c == '}' || c == '(' || c == ')') {
        if let Some((key, v)) = part.split_once(':') {
            let key = key.trim();
            let v = v.trim();
            if matches!(key, "expected_kind" | "found_kind" | "kind" | "expected" | "found") {
                let _ = write!(detail, ":{v}");
            }
        }
    }
    let spans = err
        .at
        .iter()
        .map(|s| format!("{}..{}", s.start, s.end))
        .collect::<Vec<_>>()
        .join(",");
    // intrinsic span check (C09): in range, ordered, on character boundaries
    let valid = err.at.iter().all(|s| {
        s.start <= s.end && s.end <= src.len() && src.is_char_boundary(s.start) && src.is_char_boundary(s.end)
    });
    // ... and what the error hands to a renderer through miette's Diagnostic::labels() are these very locations
    let labels_same = {
        use miette::Diagnostic;
        let got: Vec<(usize, usize)> = err.labels().map(|it| it.map(|l| (l.offset(), l.len())).collect()).unwrap_or_default();
        let want: Vec<(usize, usize)> = err.at.iter().map(|s| (s.start, s.end.saturating_sub(s.start))).collect();
        got == want
    };
    let line = format!(
        "PARSE err {name}{detail} {spans}\nSPANS {}",
        if !valid { "INVALID" } else if !labels_same { "INVALID labels() differ from `at`" } else { "valid" }
    );
    line
}

/// the error can be rendered as a diagnostic with the source attached (C09)
fn render_line(err: digital_test_runner::errors::ParseError, src: &str) -> String {
    let src = src.to_string();
    let rendered = catch_unwind(AssertUnwindSafe(move || {
        let mut out = String::new();
        let handler = miette::GraphicalReportHandler::new_themed(miette::GraphicalTheme::unicode_nocolor());
        let report = miette::Report::new(err).with_source_code(src);
        handler.render_report(&mut out, report.as_ref()).is_ok() && !out.is_empty()
    }))
    .unwrap_or(false);
    format!("RENDER {}", if rendered { "ok" } else { "FAILED" })
}

fn unused_placeholder() -> String {
    String::new()
}

fn testcase_prog(tc_display: &str) -> String {
    // Display for TestCase: first line = signals, then one line per statement
    match tc_display.split_once('\n') {
        Some((_, rest)) => rest.to_string(),
        None => String::new(),
    }
}

fn iteration_err_s<E: std::error::Error + 'static>(
    err: &digital_test_runner::errors::IterationError<E>,
    code: impl Fn(&E) -> u64,
) -> String {
    match err {
        digital_test_runner::errors::IterationError::Driver(e) => format!("driver {}", code(e)),
        digital_test_runner::errors::IterationError::Runtime(rt) => runtime_err_s(rt),
    }
}

fn runtime_err_s(rt: &digital_test_runner::errors::RuntimeError) -> String {
    let dbg = format!("{rt:?}");
    // RuntimeError(<Kind>(..)) ; ExprError(ExprError(<Kind>..))
    let inner = dbg.strip_prefix("RuntimeError(").unwrap_or(&dbg);
    let kind = ident(inner);
    if kind == "ExprError" {
        let rest = inner
            .strip_prefix("ExprError(ExprError(")
            .unwrap_or(inner);
        format!("runtime ExprError.{}", ident(rest))
    } else {
        format!("runtime {kind}")
    }
}

/// The values a run with this seed draws for this sequence of bounds when the program is the
/// simplest one that draws them: one data row `(random(b))` per bound, static iteration (no driver).
/// `None` if that plain program does not yield them (then nothing is claimed).
fn calibration_draws(seed: u64, bounds: &[i64]) -> Option<Vec<i64>> {
    let mut src = String::from("CALIN\n");
    for b in bounds {
        let _ = writeln!(src, "(random({b}))");
    }
    let tc = ParsedTestCase::from_str(&src)
        .ok()?
        .with_signals(vec![Signal::input("CALIN", 64, 0)])
        .ok()?;
    let saved = verif_hooks::take_rng_log();
    verif_hooks::set_seed_override(Some(seed));
    let res = catch_unwind(AssertUnwindSafe(|| {
        if let Ok(it) = tc.try_iter_static() {
            for _ in it {}
        }
    }));
    let log = verif_hooks::take_rng_log();
    // put the caller's log back
    drop(saved);
    res.ok()?;
    let draws: Vec<i64> = log
        .iter()
        .filter_map(|e| if let verif_hooks::RngEvent::Draw(d) = e { Some(*d) } else { None })
        .collect();
    if draws.len() == bounds.len() {
        Some(draws)
    } else {
        None
    }
}

/// RNG line (the generator events of the run) and RNGCAL line: every segment of the run's draws between
/// (re)seedings compared with the calibration draws for the same seed and the same sequence of bounds -
/// "the run's draws are THE stream of one generator, (re)started at resetRandom, one value per evaluation".
fn rng_lines(seed: u64) -> String {
    let log = verif_hooks::take_rng_log();
    let mut s = String::from("RNG");
    let mut segs: Vec<(Vec<i64>, Vec<i64>)> = vec![(vec![], vec![])];
    let mut bound = 0i64;
    for ev in &log {
        match ev {
            verif_hooks::RngEvent::Bound(b) => {
                let _ = write!(s, " b{b}");
                bound = *b;
            }
            verif_hooks::RngEvent::Draw(d) => {
                let _ = write!(s, " d{d}");
                let last = segs.last_mut().unwrap();
                last.0.push(bound);
                last.1.push(*d);
            }
            verif_hooks::RngEvent::Reset => {
                s.push_str(" R");
                segs.push((vec![], vec![]));
            }
        }
    }
    let mut cal = String::from("RNGCAL");
    let mut checked = 0;
    for (k, (bounds, draws)) in segs.iter().enumerate() {
        if bounds.is_empty() || bounds.len() > 400 {
            continue;
        }
        match calibration_draws(seed, bounds) {
            Some(want) => {
                checked += 1;
                if let Some(i) = (0..draws.len()).find(|&i| draws[i] != want[i]) {
                    let _ = write!(
                        cal,
                        " differs:segment{k}:draw{i}:bound{}:got{}:single-stream{}",
                        bounds[i], draws[i], want[i]
                    );
                    break;
                }
            }
            None => {
                let _ = write!(cal, " nocal:segment{k}");
            }
        }
    }
    let _ = write!(cal, " checked{checked}");
    verif_hooks::set_seed_override(Some(seed));
    format!("{s}\n{cal}")
}

fn rng_line() -> String {
    let mut s = String::from("RNG");
    for ev in verif_hooks::take_rng_log() {
        match ev {
            verif_hooks::RngEvent::Bound(b) => {
                let _ = write!(s, " b{b}");
            }
            verif_hooks::RngEvent::Draw(d) => {
                let _ = write!(s, " d{d}");
            }
            verif_hooks::RngEvent::Reset => s.push_str(" R"),
        }
    }
    s
}

thread_local! {
    /// inconsistencies between public API functions that should agree (reported once per case as APICHK)
    static API_ISSUES: std::cell::RefCell<Vec<String>> = const { std::cell::RefCell::new(Vec::new()) };
}

fn api_issue(what: String) {
    API_ISSUES.with(|v| {
        let mut v = v.borrow_mut();
        if v.len() < 3 {
            v.push(what);
        }
    });
}

fn api_line() -> String {
    let v = API_ISSUES.with(|v| std::mem::take(&mut *v.borrow_mut()));
    if v.is_empty() {
        "APICHK ok".to_string()
    } else {
        format!("APICHK FAILED {}", v.join(" ; "))
    }
}

/// the small public functions on values and signals agree with each other and with the data they wrap
fn api_check_row(row: &digital_test_runner::DataRow<'_>) {
    for r in &row.outputs {
        let a = r.expected.check(r.output);
        let b = r.output.check(r.expected);
        if a != b || a != r.check() {
            api_issue(format!("check disagrees: ExpectedValue::check={a} OutputValue::check={b} entry.check={}", r.check()));
        }
        if r.is_checked() != !matches!(r.expected, ExpectedValue::X) {
            api_issue(format!("is_checked={} for expected {}", r.is_checked(), expval_s(r.expected)));
        }
        let ov = match r.output { OutputValue::Value(n) => Some(n), _ => None };
        if r.output.value() != ov {
            api_issue(format!("OutputValue::value() of {}", outval_s(r.output)));
        }
        if format!("{}", r.output) != outval_s(r.output) || format!("{}", r.expected) != expval_s(r.expected) {
            api_issue(format!("Display of output {} / expected {}", outval_s(r.output), expval_s(r.expected)));
        }
    }
    // == on the public types is the derived, structural one: everything equals its own copy
    #[allow(clippy::eq_op)]
    if row.clone() != *row
        || row.outputs.iter().any(|r| r.clone() != *r || r.output != r.output.clone() || r.expected != r.expected.clone())
        || row.inputs.iter().any(|e| e.clone() != *e || e.value != e.value.clone())
        || OutputValue::X != OutputValue::X
        || OutputValue::Z != OutputValue::Z
        || ExpectedValue::X != ExpectedValue::X
        || InputValue::Z != InputValue::Z
    {
        api_issue("a row, entry or value is not equal (==) to its own clone".to_string());
    }
    let failing: Vec<*const _> = row.failing_outputs().map(|r| r as *const _).collect();
    let want: Vec<*const _> = row.outputs.iter().filter(|r| !r.check()).map(|r| r as *const _).collect();
    if failing != want {
        api_issue("failing_outputs() is not the list of entries whose check() is false".to_string());
    }
    for e in &row.inputs {
        let iv = match e.value { InputValue::Value(n) => Some(n), InputValue::Z => None };
        if e.value.value() != iv || format!("{}", e.value) != inval_s(e.value) {
            api_issue(format!("InputValue::value()/Display of {}", inval_s(e.value)));
        }
        let (b0, b9) = (format!("{:b}", e.value), format!("{:9b}", e.value));
        let (w0, w9) = match e.value {
            InputValue::Value(n) => (format!("{n:b}"), format!("{n:9b}")),
            InputValue::Z => ("z".to_string(), "z".repeat(9)),
        };
        if b0 != w0 || b9 != w9 {
            api_issue(format!("Binary formatting of input {}: {b0:?} {b9:?}", inval_s(e.value)));
        }
    }
}

fn api_check_signals(signals: &[Signal]) {
    for s in signals {
        let (i, o, b, d, disp) = match &s.typ {
            SignalType::Input { default } => (true, false, false, Some(*default), Some(format!("{}({}:{})", s.name, s.bits, inval_s(*default)))),
            SignalType::Output => (false, true, false, None, Some(format!("{}({})", s.name, s.bits))),
            SignalType::Bidirectional { default } => (true, true, true, Some(*default), Some(format!("{}[{}:{}]", s.name, s.bits, inval_s(*default)))),
            SignalType::Virtual { .. } => (false, false, false, None, None),
        };
        if s.is_input() != i || s.is_output() != o || s.is_bidirectional() != b || s.default_value() != d {
            api_issue(format!("predicates of signal {}", signal_s(s)));
        }
        if let Some(want) = disp {
            if format!("{s}") != want {
                api_issue(format!("Display of signal {}: {}", signal_s(s), format!("{s}")));
            }
        }
    }
}

fn row_line(row: &digital_test_runner::DataRow<'_>) -> String {
    api_check_row(row);
    let outs = row
        .outputs
        .iter()
        .map(|r| {
            format!(
                "{}:{}:{}:{}:{}",
                nm(&r.signal.name),
                outval_s(r.output),
                expval_s(r.expected),
                r.check() as u8,
                r.is_checked() as u8
            )
        })
        .collect::<Vec<_>>()
        .join(" ");
    let failing = row
        .failing_outputs()
        .map(|r| nm(&r.signal.name))
        .collect::<Vec<_>>()
        .join(",");
    format!("ROW {} | {} | {} | failing={}", row.line, inputs_s(&row.inputs), outs, failing)
}

fn vars_line(vars: std::collections::HashMap<String, i64>) -> String {
    let mut v: Vec<(String, i64)> = vars.into_iter().collect();
    v.sort();
    format!(
        "VARS {}",
        v.iter().map(|(k, x)| format!("{}={}", nm(k), x)).collect::<Vec<_>>().join(" ")
    )
}

// ------------------------------------------------------------------ runners

fn out(buf: &mut String, s: &str) {
    buf.push_str(s);
    buf.push('\n');
}

/// parse (under catch_unwind); prints the PARSE line and, on success, what the parse result
/// shows through its public fields
/// Texts that look like `src` to a careless comparison: the same words and the same number of lines with a blank
/// line moved, the same length with one digit changed, one row exchanged with its neighbour.  They are parsed (and the
/// results dropped) right before the case's own text: a parse is a function of ITS text, whatever was parsed before.
fn decoys(src: &str) -> Vec<String> {
    let mut out = vec![];
    let lines: Vec<&str> = src.split('\n').collect();
    // a blank line moved one line up or down (line count and word sequence unchanged)
    if let Some(i) = (1..lines.len().saturating_sub(1)).find(|&i| lines[i].trim().is_empty() && !lines[i + 1].trim().is_empty()) {
        let mut l = lines.clone();
        l.swap(i, i + 1);
        out.push(l.join("\n"));
    }
    if let Some(i) = (2..lines.len()).rev().find(|&i| lines[i].trim().is_empty() && !lines[i - 1].trim().is_empty()) {
        let mut l = lines.clone();
        l.swap(i, i - 1);
        out.push(l.join("\n"));
    }
    // no blank line to move: one inserted after the header and the last line break dropped (same number of lines)
    if out.is_empty() && lines.len() > 2 {
        let mut l = lines.clone();
        l.insert(1, "");
        if l.last() == Some(&"") {
            l.pop();
        }
        out.push(l.join("\n"));
    }
    // same length, one decimal digit changed (the last one of the text)
    if let Some(i) = src.rfind(|ch: char| ch.is_ascii_digit()) {
        let mut bytes = src.as_bytes().to_vec();
        bytes[i] = if bytes[i] == b'1' { b'0' } else { b'1' };
        if let Ok(t) = String::from_utf8(bytes) {
            out.push(t);
        }
    }
    // two neighbouring non-blank lines after the header exchanged
    if let Some(i) = (1..lines.len().saturating_sub(1)).find(|&i| !lines[i].trim().is_empty() && !lines[i + 1].trim().is_empty() && lines[i] != lines[i + 1]) {
        let mut l = lines.clone();
        l.swap(i, i + 1);
        out.push(l.join("\n"));
    }
    // broken parentheses (parsing fails INSIDE them): an opening parenthesis doubled, the last closing one removed
    if let Some(i) = src.find('(') {
        out.push(format!("{}({}", &src[..i], &src[i..]));
    }
    if let Some(i) = src.rfind(')') {
        out.push(format!("{}{}", &src[..i], &src[i + 1..]));
    }
    // a text that fails deep inside nested parentheses, and one that fails deep inside nested blocks
    out.push(format!("A\n{};\n", "(".repeat(40)));
    out.push(format!("A\n{}1 1\n", "loop(i,2)\nwhile(1)\n".repeat(12)));
    // the most similar texts are parsed last (directly before the real one)
    out.reverse();
    out
}

fn do_parse(c: &Case, buf: &mut String) -> Option<ParsedTestCase> {
    // the text is parsed from a buffer that held a look-alike of the same length a moment ago (a reused read buffer):
    // what is parsed is the CONTENT of the string slice, not its address
    let mut src = String::with_capacity(c.src.len() + 8);
    if c.src.len() < 20_000 {
        for d in decoys(&c.src) {
            if d.len() == c.src.len() {
                src.clear();
                src.push_str(&d);
                let _ = catch_unwind(AssertUnwindSafe(|| ParsedTestCase::from_str(&src).map(|_| ()).map_err(|_| ())));
            } else {
                let _ = catch_unwind(AssertUnwindSafe(|| ParsedTestCase::from_str(&d).map(|_| ()).map_err(|_| ())));
            }
        }
    }
    // ... and once more directly before the real text, in the very same buffer
    if let Some(d) = decoys(&c.src).into_iter().find(|d| d.len() == c.src.len() && c.src.len() < 20_000) {
        src.clear();
        src.push_str(&d);
        let _ = catch_unwind(AssertUnwindSafe(|| ParsedTestCase::from_str(&src).map(|_| ()).map_err(|_| ())));
    }
    src.clear();
    src.push_str(&c.src);
    match catch_unwind(AssertUnwindSafe(|| ParsedTestCase::from_str(&src))) {
        Err(p) => {
            out(buf, &format!("PARSE panic # {}", panic_msg(&p)));
            None
        }
        Ok(Err(e)) => {
            out(buf, &parse_err_line(&e, &src));
            out(buf, &render_line(e, &src));
            None
        }
        Ok(Ok(p)) => {
            out(buf, "PARSE ok");
            out(
                buf,
                &format!("HEADER {}", p.signals.iter().map(|s| nm(s)).collect::<Vec<_>>().join(" ")),
            );
            // line fields of the DataRow statements, in source order, from the Debug rendering
            let dbg = format!("{p:?}");
            let mut lines = vec![];
            let mut rest = dbg.as_str();
            while let Some(i) = rest.find("line: ") {
                rest = &rest[i + 6..];
                let n = ident(rest);
                if !n.is_empty() && n.bytes().all(|b| b.is_ascii_digit()) {
                    lines.push(n.to_string());
                }
            }
            out(buf, &format!("PLINES {}", lines.join(" ")));
            Some(p)
        }
    }
}

fn panic_msg(p: &Box<dyn std::any::Any + Send>) -> String {
    let msg = if let Some(s) = p.downcast_ref::<&str>() {
        s.to_string()
    } else if let Some(s) = p.downcast_ref::<String>() {
        s.clone()
    } else {
        "?".into()
    };
    let loc = LAST_PANIC_LOC.with(|l| l.borrow().clone());
    format!("{} @ {}", msg.replace('\n', " "), loc)
}

thread_local! {
    static LAST_PANIC_LOC: std::cell::RefCell<String> = const { std::cell::RefCell::new(String::new()) };
}

fn do_bind(c: &Case, p: ParsedTestCase, buf: &mut String) -> Option<TestCase> {
    let sigs = c.sigs.clone();
    // binding is a function of the parsed test and the signal list: a clone bound first (and, for every other case, to
    // the REVERSED list before that) changes nothing for the binding that follows, and two bindings of equal clones are equal
    let twin = {
        let (p1, p2, s1) = (p.clone(), p.clone(), c.sigs.clone());
        let mut rev = c.sigs.clone();
        rev.reverse();
        let odd = c.seed % 2 == 1;
        catch_unwind(AssertUnwindSafe(move || {
            if odd {
                let _ = p2.with_signals(rev);
            }
            p1.with_signals(s1).ok()
        }))
        .unwrap_or(None)
    };
    let p_again = p.clone();
    let bound = catch_unwind(AssertUnwindSafe(move || p.with_signals(sigs)));
    if let Ok(r) = &bound {
        let same = match (r, &twin) {
            (Ok(a), Some(b)) => a == b,
            (Err(e), None) => {
                // a refused binding is refused with the same error every time (also when there are several reasons)
                let want = format!("{e:?}");
                (0..6).all(|_| {
                    let (p3, s3) = (p_again.clone(), c.sigs.clone());
                    catch_unwind(AssertUnwindSafe(move || p3.with_signals(s3).err().map(|e| format!("{e:?}"))))
                        .ok()
                        .flatten()
                        .as_deref()
                        == Some(want.as_str())
                })
            }
            _ => false,
        };
        if !same {
            out(buf, "BIND panic # binding a clone of the parsed test to the same signal list gave a different result");
        }
    }
    match bound {
        Err(pn) => {
            out(buf, &format!("BIND panic # {}", panic_msg(&pn)));
            None
        }
        Ok(Err(e)) => {
            let dbg = format!("{e:?}");
            let kind = ident(dbg.strip_prefix("SignalError(").unwrap_or(&dbg));
            out(buf, &format!("BIND err {kind}"));
            None
        }
        Ok(Ok(tc)) => {
            // the caller's signals come back as they were given, in that order, followed by the declared ones
            if tc.signals.len() < c.sigs.len() || tc.signals[..c.sigs.len()] != c.sigs[..] {
                out(buf, "BIND panic # the bound test's signal list does not start with the signals it was given");
            }
            let disp = format!("{tc}");
            out(buf, &format!("PROG {}", hex_encode(&testcase_prog(&disp))));
            out(buf, "BIND ok");
            out(
                buf,
                &format!("SIGNALS {}", tc.signals.iter().map(signal_s).collect::<Vec<_>>().join(" ")),
            );
            // the outputs the program reads, as reported by try_iter_static
            let reads = catch_unwind(AssertUnwindSafe(|| match tc.try_iter_static() {
                Ok(_) => String::new(),
                Err(e) => {
                    let msg = format!("{e}");
                    let list = msg.split_once("outputs: ").map(|x| x.1).unwrap_or("");
                    list.split(", ").map(nm).collect::<Vec<_>>().join(" ")
                }
            }));
            match reads {
                Ok(r) => out(buf, &format!("READS {r}")),
                Err(p) => out(buf, &format!("READS panic # {}", panic_msg(&p))),
            }
            Some(tc)
        }
    }
}

fn flush_calls(sh: &Sh, buf: &mut String) -> usize {
    let mut n = 0;
    for l in sh.borrow_mut().log.drain(..) {
        out(buf, &l);
        n += 1;
    }
    n
}

fn run_dynamic<D: TestDriver<Error = DrvError>>(
    c: &Case,
    tc: &TestCase,
    driver: &mut D,
    sh: &Sh,
    buf: &mut String,
) {
    verif_hooks::set_seed_override(Some(c.seed));
    let _ = verif_hooks::take_rng_log();
    let res = catch_unwind(AssertUnwindSafe(|| {
        let mut local = String::new();
        // `run_iter` is the deprecated name of `try_iter`: every third test goes through it
        #[allow(deprecated)]
        let it = if c.seed % 3 == 0 { tc.run_iter(driver) } else { tc.try_iter(driver) };
        api_check_signals(&tc.signals);
        match it {
            Err(e) => {
                flush_calls(sh, &mut local);
                out(&mut local, &format!("NEW err {}", iteration_err_s(&e, |d: &DrvError| d.0)));
                out(&mut local, "END err");
            }
            Ok(mut it) => {
                flush_calls(sh, &mut local);
                out(&mut local, "NEW ok");
                let mut k = 0;
                loop {
                    if k >= c.max {
                        out(&mut local, "END limit");
                        break;
                    }
                    let item = catch_unwind(AssertUnwindSafe(|| it.next()));
                    match item {
                        Err(p) => {
                            flush_calls(sh, &mut local);
                            out(&mut local, &format!("ITEM panic # {}", panic_msg(&p)));
                            out(&mut local, "END panic");
                            break;
                        }
                        Ok(None) => {
                            flush_calls(sh, &mut local);
                            out(&mut local, "END none");
                            // nothing happens once next() has returned None: ask twice more
                            let mut after = String::from("AFTER");
                            for _ in 0..2 {
                                match catch_unwind(AssertUnwindSafe(|| it.next())) {
                                    Ok(None) => after.push_str(" none"),
                                    Ok(Some(Ok(_))) => after.push_str(" ROW"),
                                    Ok(Some(Err(_))) => after.push_str(" ERR"),
                                    Err(_) => after.push_str(" PANIC"),
                                }
                            }
                            let _ = write!(after, " calls={}", flush_calls(sh, &mut local));
                            out(&mut local, &after);
                            break;
                        }
                        Ok(Some(Err(e))) => {
                            let ncalls = flush_calls(sh, &mut local);
                            let es = iteration_err_s(&e, |d: &DrvError| d.0);
                            out(&mut local, &format!("ITEM err {es}"));
                            // with `cont` the caller goes on after every error item: driver errors, unusable answers,
                            // failing virtual signals and evaluation errors of the program itself (the failing
                            // statement is consumed; a failing while condition is evaluated again)
                            let _ = ncalls;
                            if !c.cont {
                                out(&mut local, "END err");
                                break;
                            }
                        }
                        Ok(Some(Ok(row))) => {
                            flush_calls(sh, &mut local);
                            out(&mut local, &row_line(&row));
                            out(&mut local, &vars_line(it.vars()));
                        }
                    }
                    k += 1;
                }
            }
        }
        local
    }));
    match res {
        Ok(local) => buf.push_str(&local),
        Err(p) => {
            out(buf, &format!("NEW panic # {}", panic_msg(&p)));
            out(buf, "END panic");
        }
    }
    out(buf, &rng_lines(c.seed));
    out(buf, &api_line());
    // the driver's own record of what it returned for which signal on which call (C03/C13 oracle)
    let rec = sh
        .borrow()
        .record
        .iter()
        .map(|(k, n, v)| format!("{}:{}:{}", k, nm(n), outval_s(*v)))
        .collect::<Vec<_>>()
        .join(" ");
    out(buf, &format!("RECORD {rec}"));
    verif_hooks::set_seed_override(None);
}

fn run_static(c: &Case, tc: &TestCase, buf: &mut String) {
    let start_len = buf.len();
    verif_hooks::set_seed_override(Some(c.seed));
    let _ = verif_hooks::take_rng_log();
    let res = catch_unwind(AssertUnwindSafe(|| {
        let mut local = String::new();
        match tc.try_iter_static() {
            Err(_) => out(&mut local, "STATIC err"),
            Ok(mut it) => {
                out(&mut local, "STATIC ok");
                out(&mut local, "NEW ok");
                let mut k = 0;
                loop {
                    if k >= c.max {
                        out(&mut local, "END limit");
                        break;
                    }
                    match it.next() {
                        None => {
                            out(&mut local, "END none");
                            break;
                        }
                        Some(Err(e)) => {
                            out(&mut local, &format!("ITEM err {}", runtime_err_s(&e)));
                            if !c.cont {
                                out(&mut local, "END err");
                                break;
                            }
                        }
                        Some(Ok(row)) => {
                            // same shape as a dynamic ROW line: output column is always X
                            let outs = row
                                .expected
                                .iter()
                                .map(|r| format!("{}:{}", nm(&r.signal.name), expval_s(r.value)))
                                .collect::<Vec<_>>()
                                .join(" ");
                            out(&mut local, &format!("SROW {} | {} | {}", row.line, inputs_s(&row.inputs), outs));
                        }
                    }
                    k += 1;
                }
            }
        }
        local
    }));
    match res {
        Ok(local) => buf.push_str(&local),
        Err(p) => {
            out(buf, &format!("STATIC panic # {}", panic_msg(&p)));
            out(buf, "END panic");
        }
    }
    let main_rng = rng_line();
    out(buf, &main_rng);
    // the same static run through the iterator adapters that skip items (nth, skip, step_by): a skipped item is evaluated
    // like a visited one - the items that are visited, and the draws of the whole run, are those of the plain run
    let mine = buf[start_len..].to_string();
    let main_rows: Vec<&str> = mine.lines().filter(|l| l.starts_with("SROW ") || l.starts_with("ITEM ")).collect();
    if mine.lines().any(|l| l == "END none") && !main_rows.iter().any(|l| l.starts_with("ITEM ")) && mine.lines().any(|l| l == "STATIC ok") {
        let sline = |row: &static_test::StaticDataRow<'_>| {
            let outs = row.expected.iter().map(|r| format!("{}:{}", nm(&r.signal.name), expval_s(r.value))).collect::<Vec<_>>().join(" ");
            format!("SROW {} | {} | {}", row.line, inputs_s(&row.inputs), outs)
        };
        // (not the seed alone: the static twins of a family are every n-th test, which would tie the mode to the family)
        let mode = ((c.seed / 3) as usize + c.src.len() + c.id.len()) % 5;
        let _ = verif_hooks::take_rng_log();
        let res = catch_unwind(AssertUnwindSafe(|| {
            let Ok(mut it) = tc.try_iter_static() else { return Err("constructor failed".to_string()) };
            let mut got: Vec<(usize, String)> = vec![];
            let n = main_rows.len();
            match mode {
                0 => {
                    let mut i = 1usize;
                    while let Some(item) = it.nth(1) {
                        got.push((i, item.as_ref().map(&sline).unwrap_or_else(|_| "ITEM err".to_string())));
                        i += 2;
                        if i > n + 4 {
                            break;
                        }
                    }
                }
                1 => {
                    for (k, item) in it.skip(2).enumerate().take(n + 2) {
                        got.push((k + 2, item.as_ref().map(&sline).unwrap_or_else(|_| "ITEM err".to_string())));
                    }
                }
                2 => {
                    for (k, item) in it.step_by(2).enumerate().take(n + 2) {
                        got.push((2 * k, item.as_ref().map(&sline).unwrap_or_else(|_| "ITEM err".to_string())));
                    }
                }
                3 => {
                    // the first item, then count(): one visited item, and the number of the others
                    for (k, item) in it.by_ref().take(1).enumerate() {
                        got.push((k, item.as_ref().map(&sline).unwrap_or_else(|_| "ITEM err".to_string())));
                    }
                    let rest = it.count();
                    if rest + got.len() != n {
                        return Err(format!("take(1) + count() = {} items instead of {n}", rest + got.len()));
                    }
                }
                _ => {
                    // size_hint() before every item (it may not be wrong, and asking changes nothing), then the items
                    let mut k = 0usize;
                    loop {
                        let (lo, hi) = it.size_hint();
                        let remaining = n.saturating_sub(k);
                        if lo > remaining || hi.map_or(false, |h| h < remaining) {
                            return Err(format!("size_hint ({lo}, {hi:?}) with {remaining} items to come"));
                        }
                        match it.next() {
                            None => break,
                            Some(item) => got.push((k, item.as_ref().map(&sline).unwrap_or_else(|_| "ITEM err".to_string()))),
                        }
                        k += 1;
                        if k > n + 2 {
                            break;
                        }
                    }
                }
            }
            Ok(got)
        }));
        let rng2 = rng_line();
        let verdict = match res {
            Err(_) => "PANIC".to_string(),
            Ok(Err(e)) => e,
            Ok(Ok(got)) => {
                let want: Vec<usize> = match mode {
                    0 => (1..main_rows.len()).step_by(2).collect(),
                    1 => (2..main_rows.len()).collect(),
                    2 => (0..main_rows.len()).step_by(2).collect(),
                    3 => (0..main_rows.len().min(1)).collect(),
                    _ => (0..main_rows.len()).collect(),
                };
                if got.iter().map(|g| g.0).collect::<Vec<_>>() != want {
                    format!("mode {mode}: visited {} items instead of {}", got.len(), want.len())
                } else if let Some(g) = got.iter().find(|g| main_rows[g.0] != g.1) {
                    format!("mode {mode}: item {} is [{:.60}] vs [{:.60}]", g.0, g.1, main_rows[g.0])
                } else if rng2 != main_rng {
                    format!("mode {mode}: the draws differ: [{:.70}] vs [{:.70}]", rng2, main_rng)
                } else {
                    String::new()
                }
            }
        };
        let line = if verdict.is_empty() { "SADAPT same".to_string() } else { format!("SADAPT DIFFERENT {verdict}") };
        out(buf, &line);
    }
    verif_hooks::set_seed_override(None);
}

/// C15: parse the same text `niter` times in this process and compare
fn run_reparse(c: &Case, buf: &mut String) {
    let src = c.src.clone();
    let res = catch_unwind(AssertUnwindSafe(|| {
        let first = ParsedTestCase::from_str(&src);
        let mut same = true;
        let mut same_bound = true;
        let first_bound = first
            .as_ref()
            .ok()
            .and_then(|p| p.clone().with_signals(c.sigs.clone()).ok());
        for _ in 1..c.niter.max(2) {
            let again = ParsedTestCase::from_str(&src);
            match (&first, &again) {
                (Ok(a), Ok(b)) => {
                    if a != b {
                        same = false;
                    }
                    let bound = b.clone().with_signals(c.sigs.clone()).ok();
                    match (&first_bound, &bound) {
                        (Some(x), Some(y)) => {
                            if x != y
                                || x.signals.iter().map(|s| &s.name).collect::<Vec<_>>()
                                    != y.signals.iter().map(|s| &s.name).collect::<Vec<_>>()
                            {
                                same_bound = false;
                            }
                        }
                        (None, None) => {}
                        _ => same_bound = false,
                    }
                }
                (Err(_), Err(_)) => {}
                _ => same = false,
            }
        }
        (same, same_bound)
    }));
    match res {
        Ok((same, same_bound)) => {
            out(buf, &format!("REPARSE {}", if same { "same" } else { "DIFFERENT" }));
            out(buf, &format!("REBIND {}", if same_bound { "same" } else { "DIFFERENT" }));
        }
        Err(p) => out(buf, &format!("REPARSE panic # {}", panic_msg(&p))),
    }
}

/// C15: several iterators over one TestCase, advanced according to a schedule, each with
/// its own scripted driver; prints one trace per iterator (to be compared with solo runs)
fn run_multi(c: &Case, tc: &TestCase, buf: &mut String) {
    verif_hooks::set_seed_override(Some(c.seed));
    let _ = verif_hooks::take_rng_log();
    let n = c.niter.max(1);
    let res = catch_unwind(AssertUnwindSafe(|| {
        let mut drivers: Vec<DriverOverrideW> = (0..n).map(|_| DriverOverrideW(Script::new(c, &tc.signals, Sh::default()))).collect();
        let mut traces: Vec<String> = vec![String::new(); n];
        let mut done = vec![false; n];
        let mut its = vec![];
        for (i, d) in drivers.iter_mut().enumerate() {
            match tc.try_iter(d) {
                Ok(it) => its.push(Some(it)),
                Err(e) => {
                    out(&mut traces[i], &format!("NEW err {}", iteration_err_s(&e, |d: &DrvError| d.0)));
                    done[i] = true;
                    its.push(None);
                }
            }
        }
        let mut steps = 0;
        let mut pos = 0;
        while done.iter().any(|d| !d) && steps < c.max * n {
            // the given schedule first, then round robin until every iterator is exhausted
            let who = if pos < c.sched.len() { c.sched[pos] % n } else { pos % n };
            pos += 1;
            if done[who] {
                continue;
            }
            steps += 1;
            let it = its[who].as_mut().unwrap();
            match it.next() {
                None => {
                    out(&mut traces[who], "END none");
                    done[who] = true;
                }
                Some(Err(e)) => {
                    out(&mut traces[who], &format!("ITEM err {}", iteration_err_s(&e, |d: &DrvError| d.0)));
                    done[who] = true;
                }
                Some(Ok(row)) => {
                    out(&mut traces[who], &row_line(&row));
                    out(&mut traces[who], &vars_line(it.vars()));
                }
            }
        }
        traces
    }));
    match res {
        Ok(traces) => {
            for (i, t) in traces.iter().enumerate() {
                out(buf, &format!("ITER {i}"));
                buf.push_str(t);
            }
        }
        Err(p) => out(buf, &format!("MULTI panic # {}", panic_msg(&p))),
    }
    let _ = verif_hooks::take_rng_log();
    verif_hooks::set_seed_override(None);
}

/// inverse of `str::escape_debug` (the payload of a string field in a derived Debug text)
fn debug_unescape(s: &str) -> String {
    let mut out = String::new();
    let mut it = s.chars().peekable();
    while let Some(ch) = it.next() {
        if ch != '\\' {
            out.push(ch);
            continue;
        }
        match it.next() {
            Some('n') => out.push('\n'),
            Some('r') => out.push('\r'),
            Some('t') => out.push('\t'),
            Some('0') => out.push('\0'),
            Some('u') => {
                let mut hex = String::new();
                if it.peek() == Some(&'{') {
                    it.next();
                    for h in it.by_ref() {
                        if h == '}' {
                            break;
                        }
                        hex.push(h);
                    }
                }
                if let Some(c) = u32::from_str_radix(&hex, 16).ok().and_then(char::from_u32) {
                    out.push(c);
                }
            }
            Some(other) => out.push(other),
            None => {}
        }
    }
    out
}

/// `File::open` on a file holding the text, and the `FromStr` impl, agree with `File::parse`
fn dig_entry_points(c: &Case, xml: &str) -> String {
    let view = |r: Result<dig::File, digital_test_runner::errors::DigFileError>| match r {
        Ok(f) => format!("ok {:?}", f),
        Err(e) => {
            let dbg = format!("{e:?}");
            format!("err {}", ident(dbg.strip_prefix("DigFileError(").unwrap_or(&dbg)))
        }
    };
    let direct = catch_unwind(AssertUnwindSafe(|| view(dig::File::parse(xml))));
    let from_str = catch_unwind(AssertUnwindSafe(|| view(xml.parse::<dig::File>())));
    let path = std::env::temp_dir().join(format!("dtr_harness_{}_{}.dig", std::process::id(), c.id.replace(|ch: char| !ch.is_ascii_alphanumeric(), "_")));
    let opened = if std::fs::write(&path, xml).is_ok() {
        let r = catch_unwind(AssertUnwindSafe(|| view(dig::File::open(&path))));
        let _ = std::fs::remove_file(&path);
        r
    } else {
        catch_unwind(AssertUnwindSafe(|| view(dig::File::parse(xml))))
    };
    let s = |r: &std::thread::Result<String>| r.as_ref().map(|x| x.as_str()).unwrap_or("PANIC").to_string();
    if s(&direct) == s(&from_str) && s(&direct) == s(&opened) {
        "ENTRY same".to_string()
    } else {
        format!("ENTRY DIFFERENT parse=[{:.80}] from_str=[{:.80}] open=[{:.80}]", s(&direct), s(&from_str), s(&opened))
    }
}

/// A look-alike of a document: the same labels and source lengths, one digit of every test source changed.  It is
/// loaded, and each of its tests too, right before the real document (results dropped): loading is a function of the
/// document at hand, whatever was loaded before in this process.
fn dig_decoy(xml: &str) -> Option<String> {
    let mut out = String::with_capacity(xml.len());
    let mut rest = xml;
    let mut changed = false;
    while let Some(i) = rest.find("<dataString>") {
        let (head, tail) = rest.split_at(i);
        out.push_str(head);
        let end = tail.find("</dataString>").unwrap_or(tail.len());
        let (body, after) = tail.split_at(end);
        match body.rfind(|ch: char| ch.is_ascii_digit()) {
            // not inside a character reference such as &#10;
            Some(k) if !body[..k].ends_with('#') && !body[..k].ends_with("#x") && !body[..k].ends_with("#1") => {
                let mut bytes = body.as_bytes().to_vec();
                bytes[k] = if bytes[k] == b'1' { b'0' } else { b'1' };
                out.push_str(std::str::from_utf8(&bytes).ok()?);
                changed = true;
            }
            _ => out.push_str(body),
        }
        rest = after;
    }
    out.push_str(rest);
    if changed { Some(out) } else { None }
}

fn run_dig(c: &Case, buf: &mut String) {
    let xml = c.xml.clone();
    if xml.len() < 200_000 {
        if let Some(decoy) = dig_decoy(&xml) {
            let _ = catch_unwind(AssertUnwindSafe(|| {
                if let Ok(f) = dig::File::parse(&decoy) {
                    for i in 0..f.test_cases.len() {
                        let _ = f.load_test(i);
                        let _ = f.load_test_by_name(&f.test_cases[i].name);
                    }
                }
            }));
        }
    }
    out(buf, &dig_entry_points(c, &xml));
    match catch_unwind(AssertUnwindSafe(|| dig::File::parse(&xml))) {
        Err(p) => out(buf, &format!("DIG panic # {}", panic_msg(&p))),
        Ok(Err(e)) => {
            let dbg = format!("{e:?}");
            let kind = ident(dbg.strip_prefix("DigFileError(").unwrap_or(&dbg));
            out(buf, &format!("DIG err {kind}"));
            // the missing names as a set: the message is "Signals a, b found in tests but not found
            // in circuit", the names are joined with ", " in HashSet order and contain no white
            // space themselves
            // (taken from the Debug form `DigFileError(MissingSignals("a, b"))`, not from the wording of the message)
            let payload = dbg
                .find("MissingSignals(\"")
                .and_then(|i| dbg.rfind("\")").map(|j| debug_unescape(&dbg[i + "MissingSignals(\"".len()..j.max(i + "MissingSignals(\"".len())])));
            if let (true, Some(list)) = (kind == "MissingSignals", payload.as_deref()) {
                let mut names: Vec<&str> = list.split(", ").collect();
                names.sort();
                names.dedup();
                out(
                    buf,
                    &format!("MISSING {}", names.iter().map(|s| nm(s)).collect::<Vec<_>>().join(" ")),
                );
            }
        }
        Ok(Ok(file)) => {
            out(buf, "DIG ok");
            out(
                buf,
                &format!("SIGNALS {}", file.signals.iter().map(signal_s).collect::<Vec<_>>().join(" ")),
            );
            for (i, t) in file.test_cases.iter().enumerate() {
                out(buf, &format!("TEST {} {} {}", i, nm(&t.name), hex_encode(&t.source)));
                // load_test(i) == parse source i, bind to the file's signals
                let direct = catch_unwind(AssertUnwindSafe(|| {
                    ParsedTestCase::from_str(&t.source)
                        .ok()
                        .and_then(|p| p.with_signals(file.signals.clone()).ok())
                }));
                // an error of load_test is a diagnostic with the test's source attached: it must be renderable
                // (every location inside the attached source)
                let rendered = catch_unwind(AssertUnwindSafe(|| match file.load_test(i) {
                    Ok(_) => "none",
                    Err(e) => {
                        let mut text = String::new();
                        let handler = miette::GraphicalReportHandler::new_themed(miette::GraphicalTheme::unicode_nocolor());
                        let report = miette::Report::new(e);
                        if handler.render_report(&mut text, report.as_ref()).is_ok() && !text.is_empty() {
                            "ok"
                        } else {
                            "FAILED"
                        }
                    }
                }))
                .unwrap_or("PANIC");
                out(buf, &format!("LOADRENDER {i} {rendered}"));
                let carried = catch_unwind(AssertUnwindSafe(|| match file.load_test(i) {
                    Ok(_) => "none".to_string(),
                    Err(e) => {
                        use miette::Diagnostic;
                        match e.source_code() {
                            None => "nosource".to_string(),
                            Some(sc) => match sc.read_span(&miette::SourceSpan::from((0usize, 0usize)), 0, 10_000_000) {
                                Ok(contents) => {
                                    if contents.data() == t.source.as_bytes() {
                                        "same".to_string()
                                    } else {
                                        "DIFFERENT".to_string()
                                    }
                                }
                                Err(_) => "unreadable".to_string(),
                            },
                        }
                    }
                }))
                .unwrap_or_else(|_| "PANIC".to_string());
                out(buf, &format!("LOADSRC {i} {carried}"));
                let loaded = catch_unwind(AssertUnwindSafe(|| file.load_test(i).ok()));
                // a refused test is refused for the same reason, at the same places, as by from_str + with_signals
                fn diag_sig(e: &dyn miette::Diagnostic) -> String {
                    let labels = e
                        .labels()
                        .map(|l| l.map(|x| format!("{}+{}:{}", x.offset(), x.len(), x.label().unwrap_or(""))).collect::<Vec<_>>().join(","))
                        .unwrap_or_default();
                    format!("{e} @ {labels}")
                }
                let at_direct = catch_unwind(AssertUnwindSafe(|| match ParsedTestCase::from_str(&t.source) {
                    Err(e) => diag_sig(&e),
                    Ok(p) => match p.with_signals(file.signals.clone()) {
                        Err(e) => diag_sig(&e),
                        Ok(_) => "none".to_string(),
                    },
                }));
                let at_loaded = catch_unwind(AssertUnwindSafe(|| match file.load_test(i) {
                    Err(e) => diag_sig(&e),
                    Ok(_) => "none".to_string(),
                }));
                match (&at_direct, &at_loaded) {
                    (Ok(a), Ok(b)) if a == b => out(buf, &format!("LOADAT {i} same")),
                    (Ok(a), Ok(b)) => out(buf, &format!("LOADAT {i} DIFFERENT [{:.80}] vs direct [{:.80}]", b, a)),
                    _ => out(buf, &format!("LOADAT {i} PANIC")),
                }
                // `test_cases[i].source` is a public field: after an edit of it (same length: a line break in front of the
                // header turned into a blank or back, the last line break turned into a blank; or the signal list
                // reversed) load_test still is parse + bind of what is there NOW
                {
                    let mut edits: Vec<String> = vec![];
                    let b = t.source.as_bytes();
                    let lead = b.iter().take_while(|x| matches!(**x, b' ' | b'\t' | b'\r' | b'\n')).count();
                    if let Some(p) = b[..lead].iter().position(|x| *x == b'\n') {
                        let mut e = b.to_vec();
                        e[p] = b' ';
                        edits.push(String::from_utf8(e).unwrap());
                    }
                    if let Some(p) = b[..lead].iter().position(|x| *x == b' ') {
                        let mut e = b.to_vec();
                        e[p] = b'\n';
                        edits.push(String::from_utf8(e).unwrap());
                    }
                    if let Some(p) = b.iter().rposition(|x| *x == b'\n') {
                        let mut e = b.to_vec();
                        e[p] = b' ';
                        edits.push(String::from_utf8(e).unwrap());
                    }
                    edits.push(format!("\n{}", t.source));
                    let mut problem = String::new();
                    edits.push(t.source.clone());
                    let n_variants = 5usize;
                    for (k, (e, variant)) in edits.iter().flat_map(|e| (0..n_variants).map(move |v| (e, v))).enumerate() {
                        if variant == 0 && e == &t.source {
                            continue;
                        }
                        let mut f2 = file.clone();
                        f2.test_cases[i].source = e.clone();
                        match variant {
                            1 => f2.signals.reverse(),
                            2 => {
                                f2.signals.pop();
                            }
                            3 => {
                                if !f2.signals.is_empty() {
                                    f2.signals.remove(0);
                                }
                            }
                            4 => {
                                if let Some(sg) = f2.signals.first_mut() {
                                    sg.name.push_str("_r");
                                }
                            }
                            _ => {}
                        }
                        let sigs2 = f2.signals.clone();
                        let want = catch_unwind(AssertUnwindSafe(|| match ParsedTestCase::from_str(e) {
                            Err(er) => Err(diag_sig(&er)),
                            Ok(p) => p.with_signals(sigs2).map_err(|er| diag_sig(&er)),
                        }));
                        let got = catch_unwind(AssertUnwindSafe(|| f2.load_test(i).map_err(|er| diag_sig(&er))));
                        let same = match (&want, &got) {
                            (Ok(Ok(a)), Ok(Ok(b))) => a == b,
                            (Ok(Err(a)), Ok(Err(b))) => a == b,
                            _ => false,
                        };
                        if !same && problem.is_empty() {
                            problem = format!("edit {k}: load_test gives {:.90?} but parse + bind {:.90?}", got.as_ref().map(|r| r.as_ref().map(|_| "a test")), want.as_ref().map(|r| r.as_ref().map(|_| "a test")));
                        }
                    }
                    if problem.is_empty() {
                        out(buf, &format!("LOADEDIT {i} same"));
                    } else {
                        out(buf, &format!("LOADEDIT {i} DIFFERENT {problem}"));
                    }
                }
                // selection by name is selection of the first test with that label: the same test or the same error
                // (compared as Debug text plus the rendered report, source snippet and labels included)
                let err_text = |e: digital_test_runner::errors::LoadTestError| {
                    let dbg = format!("{e:?}");
                    let mut text = String::new();
                    let handler = miette::GraphicalReportHandler::new_themed(miette::GraphicalTheme::unicode_nocolor());
                    let report = miette::Report::new(e);
                    let _ = handler.render_report(&mut text, report.as_ref());
                    format!("{dbg}\n{text}")
                };
                let by_name = catch_unwind(AssertUnwindSafe(|| file.load_test_by_name(&t.name).map_err(err_text)));
                let first_with_name = file.test_cases.iter().position(|x| x.name == t.name).unwrap();
                let expected_by_name = catch_unwind(AssertUnwindSafe(|| file.load_test(first_with_name).map_err(err_text)));
                let verdict = match (&direct, &loaded) {
                    (Ok(a), Ok(b)) => {
                        if a == b {
                            if a.is_some() { "equal-ok" } else { "equal-err" }
                        } else {
                            "DIFFERENT"
                        }
                    }
                    _ => "PANIC",
                };
                let verdict_name = match (&by_name, &expected_by_name) {
                    (Ok(a), Ok(b)) => if a == b { "first" } else { "NOT-FIRST" },
                    _ => "PANIC",
                };
                out(buf, &format!("LOAD {i} {verdict} byname={verdict_name}"));
            }
            // `test_cases[i].name` is a public field too: after a rename, selection by name goes by the names there are NOW
            if !file.test_cases.is_empty() {
                let verdict = catch_unwind(AssertUnwindSafe(|| {
                    let last = file.test_cases.len() - 1;
                    let mut f2 = file.clone();
                    let old = f2.test_cases[last].name.clone();
                    f2.test_cases[last].name = "\u{2}renamed\u{2}".to_string();
                    let sig = |r: Result<TestCase, digital_test_runner::errors::LoadTestError>| match r {
                        Ok(t) => format!("{t:?}"),
                        Err(e) => format!("ERR {e:?}"),
                    };
                    let a = sig(f2.load_test_by_name("\u{2}renamed\u{2}"));
                    let b = sig(f2.load_test(last));
                    if a != b {
                        return format!("the renamed test {last} is not found under its new name: [{:.60}] vs [{:.60}]", a, b);
                    }
                    // a name that differs from a label in letter case only is another name
                    for t in &file.test_cases {
                        let flipped: String = t.name.chars().map(|ch| if ch.is_ascii_lowercase() { ch.to_ascii_uppercase() } else { ch.to_ascii_lowercase() }).collect();
                        for other in [flipped, format!(" {}", t.name), format!("{} ", t.name), t.name.to_lowercase(), t.name.to_uppercase()] {
                            if !file.test_cases.iter().any(|x| x.name == other) && file.load_test_by_name(&other).is_ok() {
                                return format!("load_test_by_name({other:?}) finds a test although no test has that label");
                            }
                        }
                    }
                    let c_ = sig(f2.load_test_by_name(&old));
                    let want = match f2.test_cases.iter().position(|x| x.name == old) {
                        Some(k) => sig(f2.load_test(k)),
                        None => "ERR TestNotFound".to_string(),
                    };
                    if !(c_ == want || (want == "ERR TestNotFound" && c_.starts_with("ERR TestNotFound("))) {
                        return format!("after renaming test {last}, its old name selects [{:.60}] instead of [{:.60}]", c_, want);
                    }
                    String::new()
                }))
                .unwrap_or_else(|_| "PANIC".to_string());
                if verdict.is_empty() {
                    out(buf, "LOADNAME same");
                } else {
                    out(buf, &format!("LOADNAME DIFFERENT {verdict}"));
                }
            }
            let oob = catch_unwind(AssertUnwindSafe(|| file.load_test(file.test_cases.len()).is_err()));
            out(buf, &format!("LOADOOB {}", match oob { Ok(true) => "err", Ok(false) => "OK?", Err(_) => "PANIC" }));
            let unk = catch_unwind(AssertUnwindSafe(|| file.load_test_by_name("\u{1}no such test\u{1}").is_err()));
            out(buf, &format!("LOADUNK {}", match unk { Ok(true) => "err", Ok(false) => "OK?", Err(_) => "PANIC" }));
        }
    }
}

fn run_case(c: &Case) -> String {
    let mut buf = String::new();
    out(&mut buf, &format!("CASE {}", c.id));
    match c.kind.as_str() {
        "lex" => match catch_unwind(AssertUnwindSafe(|| verif_hooks::lex_body(&c.src))) {
            Ok(toks) => {
                for (k, s, e) in toks {
                    out(&mut buf, &format!("TOK {k} {s}..{e}"));
                }
            }
            Err(p) => out(&mut buf, &format!("LEX panic # {}", panic_msg(&p))),
        },
        "hlex" => match catch_unwind(AssertUnwindSafe(|| verif_hooks::lex_header(&c.src))) {
            Ok(toks) => {
                for (k, s, e) in toks {
                    out(&mut buf, &format!("TOK {k} {s}..{e}"));
                }
            }
            Err(p) => out(&mut buf, &format!("LEX panic # {}", panic_msg(&p))),
        },
        "parse" => {
            let _ = do_parse(c, &mut buf);
        }
        "reparse" => run_reparse(c, &mut buf),
        "dig" => run_dig(c, &mut buf),
        "run" | "static" | "bind" | "multi" => {
            if let Some(p) = do_parse(c, &mut buf) {
                if let Some(mut tc) = do_bind(c, p, &mut buf) {
                    // `signals` is a public field: a caller may change a width after binding
                    for (i, b) in &c.rebits {
                        if *i < tc.signals.len() {
                            tc.signals[*i].bits = *b;
                        }
                    }
                    match c.kind.as_str() {
                        "run" => {
                            // an iterator that is abandoned in the middle of its run (here: after two items, possibly in the
                            // middle of an X / C expansion) leaves nothing behind for the iterators that come after it
                            if c.seed % 4 == 1 {
                                verif_hooks::set_seed_override(Some(c.seed));
                                let pre_sh = Sh::default();
                                let items = catch_unwind(AssertUnwindSafe(|| {
                                    let mut pre = DriverOverrideW(Script::new(c, &tc.signals, pre_sh.clone()));
                                    let mut n = 0usize;
                                    if let Ok(mut it) = tc.try_iter(&mut pre) {
                                        n += it.next().is_some() as usize;
                                        n += it.next().is_some() as usize;
                                    }
                                    n
                                }))
                                .unwrap_or(0);
                                // the abandoned iterator made at most one call per item it was asked for (plus the constructor's)
                                let calls = pre_sh.borrow().log.len();
                                out(&mut buf, &format!("PRERUN items={items} calls={calls}"));
                                let _ = verif_hooks::take_rng_log();
                            }
                            if c.wdefault {
                                let sh = Sh::default();
                                let mut d = DriverDefaultW(Script::new(c, &tc.signals, sh.clone()));
                                run_dynamic(c, &tc, &mut d, &sh, &mut buf);
                            } else {
                                let sh = Sh::default();
                                let mut d = DriverOverrideW(Script::new(c, &tc.signals, sh.clone()));
                                run_dynamic(c, &tc, &mut d, &sh, &mut buf);
                            }
                            // the iterator's adaptor methods are the ones of `Iterator`: taking every second item with
                            // nth(1) on a fresh iterator and an identical driver gives items 1, 3, 5, ... of the run above
                            // and makes the same driver calls (only for callers that go on after error items)
                            if c.cont && c.seed % 3 == 1 {
                                let main_items: Vec<String> = buf
                                    .lines()
                                    .filter(|l| l.starts_with("ROW ") || l.starts_with("ITEM "))
                                    .map(|l| l.to_string())
                                    .collect();
                                let main_call_lines: Vec<String> =
                                    buf.lines().filter(|l| l.starts_with("CALL ")).map(|l| l.to_string()).collect();
                                let main_calls = main_call_lines.len();
                                let ended = buf.lines().any(|l| l == "END none");
                                verif_hooks::set_seed_override(Some(c.seed));
                                let sh2 = Sh::default();
                                let verdict = catch_unwind(AssertUnwindSafe(|| {
                                    let mut d2 = DriverOverrideW(Script::new(c, &tc.signals, sh2.clone()));
                                    let mut d2d = DriverDefaultW(Script::new(c, &tc.signals, sh2.clone()));
                                    let mut problems = String::new();
                                    macro_rules! skiprun {
                                        ($drv:expr) => {
                                            if let Ok(mut it) = tc.try_iter($drv) {
                                                let mut k = 0usize;
                                                while 2 * k + 1 < main_items.len() {
                                                    let got = match it.nth(1) {
                                                        None => "NONE".to_string(),
                                                        Some(Ok(row)) => row_line(&row),
                                                        Some(Err(e)) => format!("ITEM err {}", iteration_err_s(&e, |d: &DrvError| d.0)),
                                                    };
                                                    if got != main_items[2 * k + 1] && problems.is_empty() {
                                                        problems = format!("item {} via nth(1): [{:.60}] vs [{:.60}]", 2 * k + 1, got, main_items[2 * k + 1]);
                                                    }
                                                    k += 1;
                                                }
                                            }
                                        };
                                    }
                                    if c.wdefault {
                                        skiprun!(&mut d2d);
                                    } else {
                                        skiprun!(&mut d2);
                                    }
                                    problems
                                }))
                                .unwrap_or_else(|_| "PANIC".to_string());
                                let calls2 = sh2.borrow().log.len();
                                let verdict = if verdict.is_empty() {
                                    match sh2.borrow().log.iter().zip(main_call_lines.iter()).position(|(a, b)| a != b) {
                                        Some(i) => format!("call {i} differs: [{:.60}] vs [{:.60}]", sh2.borrow().log[i], main_call_lines[i]),
                                        None => verdict,
                                    }
                                } else {
                                    verdict
                                };
                                let want_calls = if ended || main_items.len() % 2 == 0 { main_calls } else { calls2 };
                                let _ = verif_hooks::take_rng_log();
                                if verdict.is_empty() && (calls2 <= main_calls) && (calls2 == want_calls || calls2 + 1 >= main_calls) {
                                    out(&mut buf, "SKIPRUN same");
                                } else {
                                    out(&mut buf, &format!("SKIPRUN DIFFERENT {verdict} calls={calls2} main={main_calls}"));
                                }
                            }
                            // ... and so are by_ref().take(k), size_hint(), fold() and last(): same items, same calls
                            if c.seed % 5 != 1 && buf.lines().any(|l| l == "END none")
                                && (c.cont || !buf.lines().any(|l| l.starts_with("ITEM err") || l.starts_with("NEW err")))
                            {
                                let main_items: Vec<String> = buf
                                    .lines()
                                    .filter(|l| l.starts_with("ROW ") || l.starts_with("ITEM "))
                                    .map(|l| l.to_string())
                                    .collect();
                                let main_call_lines: Vec<String> =
                                    buf.lines().filter(|l| l.starts_with("CALL ")).map(|l| l.to_string()).collect();
                                verif_hooks::set_seed_override(Some(c.seed));
                                let sh2 = Sh::default();
                                let verdict = catch_unwind(AssertUnwindSafe(|| {
                                    if c.wdefault {
                                        adapt_check(c, &tc, &mut DriverDefaultW(Script::new(c, &tc.signals, sh2.clone())), &main_items)
                                    } else {
                                        adapt_check(c, &tc, &mut DriverOverrideW(Script::new(c, &tc.signals, sh2.clone())), &main_items)
                                    }
                                }))
                                .unwrap_or_else(|_| "PANIC".to_string());
                                let _ = verif_hooks::take_rng_log();
                                let verdict = if verdict.is_empty() {
                                    let log = &sh2.borrow().log;
                                    if log.len() != main_call_lines.len() {
                                        format!("{} calls vs {}", log.len(), main_call_lines.len())
                                    } else {
                                        match log.iter().zip(main_call_lines.iter()).position(|(a, b)| a != b) {
                                            Some(i) => format!("call {i} differs: [{:.60}] vs [{:.60}]", log[i], main_call_lines[i]),
                                            None => verdict,
                                        }
                                    }
                                } else {
                                    verdict
                                };
                                if verdict.is_empty() {
                                    out(&mut buf, "ADAPT same");
                                } else {
                                    out(&mut buf, &format!("ADAPT DIFFERENT {verdict}"));
                                }
                            }
                            // SECOND USE: a TestCase that has been iterated (completely, partly, several times) behaves like one
                            // that has just been bound - with the same driver script, with a driver of another layout, and after
                            // the caller edited the public `signals` (a default, a width) the way it would before a first run
                            {
                                let has_reads = tc.try_iter_static().is_err();
                                // (an edited input can change what an echoing device answers, hence what an output-reading
                                // program does - possibly for ever: such tests are only run again as they are)
                                let mode = if c.seed % 3 == 1 && c.echo && has_reads { 2 } else { c.seed % 3 };
                                let mut c2 = c.clone();
                                if mode == 0 && !c2.layout.is_empty() {
                                    // another layout must not change what the PROGRAM does (a program that reads outputs may
                                    // loop forever on other values): a test that reads no output gets its layout rotated;
                                    // one that reads outputs gets a driver that lacks one of the outputs it reads, so that
                                    // the constructor has to refuse it - for the used test as for a fresh one
                                    let reads: Vec<String> = match tc.try_iter_static() {
                                        Ok(_) => vec![],
                                        Err(e) => {
                                            let msg = format!("{e}");
                                            msg.split_once("outputs: ").map(|x| x.1).unwrap_or("").split(", ").map(|x| x.to_string()).collect()
                                        }
                                    };
                                    let n = tc.signals.len();
                                    if reads.is_empty() {
                                        let other = (0..n).find(|i| !c2.layout.contains(i) && !tc.signals[*i].is_input());
                                        let first = c2.layout.remove(0);
                                        c2.layout.push(other.unwrap_or(first));
                                    } else if let Some(pos) = c2.layout.iter().position(|i| *i < n && reads.contains(&tc.signals[*i].name)) {
                                        let other = (0..n).find(|i| !c2.layout.contains(i) && !reads.contains(&tc.signals[*i].name));
                                        match other {
                                            Some(o) => c2.layout[pos] = o,
                                            None => {
                                                c2.layout.remove(pos);
                                            }
                                        }
                                    }
                                }
                                let edit_sigs = |sigs: &mut Vec<Signal>| {
                                    if mode == 1 {
                                        edit_signal_list(sigs);
                                    }
                                };
                                // the fresh test is BOUND to the edited list (odd seeds: bound first, then edited like the used one)
                                let mut sigs2 = c.sigs.clone();
                                if c.seed % 2 == 0 {
                                    for (i, b) in &c.rebits {
                                        if *i < sigs2.len() {
                                            sigs2[*i].bits = *b;
                                        }
                                    }
                                    edit_sigs(&mut sigs2);
                                }
                                let fresh = catch_unwind(AssertUnwindSafe(|| {
                                    ParsedTestCase::from_str(&c.src).ok().and_then(|p| p.with_signals(sigs2).ok())
                                }))
                                .unwrap_or(None);
                                if let Some(mut fresh) = fresh {
                                    let mut used = tc.clone();
                                    if c.seed % 2 != 0 {
                                        for (i, b) in &c.rebits {
                                            if *i < fresh.signals.len() {
                                                fresh.signals[*i].bits = *b;
                                            }
                                        }
                                    }
                                    let edit = |t: &mut TestCase| {
                                        if mode == 1 {
                                            edit_signal_list(&mut t.signals);
                                        }
                                    };
                                    if c.seed % 2 != 0 {
                                        edit(&mut fresh);
                                    }
                                    edit(&mut used);
                                    // the used test itself is edited IN PLACE (same object, same address) and is the first to run again
                                    edit(&mut tc);
                                    let run_one = |t: &TestCase| {
                                        let mut b = String::new();
                                        let sh = Sh::default();
                                        if c2.wdefault {
                                            let mut d = DriverDefaultW(Script::new(&c2, &t.signals, sh.clone()));
                                            run_dynamic(&c2, t, &mut d, &sh, &mut b);
                                        } else {
                                            let mut d = DriverOverrideW(Script::new(&c2, &t.signals, sh.clone()));
                                            run_dynamic(&c2, t, &mut d, &sh, &mut b);
                                        }
                                        b
                                    };
                                    let direct = run_one(&tc);
                                    let a = run_one(&fresh);
                                    // a driver that itself parses, binds and iterates another test during every call
                                    let reentrant = if c.src.to_lowercase().contains("random") {
                                        a.clone()       // (the nested run would interleave with this run's generator log)
                                    } else {
                                        REENTRANT.with(|r| r.set(true));
                                        let b = run_one(&fresh);
                                        REENTRANT.with(|r| r.set(false));
                                        b
                                    };
                                    // a driver whose type is zero-sized (only for drivers with their own write_input)
                                    let zst = if c2.wdefault {
                                        a.clone()
                                    } else {
                                        let mut b = String::new();
                                        let sh = Sh::default();
                                        ZST_SCRIPT.with(|z| *z.borrow_mut() = Some(Script::new(&c2, &fresh.signals, sh.clone())));
                                        run_dynamic(&c2, &fresh, &mut DriverZst, &sh, &mut b);
                                        ZST_SCRIPT.with(|z| *z.borrow_mut() = None);
                                        b
                                    };
                                    // a test that was parsed and bound on ANOTHER thread and then moved here (nothing of a test lives in
                                    // thread-local state of the thread that made it)
                                    let moved = {
                                        let (src_t, sigs_t) = (c.src.clone(), fresh.signals.iter().filter(|s| !matches!(s.typ, SignalType::Virtual { .. })).cloned().collect::<Vec<_>>());
                                        let made = std::thread::Builder::new()
                                            .stack_size(64 << 20)
                                            .spawn(move || catch_unwind(AssertUnwindSafe(|| ParsedTestCase::from_str(&src_t).ok().and_then(|p| p.with_signals(sigs_t).ok()))).unwrap_or(None))
                                            .ok()
                                            .and_then(|h| h.join().ok())
                                            .flatten();
                                        match made {
                                            Some(t) => run_one(&t),
                                            None => "NO TEST".to_string(),
                                        }
                                    };
                                    let verdict = [("the used test", direct), ("a clone of the used test", run_one(&used)), ("a fresh test with a re-entrant driver", reentrant), ("a fresh test with a zero-sized driver", zst), ("a test made on another thread", moved)]
                                        .iter()
                                        .find_map(|(who, b)| {
                                            if *b == a {
                                                None
                                            } else {
                                                let (la, lb): (Vec<&str>, Vec<&str>) = (a.lines().collect(), b.lines().collect());
                                                let i = (0..la.len().min(lb.len())).find(|&i| la[i] != lb[i]).unwrap_or(la.len().min(lb.len()));
                                                Some(format!(
                                                    "{who} (mode {mode}) line {i}: [{:.70}] vs fresh [{:.70}]",
                                                    lb.get(i).unwrap_or(&"<end>"),
                                                    la.get(i).unwrap_or(&"<end>")
                                                ))
                                            }
                                        });
                                    match verdict {
                                        None => out(&mut buf, "REUSE same"),
                                        Some(v) => out(&mut buf, &format!("REUSE DIFFERENT {v}")),
                                    }
                                    // a signal list taken from ANOTHER bound test carries that test's declared (virtual) signals: the
                                    // program with its `declare` lines blanked out, bound to this test's own full list, runs the same
                                    if c.src.contains("declare") {
                                        let src2: String = c
                                            .src
                                            .split('\n')
                                            .map(|l| if l.trim_start().starts_with("declare ") && l.trim_end().ends_with(';') && !l.contains('#') { "" } else { l })
                                            .collect::<Vec<_>>()
                                            .join("\n");
                                        // (a declaration in the TEXT makes the outputs it reads "read outputs" which the driver's first answer
                                        // must contain; one that comes with the list does not: only runs whose construction succeeds are compared)
                                        if src2 != c.src && !src2.contains("declare") && a.lines().any(|l| l == "NEW ok") {
                                            let list = fresh.signals.clone();
                                            let t2 = catch_unwind(AssertUnwindSafe(|| ParsedTestCase::from_str(&src2).ok().and_then(|p| p.with_signals(list).ok()))).unwrap_or(None);
                                            if let Some(t2) = t2 {
                                                let b = run_one(&t2);
                                                if b == a {
                                                    out(&mut buf, "VLIST same");
                                                } else {
                                                    let (la, lb): (Vec<&str>, Vec<&str>) = (a.lines().collect(), b.lines().collect());
                                                    let i = (0..la.len().min(lb.len())).find(|&i| la[i] != lb[i]).unwrap_or(la.len().min(lb.len()));
                                                    out(&mut buf, &format!("VLIST DIFFERENT line {i}: [{:.70}] vs [{:.70}]", lb.get(i).unwrap_or(&"<end>"), la.get(i).unwrap_or(&"<end>")));
                                                }
                                            } else {
                                                out(&mut buf, "VLIST REFUSED");
                                            }
                                        }
                                    }
                                    // `name` is a public field as well: once a test is bound, its rows go by position; a program that
                                    // reads no output by name runs the same after an input and an output have been renamed (the
                                    // driver is built from the renamed list and answers under the new names)
                                    if !has_reads {
                                        let tag = "Zq9Zq9";
                                        // (a name that also occurs in the program text, other than once in the header, may be looked up
                                        // by name at run time - a variable bound only inside a block that never runs: not renamed)
                                        let words: Vec<&str> = c.src.split(|ch: char| !(ch.is_ascii_alphanumeric() || ch == '_')).collect();
                                        let plain = |n: &str| !n.is_empty() && n.chars().all(|ch| ch.is_ascii_alphanumeric() || ch == '_') && words.iter().filter(|w| **w == n).count() <= 1;
                                        let mut ren = fresh.clone();
                                        let mut n_renamed = 0;
                                        if let Some(sg) = ren.signals.iter_mut().find(|sg| sg.is_input() && plain(&sg.name)) {
                                            sg.name = format!("{tag}{}", sg.name);
                                            n_renamed += 1;
                                        }
                                        if let Some(sg) = ren.signals.iter_mut().find(|sg| matches!(sg.typ, SignalType::Output) && plain(&sg.name)) {
                                            sg.name = format!("{tag}{}", sg.name);
                                            n_renamed += 1;
                                        }
                                        if n_renamed > 0 && !a.contains(tag) {
                                            let b = run_one(&ren).replace(tag, "");
                                            if b == a {
                                                out(&mut buf, "RENAME same");
                                            } else {
                                                let (la, lb): (Vec<&str>, Vec<&str>) = (a.lines().collect(), b.lines().collect());
                                                let i = (0..la.len().min(lb.len())).find(|&i| la[i] != lb[i]).unwrap_or(la.len().min(lb.len()));
                                                out(&mut buf, &format!("RENAME DIFFERENT line {i}: [{:.70}] vs [{:.70}]", lb.get(i).unwrap_or(&"<end>"), la.get(i).unwrap_or(&"<end>")));
                                            }
                                        }
                                    }
                                    // resetRandom replays the run's own start, whatever the seed: the same test once more with
                                    // the generator seeded by the system; every two segments of draws agree as far as their bounds do
                                    if c.src.contains("random") {
                                        // (with other draws the program may take another course - even one that never ends: the run
                                        // is made on a thread of its own and given up after a while; giving up is not a finding)
                                        let log = match freerun_log(c) {
                                            Some(log) => log,
                                            None => {
                                                out(&mut buf, "FREERUN same (given up: the run with other draws takes too long)");
                                                vec![]
                                            }
                                        };
                                        let mut segs: Vec<Vec<(i64, i64)>> = vec![vec![]];
                                        let mut bound = 0i64;
                                        for ev in &log {
                                            match ev {
                                                verif_hooks::RngEvent::Bound(b) => bound = *b,
                                                verif_hooks::RngEvent::Draw(d) => segs.last_mut().unwrap().push((bound, *d)),
                                                verif_hooks::RngEvent::Reset => segs.push(vec![]),
                                            }
                                        }
                                        let mut problem = String::new();
                                        'outer: for i in 0..segs.len() {
                                            for j in i + 1..segs.len() {
                                                for k in 0..segs[i].len().min(segs[j].len()) {
                                                    if segs[i][k].0 != segs[j][k].0 {
                                                        break;
                                                    }
                                                    if segs[i][k].1 != segs[j][k].1 {
                                                        problem = format!("segments {i} and {j} draw {k} bound {}: {} vs {}", segs[i][k].0, segs[i][k].1, segs[j][k].1);
                                                        break 'outer;
                                                    }
                                                }
                                            }
                                        }
                                        if problem.is_empty() {
                                            out(&mut buf, &format!("FREERUN same segments={}", segs.len()));
                                        } else {
                                            out(&mut buf, &format!("FREERUN DIFFERENT {problem}"));
                                        }
                                    }
                                }
                            }
                        }
                        "static" => run_static(c, &tc, &mut buf),
                        "multi" => run_multi(c, &tc, &mut buf),
                        _ => {}
                    }
                }
            }
        }
        other => out(&mut buf, &format!("UNKNOWN kind {other}")),
    }
    out(&mut buf, &format!("DONE {}", c.id));
    buf
}

/// The test of `c`, parsed and bound afresh, run on a thread of its own with the generator seeded by the system (no seed
/// override on that thread); the generator events of that run, or None when the run does not end within 400 ms.
fn freerun_log(c: &Case) -> Option<Vec<verif_hooks::RngEvent>> {
    let c2 = c.clone();
    let (tx, rx) = std::sync::mpsc::channel();
    let spawned = std::thread::Builder::new().stack_size(64 << 20).spawn(move || {
        let _ = verif_hooks::take_rng_log();
        let _ = catch_unwind(AssertUnwindSafe(|| {
            let Some(t) = ParsedTestCase::from_str(&c2.src).ok().and_then(|p| p.with_signals(c2.sigs.clone()).ok()) else { return };
            let sh = Sh::default();
            let mut d = DriverOverrideW(Script::new(&c2, &t.signals, sh.clone()));
            if let Ok(it) = t.try_iter(&mut d) {
                let mut k = 0;
                for item in it {
                    k += 1;
                    if k >= c2.max || (item.is_err() && !c2.cont) {
                        break;
                    }
                }
            }
        }));
        let _ = tx.send(verif_hooks::take_rng_log());
    });
    if spawned.is_err() {
        return None;
    }
    rx.recv_timeout(std::time::Duration::from_millis(400)).ok()
}

/// The run again through `Iterator`'s provided methods (seed % 5 == 2: `size_hint` before every item and the first
/// items through `by_ref().take(k)`; == 3: `fold`, then a second iterator's `last()` is not used because it would
/// double the calls - `fold` visits every item): the items must be those of the plain run.  "" = same.
fn adapt_check<D: TestDriver<Error = DrvError>>(c: &Case, tc: &TestCase, driver: &mut D, main_items: &[String]) -> String {
    let line = |item: Result<digital_test_runner::DataRow<'_>, digital_test_runner::errors::IterationError<DrvError>>| match item {
        Ok(row) => row_line(&row),
        Err(e) => format!("ITEM err {}", iteration_err_s(&e, |d: &DrvError| d.0)),
    };
    let mut got: Vec<String> = vec![];
    let mut problem = String::new();
    let Ok(mut it) = tc.try_iter(driver) else { return "constructor failed".to_string() };
    if c.seed % 5 == 2 {
        let k = (c.seed as usize / 5) % 4;
        for item in it.by_ref().take(k) {
            got.push(line(item));
        }
        loop {
            let (lo, hi) = it.size_hint();
            let remaining = main_items.len().saturating_sub(got.len());
            if (lo > remaining || hi.map_or(false, |h| h < remaining)) && problem.is_empty() {
                problem = format!("size_hint ({lo}, {hi:?}) with {remaining} items to come");
            }
            match it.next() {
                None => break,
                Some(item) => got.push(line(item)),
            }
            if got.len() > main_items.len() + 2 {
                break;
            }
        }
    } else if c.seed % 5 == 4 {
        // count() visits every item (and makes every call); the items themselves are not seen
        let n = it.count();
        return if n == main_items.len() { String::new() } else { format!("count() = {n} with {} items", main_items.len()) };
    } else if c.seed % 5 == 3 {
        // peek() before every next(): the peeked item is the next item, and is fetched once
        let mut pk = it.peekable();
        loop {
            let peeked = pk.peek().is_some();
            match pk.next() {
                None => {
                    if peeked && problem.is_empty() {
                        problem = "peek() saw an item but next() gave None".to_string();
                    }
                    break;
                }
                Some(item) => {
                    if !peeked && problem.is_empty() {
                        problem = "peek() saw the end but next() gave an item".to_string();
                    }
                    got.push(line(item));
                }
            }
            if got.len() > main_items.len() + 2 {
                break;
            }
        }
    } else if c.seed % 5 == 0 {
        let last = it.last().map(line);
        return if last.as_ref() == main_items.last() { String::new() } else { format!("last() = {:.60?} vs {:.60?}", last, main_items.last()) };
    } else {
        let limit = main_items.len() + 2;
        got = it.fold(Vec::new(), |mut acc, item| {
            if acc.len() < limit {
                acc.push(line(item));
            }
            acc
        });
    }
    if !problem.is_empty() {
        return problem;
    }
    if got.len() != main_items.len() {
        return format!("{} items vs {}", got.len(), main_items.len());
    }
    match got.iter().zip(main_items.iter()).position(|(a, b)| a != b) {
        Some(i) => format!("item {i}: [{:.60}] vs [{:.60}]", got[i], main_items[i]),
        None => String::new(),
    }
}

/// The edit a caller may make to the public signal list of a test: the first input-capable signal gets another width,
/// EVERY input-capable signal (column of the test or not) another default
fn edit_signal_list(sigs: &mut [Signal]) {
    let mut first = true;
    for sg in sigs.iter_mut().filter(|sg| sg.is_input()) {
        if first {
            sg.bits = sg.bits % 8 + 1;
            first = false;
        }
        match &mut sg.typ {
            SignalType::Input { default } | SignalType::Bidirectional { default } => {
                *default = match *default {
                    InputValue::Value(v) => InputValue::Value(v ^ 1),
                    InputValue::Z => InputValue::Value(1),
                }
            }
            _ => {}
        }
    }
}

fn install_hook() {
    std::panic::set_hook(Box::new(|info| {
        let loc = info
            .location()
            .map(|l| format!("{}:{}", l.file(), l.line()))
            .unwrap_or_default();
        LAST_PANIC_LOC.with(|l| *l.borrow_mut() = loc);
    }));
}

fn main() {
    install_hook();
    let mut text = String::new();
    let args: Vec<String> = std::env::args().collect();
    if args.len() > 1 {
        text = std::fs::read_to_string(&args[1]).expect("case file");
    } else {
        std::io::stdin().read_to_string(&mut text).unwrap();
    }
    let cases = std::sync::Arc::new(read_cases(&text));
    let limit_ms: u64 = std::env::var("VERIF_CASE_TIMEOUT_MS")
        .ok()
        .and_then(|s| s.parse().ok())
        .unwrap_or(4000);
    let stdout = std::io::stdout();
    use std::io::Write;
    let mut lock = stdout.lock();
    // Watchdog: cases run on a worker thread; a case that does not finish within the limit
    // (a `while` that never ends without yielding a row, a next() that spins) is reported
    // as HANG and a fresh worker continues with the following case.
    let mut start = 0usize;
    while start < cases.len() {
        let (tx, rx) = std::sync::mpsc::channel::<(usize, String)>();
        let cs = cases.clone();
        let from = start;
        std::thread::Builder::new()
            .stack_size(64 << 20)
            .spawn(move || {
                install_hook();
                for i in from..cs.len() {
                    let s = run_case(&cs[i]);
                    if tx.send((i, s)).is_err() {
                        return;
                    }
                }
            })
            .unwrap();
        let mut next = start;
        loop {
            if next >= cases.len() {
                start = next;
                break;
            }
            match rx.recv_timeout(std::time::Duration::from_millis(limit_ms)) {
                Ok((i, s)) => {
                    lock.write_all(s.as_bytes()).unwrap();
                    lock.flush().unwrap();
                    next = i + 1;
                }
                Err(_) => {
                    let id = &cases[next].id;
                    let s = format!("CASE {id}\nHANG\nDONE {id}\n");
                    lock.write_all(s.as_bytes()).unwrap();
                    lock.flush().unwrap();
                    start = next + 1;
                    break;
                }
            }
        }
    }
    drop(lock);
    std::process::exit(0);
}
