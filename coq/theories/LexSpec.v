(* LexSpec: a semantic reading of the token declarations of src/lexer/token.rs.

   The regular expressions of the logos declaration reach the model as STRINGS (GeneratedTables.v:
   gen_regexes, gen_header_regexes, gen_header_tokens, gen_keywords, gen_punct).  This file gives them
   a meaning: a regular-expression AST with the standard inductive matching relation, a parser from the
   regex syntax to that AST, a normal form (norm) that absorbs harmless re-spellings, and the rule
   tables (token kind, regular expression in normal form) of the two lexers, computed from the
   generated tables, next to explicit canonical tables they are compared with up to order.  proofs/LexSpecProof.v proves that the hand-written scanners of
   Lexer.v (lex_one, hlex_one) are the longest-match / priority lexers of these tables. *)
From DTR Require Import Prelude Ast Generated GeneratedTables Lexer.
From Coq Require Import String Ascii.
Open Scope N_scope.

(* ------------------------------------------------------------------------------------------------ *)
(* 1. regular expressions over code points                                                            *)

(* one member of a bracketed class: a range lo-hi (a single character c is c-c) or the class \d *)
Inductive citem :=
| CRange (lo hi : N)
| CNd.

Inductive re :=
| REps                                        (* the empty word (empty group / empty branch) *)
| RChar (c : N)                               (* one literal character *)
| RClass (neg : bool) (items : list citem)    (* [...] / [^...] ; \d outside brackets is RClass false [CNd] *)
| RCat (a b : re)
| RAlt (a b : re)
| RStar (a : re)
| RPlus (a : re).

(* \d is the Unicode class Nd: the range table unicode_nd, through Lexer.is_unicode_digit *)
Definition citem_in (c : N) (i : citem) : bool :=
  match i with
  | CRange lo hi => in_range lo hi c
  | CNd => is_unicode_digit c
  end.

Definition class_in (neg : bool) (items : list citem) (c : N) : bool :=
  xorb neg (existsb (citem_in c) items).

Inductive re_matches : re -> text -> Prop :=
| MEps : re_matches REps []
| MChar : forall c, re_matches (RChar c) [c]
| MClass : forall neg items c, class_in neg items c = true -> re_matches (RClass neg items) [c]
| MCat : forall a b u v, re_matches a u -> re_matches b v -> re_matches (RCat a b) (u ++ v)
| MAltL : forall a b u, re_matches a u -> re_matches (RAlt a b) u
| MAltR : forall a b u, re_matches b u -> re_matches (RAlt a b) u
| MStar0 : forall a, re_matches (RStar a) []
| MStarS : forall a u v, re_matches a u -> re_matches (RStar a) v -> re_matches (RStar a) (u ++ v)
| MPlus : forall a u v, re_matches a u -> re_matches (RStar a) v -> re_matches (RPlus a) (u ++ v).

(* ------------------------------------------------------------------------------------------------ *)
(* 2. the parser: string -> option re

      alt  ::= cat ('|' cat)*
      cat  ::= rep*                      (stops at '|', ')' and the end)
      rep  ::= atom ('*' | '+')*
      atom ::= '(' alt ')' | '[' '^'? item* ']' | '\' esc | any other ASCII character that is not a
               metacharacter
      item ::= catom '-' catom | catom ;  catom ::= '\' esc | any ASCII character but ']'
      esc  ::= t r f n (control characters), d (the class Nd), or a punctuation character (itself)

   Everything the parser does not know (. ? { } ^ $ outside brackets, other escapes, non-ASCII bytes,
   unbalanced brackets) makes it answer None, never a guess. *)

Local Open Scope char_scope.

Definition ascii_ok (a : ascii) : bool := (N_of_ascii a <? 128)%N.

Definition is_alnum (a : ascii) : bool :=
  let n := N_of_ascii a in
  in_range 48 57 n || in_range 65 90 n || in_range 97 122 n.

(* the character an escape \a stands for (\d is handled by the callers) *)
Definition esc_char (a : ascii) : option N :=
  match a with
  | "t" => Some 9
  | "r" => Some 13
  | "f" => Some 12
  | "n" => Some 10
  | _ => if ascii_ok a && negb (is_alnum a) then Some (N_of_ascii a) else None
  end.

(* one atom of a class: inl c = the character c, inr tt = \d *)
Definition class_atom (s : list ascii) : option ((N + unit) * list ascii) :=
  match s with
  | [] => None
  | "\" :: "d" :: r => Some (inr tt, r)
  | "\" :: x :: r => match esc_char x with Some c => Some (inl c, r) | None => None end
  | "\" :: [] => None
  | c :: r => if ascii_ok c then Some (inl (N_of_ascii c), r) else None
  end.

(* the members of a class up to and including the closing bracket *)
Fixpoint class_items (fuel : nat) (s : list ascii) : option (list citem * list ascii) :=
  match fuel with
  | O => None
  | S f =>
    match s with
    | "]" :: r => Some ([], r)
    | _ =>
      match class_atom s with
      | None => None
      | Some (inr _, r) =>
        match class_items f r with Some (l, r') => Some (CNd :: l, r') | None => None end
      | Some (inl lo, r) =>
        let single :=
          match class_items f r with Some (l, r') => Some (CRange lo lo :: l, r') | None => None end in
        match r with
        | "-" :: "]" :: _ => single            (* a '-' just before ']' is a literal '-' *)
        | "-" :: r1 =>
          match class_atom r1 with
          | Some (inl hi, r2) =>
            if (lo <=? hi)%N then
              match class_items f r2 with Some (l, r') => Some (CRange lo hi :: l, r') | None => None end
            else None
          | _ => None
          end
        | _ => single
        end
      end
    end
  end.

(* postfix operators *)
Fixpoint p_post (a : re) (s : list ascii) : re * list ascii :=
  match s with
  | "*" :: r => p_post (RStar a) r
  | "+" :: r => p_post (RPlus a) r
  | _ => (a, s)
  end.

Definition mk_cat (a b : re) : re := match b with REps => a | _ => RCat a b end.

Fixpoint p_alt (fuel : nat) (s : list ascii) : option (re * list ascii) :=
  match fuel with
  | O => None
  | S f =>
    match p_cat f s with
    | Some (a, "|" :: r) =>
      match p_alt f r with Some (b, r') => Some (RAlt a b, r') | None => None end
    | other => other
    end
  end
with p_cat (fuel : nat) (s : list ascii) : option (re * list ascii) :=
  match fuel with
  | O => None
  | S f =>
    match s with
    | [] => Some (REps, s)
    | "|" :: _ => Some (REps, s)
    | ")" :: _ => Some (REps, s)
    | _ =>
      match p_atom f s with
      | Some (a, r) =>
        let (a', r1) := p_post a r in
        match p_cat f r1 with Some (b, r2) => Some (mk_cat a' b, r2) | None => None end
      | None => None
      end
    end
  end
with p_atom (fuel : nat) (s : list ascii) : option (re * list ascii) :=
  match fuel with
  | O => None
  | S f =>
    match s with
    | [] => None
    | "(" :: r =>
      match p_alt f r with Some (a, ")" :: r') => Some (a, r') | _ => None end
    | "[" :: "^" :: r =>
      match class_items (S (List.length r)) r with
      | Some (l, r') => Some (RClass true l, r') | None => None end
    | "[" :: r =>
      match class_items (S (List.length r)) r with
      | Some (l, r') => Some (RClass false l, r') | None => None end
    | "\" :: "d" :: r => Some (RClass false [CNd], r)
    | "\" :: x :: r => match esc_char x with Some c => Some (RChar c, r) | None => None end
    | "\" :: [] => None
    | "*" :: _ | "+" :: _ | ")" :: _ | "|" :: _ | "]" :: _ => None
    | "." :: _ | "?" :: _ | "{" :: _ | "}" :: _ | "^" :: _ | "$" :: _ => None
    | c :: r => if ascii_ok c then Some (RChar (N_of_ascii c), r) else None
    end
  end.

Local Close Scope char_scope.

Definition parse_re (s : string) : option re :=
  let l := list_ascii_of_string s in
  match p_alt (4 * List.length l + 8)%nat l with
  | Some (a, []) => Some a
  | _ => None
  end.

(* a literal token #[token("...")]: the characters one after the other *)
Definition lit_re (w : text) : re := fold_right (fun c r => RCat (RChar c) r) REps w.

(* The literal tokens of the header lexer come as Rust string literals (gen_header_tokens keeps the
   source spelling, e.g. backslash n): undo the escapes. *)
Fixpoint unescape (s : list ascii) : option text :=
  match s with
  | [] => Some []
  | "\"%char :: x :: r =>
    match esc_char x, unescape r with Some c, Some t => Some (c :: t) | _, _ => None end
  | c :: r =>
    if ascii_ok c then match unescape r with Some t => Some (N_of_ascii c :: t) | None => None end
    else None
  end.

(* ------------------------------------------------------------------------------------------------ *)
(* 3. a normal form, so that the tables do not depend on how a regular expression is spelled

      - a single character is a one-range class;
      - the ranges of a class are sorted by lower bound, overlapping and adjacent ranges are merged,
        empty ranges dropped, \d (kept apart, never expanded) comes last; the negation flag stays;
      - an alternation of non-negated classes / characters is ONE class (the union);
      - e+ is e e* ;
      - concatenations are right-nested and have no empty-word units;
      - all this recursively.                                                                          *)

Definition range := (N * N)%type.

Definition in_ranges (c : N) (rs : list range) : bool :=
  existsb (fun r => in_range (fst r) (snd r) c) rs.

Fixpoint ranges_of (items : list citem) : list range :=
  match items with
  | [] => []
  | CRange lo hi :: t => if lo <=? hi then (lo, hi) :: ranges_of t else ranges_of t
  | CNd :: t => ranges_of t
  end.

Fixpoint has_nd (items : list citem) : bool :=
  match items with
  | [] => false
  | CNd :: _ => true
  | _ :: t => has_nd t
  end.

Fixpoint insert_range (r : range) (rs : list range) : list range :=
  match rs with
  | [] => [r]
  | r' :: t => if fst r <=? fst r' then r :: rs else r' :: insert_range r t
  end.

Definition sort_ranges (rs : list range) : list range := fold_right insert_range [] rs.

(* merge the current range lo-hi with the following ones as long as they touch it *)
Fixpoint merge_from (lo hi : N) (rs : list range) : list range :=
  match rs with
  | [] => [(lo, hi)]
  | (lo2, hi2) :: t =>
    if (lo <=? hi) && (lo2 <=? hi2) && (lo2 <=? hi + 1) && (lo <=? hi2 + 1)
    then merge_from (N.min lo lo2) (N.max hi hi2) t
    else (lo, hi) :: merge_from lo2 hi2 t
  end.

Definition merge_ranges (rs : list range) : list range :=
  match rs with
  | [] => []
  | (lo, hi) :: t => merge_from lo hi t
  end.

Definition norm_items (items : list citem) : list citem :=
  map (fun r => CRange (fst r) (snd r)) (merge_ranges (sort_ranges (ranges_of items)))
  ++ (if has_nd items then [CNd] else []).

(* flattening concatenation: the result is right-nested and has no REps unit when a and b are so *)
Fixpoint cat_app (a b : re) : re :=
  match a with
  | REps => b
  | RCat x y => cat_app x (cat_app y b)
  | _ => match b with REps => a | _ => RCat a b end
  end.

(* alternation: two non-negated classes are one class *)
Definition mk_alt (a b : re) : re :=
  match a, b with
  | RClass false ia, RClass false ib => RClass false (norm_items (ia ++ ib))
  | _, _ => RAlt a b
  end.

Fixpoint norm (e : re) : re :=
  match e with
  | REps => REps
  | RChar c => RClass false [CRange c c]
  | RClass neg items => RClass neg (norm_items items)
  | RCat a b => cat_app (norm a) (norm b)
  | RAlt a b => mk_alt (norm a) (norm b)
  | RStar a => RStar (norm a)
  | RPlus a => let a' := norm a in cat_app a' (RStar a')
  end.

(* decidable equality on expressions and rules (for the order-insensitive comparison of tables) *)
Definition citem_eqb (a b : citem) : bool :=
  match a, b with
  | CRange l h, CRange l' h' => (l =? l') && (h =? h')
  | CNd, CNd => true
  | _, _ => false
  end.

Fixpoint list_eqb {A} (eqb : A -> A -> bool) (l1 l2 : list A) : bool :=
  match l1, l2 with
  | [], [] => true
  | x :: t1, y :: t2 => eqb x y && list_eqb eqb t1 t2
  | _, _ => false
  end.

Fixpoint re_eqb (a b : re) : bool :=
  match a, b with
  | REps, REps => true
  | RChar c, RChar d => c =? d
  | RClass n i, RClass n' i' => Bool.eqb n n' && list_eqb citem_eqb i i'
  | RCat a1 a2, RCat b1 b2 => re_eqb a1 b1 && re_eqb a2 b2
  | RAlt a1 a2, RAlt b1 b2 => re_eqb a1 b1 && re_eqb a2 b2
  | RStar a1, RStar b1 => re_eqb a1 b1
  | RPlus a1, RPlus b1 => re_eqb a1 b1
  | _, _ => false
  end.

Definition opt_eqb {A} (eqb : A -> A -> bool) (a b : option A) : bool :=
  match a, b with
  | Some x, Some y => eqb x y
  | None, None => true
  | _, _ => false
  end.

Definition htk_eqb (a b : htk) : bool :=
  match a, b with
  | HName, HName => true
  | HEol, HEol => true
  | _, _ => false
  end.

Definition incl_b {A} (eqb : A -> A -> bool) (l1 l2 : list A) : bool :=
  forallb (fun x => existsb (eqb x) l2) l1.

(* ------------------------------------------------------------------------------------------------ *)
(* 4. the rule tables                                                                                 *)

(* a rule: the kind it produces (None = logos::skip) and its regular expression *)
Definition rule (K : Type) := (option K * re)%type.

Definition rule_matches {K} (rules : list (rule K)) (k : option K) (w : text) : Prop :=
  exists e, In (k, e) rules /\ re_matches e w.

Definition rule_eqb {K} (keqb : K -> K -> bool) (r1 r2 : rule K) : bool :=
  opt_eqb keqb (fst r1) (fst r2) && re_eqb (snd r1) (snd r2).

(* the two tables have the same rules, in whatever order and multiplicity *)
Definition same_rules {K} (keqb : K -> K -> bool) (l1 l2 : list (rule K)) : bool :=
  incl_b (rule_eqb keqb) l1 l2 && incl_b (rule_eqb keqb) l2 l1.

(* used when a table entry cannot be read: a rule that matches every text, under which none of the
   theorems of LexSpecProof.v could hold (so a misread table can never go unnoticed) *)
Definition re_any : re := RStar (RClass true []).

Local Open Scope string_scope.

(* the names of the regex variants of TokenKind *)
Definition regex_kind (n : string) : option (option tk) :=
  if String.eqb n "Ident" then Some (Some TIdent)
  else if String.eqb n "DecInt" then Some (Some TDecInt)
  else if String.eqb n "HexInt" then Some (Some THexInt)
  else if String.eqb n "BinInt" then Some (Some TBinInt)
  else if String.eqb n "OctInt" then Some (Some TOctInt)
  else if String.eqb n "WS" then Some None
  else if String.eqb n "Comment" then Some None
  else None.

Definition header_kind (n : string) : option (option htk) :=
  if String.eqb n "SignalName" then Some (Some HName)
  else if String.eqb n "Eol" then Some (Some HEol)
  else if String.eqb n "WS" then Some None
  else None.

(* nf = norm for the tables the theorems are about, nf = identity for the raw tables *)
Fixpoint regex_rules_of {K} (nf : re -> re) (kind : string -> option (option K))
  (l : list (string * string)) : option (list (rule K)) :=
  match l with
  | [] => Some []
  | (n, s) :: t =>
    match kind n, parse_re s, regex_rules_of nf kind t with
    | Some k, Some e, Some rs => Some ((k, nf e) :: rs)
    | _, _, _ => None
    end
  end.

Fixpoint token_rules_of {K} (kind : string -> option (option K)) (l : list (string * string))
  : option (list (rule K)) :=
  match l with
  | [] => Some []
  | (n, s) :: t =>
    match kind n, unescape (list_ascii_of_string s), token_rules_of kind t with
    | Some k, Some w, Some rs => Some ((k, lit_re w) :: rs)
    | _, _, _ => None
    end
  end.

Definition or_poison {K} (bad : option K) (o : option (list (rule K))) : list (rule K) :=
  match o with Some l => l | None => [(bad, re_any)] end.

Definition raw (e : re) : re := e.

(* the regex rules of TokenKind, from gen_regexes, in normal form *)
Definition regex_rules : option (list (rule tk)) := regex_rules_of norm regex_kind gen_regexes.
Definition raw_regex_rules : option (list (rule tk)) := regex_rules_of raw regex_kind gen_regexes.
(* the keywords (gen_keywords already holds code points) and the punctuation, Eol included (gen_punct);
   literal tokens stay the plain concatenation of their characters *)
Definition keyword_rules : list (rule tk) := map (fun p => (Some (snd p), lit_re (fst p))) gen_keywords.
Definition punct_rules : list (rule tk) := map (fun p => (Some (snd p), lit_re (s2n (fst p)))) gen_punct.

(* the statement lexer *)
Definition lex_rules : list (rule tk) :=
  or_poison (Some TError) regex_rules ++ keyword_rules ++ punct_rules.
(* ... and the same table with the expressions exactly as parse_re returns them *)
Definition raw_lex_rules : list (rule tk) :=
  or_poison (Some TError) raw_regex_rules ++ keyword_rules ++ punct_rules.

(* the header lexer *)
Definition hlex_regex_rules : option (list (rule htk)) :=
  regex_rules_of norm header_kind gen_header_regexes.
Definition raw_hlex_regex_rules : option (list (rule htk)) :=
  regex_rules_of raw header_kind gen_header_regexes.
Definition hlex_token_rules : option (list (rule htk)) := token_rules_of header_kind gen_header_tokens.
Definition hlex_rules : list (rule htk) :=
  or_poison None hlex_regex_rules ++ or_poison None hlex_token_rules.
Definition raw_hlex_rules : list (rule htk) :=
  or_poison None raw_hlex_regex_rules ++ or_poison None hlex_token_rules.

(* ---- the tables the proofs are written against: explicit, in normal form, in a fixed order of their
   own (LexSpecProof.v shows they have the same rules as lex_rules / hlex_rules, whatever the order
   and the spelling in the source) *)
Definition pcls (items : list citem) : re := RClass false items.

Definition canon_ident : re :=
  RCat (pcls [CRange 65 90; CRange 95 95; CRange 97 122])
       (RStar (pcls [CRange 65 90; CRange 95 95; CRange 97 122; CNd])).
Definition canon_dec : re := RCat (pcls [CRange 49 57]) (RStar (pcls [CRange 48 57])).
Definition canon_hex : re :=
  RCat (pcls [CRange 48 48]) (RCat (pcls [CRange 88 88; CRange 120 120])
    (RCat (pcls [CRange 48 57; CRange 65 70; CRange 97 102])
          (RStar (pcls [CRange 48 57; CRange 65 70; CRange 97 102])))).
Definition canon_bin : re :=
  RCat (pcls [CRange 48 48]) (RCat (pcls [CRange 66 66; CRange 98 98])
    (RCat (pcls [CRange 48 49]) (RStar (pcls [CRange 48 49])))).
Definition canon_oct : re := RCat (pcls [CRange 48 48]) (RStar (pcls [CRange 48 55])).
Definition canon_ws : re :=
  RCat (pcls [CRange 9 9; CRange 12 13; CRange 32 32]) (RStar (pcls [CRange 9 9; CRange 12 13; CRange 32 32])).
Definition canon_comment : re := RCat (pcls [CRange 35 35]) (RStar (RClass true [CRange 10 10])).
Definition canon_hname : re :=
  RCat (RClass true [CRange 9 10; CRange 12 13; CRange 32 32])
       (RStar (RClass true [CRange 9 10; CRange 12 13; CRange 32 32])).

Definition canonical_regex_rules : list (rule tk) :=
  [ (Some TIdent, canon_ident); (Some TDecInt, canon_dec); (Some THexInt, canon_hex);
    (Some TBinInt, canon_bin); (Some TOctInt, canon_oct); (None, canon_ws); (None, canon_comment) ].

Definition kw_rule (s : string) (k : tk) : rule tk := (Some k, lit_re (s2n s)).

Definition canonical_lex_rules : list (rule tk) :=
  canonical_regex_rules ++
  [ kw_rule "end" TEnd; kw_rule "loop" TLoop; kw_rule "repeat" TRepeat; kw_rule "bits" TBits;
    kw_rule "let" TLet; kw_rule "resetRandom" TResetRandom; kw_rule "while" TWhile;
    kw_rule "declare" TDeclare; kw_rule "program" TProgram; kw_rule "init" TInit;
    kw_rule "memory" TMemory; kw_rule "def" TDef; kw_rule "call" TCall ] ++
  [ kw_rule "," TComma; kw_rule ";" TSemi; kw_rule "+" TPlus; kw_rule "-" TMinus; kw_rule "*" TTimes;
    kw_rule "/" TDivide; kw_rule "%" TReminder; kw_rule "!" TLogicalNot; kw_rule "~" TBinaryNot;
    kw_rule "^" TXor; kw_rule "&" TAnd; kw_rule "|" TOr; kw_rule "<<" TShiftLeft;
    kw_rule ">>" TShiftRight; kw_rule "=" TEqual; kw_rule "!=" TNotEqual;
    kw_rule "<=" TLessThanOrEqual; kw_rule ">=" TGreaterThanOrEqual; kw_rule "<" TLessThan;
    kw_rule ">" TGreaterThan; kw_rule "(" TLParen; kw_rule ")" TRParen;
    (Some TEol, lit_re [10]) ].

Definition canonical_hlex_rules : list (rule htk) :=
  [ (Some HName, canon_hname); (None, canon_ws); (Some HEol, lit_re [10]) ].

(* the kinds of the keyword tokens *)
Definition keyword_kind (k : tk) : Prop := exists w, In (w, k) gen_keywords.

(* the logos quirk documented in Lexer.v above ident_kind: the text after the word starts with a
   non-ASCII character whose first UTF-8 byte is also the first byte of some decimal digit *)
Definition nd_lead_quirk (r : text) : Prop :=
  exists d r', r = d :: r' /\ 128 <= d /\ is_nd_lead (utf8_lead d) = true.
