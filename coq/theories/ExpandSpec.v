(* SPEC for C05: what a source row expands to, in the property's own words.
   No cache, no stack, no re-expansion: a list, in execution order, of
   (entries, checked?) pairs.

   - a row with k `X` entries in input columns is executed once for each of the 2^k
     assignments of 0/1 to those columns, the leftmost such column varying fastest,
     0 before 1;
   - each assignment is executed as a clock triple when some input column holds `C`:
     all clock columns 0, then 1 (both unchecked, nothing expected), then 0 again,
     checked against the row's expected values; otherwise as one checked row;
   - `X` / `Z` / `C` in columns that are not input columns are never expanded. *)
From DTR Require Import Prelude Ast.

Section SPEC.
(* is column i of the header bound to an input-capable signal? *)
Variable is_input_col : nat -> bool.
(* is column i of the header bound as the expected column of some signal, and not an
   input column?  (those are the columns shown as "nothing expected" in the two
   unchecked rows of a clock triple) *)
Variable is_pure_expected_col : nat -> bool.

(* the input columns of a row that hold d, left to right *)
Fixpoint cols_holding_from (d : dentry) (i : nat) (entries : list dentry) : list nat :=
  match entries with
  | [] => []
  | e :: r => if dentry_eqb e d && is_input_col i then i :: cols_holding_from d (S i) r
              else cols_holding_from d (S i) r
  end.
Definition cols_holding d entries := cols_holding_from d O entries.

(* all assignments of 0/1 to the columns `cols`, first column varying fastest, 0 before 1 *)
Fixpoint assignments (cols : list nat) (entries : list dentry) : list (list dentry) :=
  match cols with
  | [] => [entries]
  | i :: rest =>
      flat_map (fun es => [list_set es i (DNum 0); list_set es i (DNum 1)]) (assignments rest entries)
  end.

Fixpoint set_cols (cols : list nat) (d : dentry) (entries : list dentry) : list dentry :=
  match cols with
  | [] => entries
  | i :: rest => set_cols rest d (list_set entries i d)
  end.

(* nothing is expected in the unchecked rows *)
Definition blank (entries : list dentry) : list dentry :=
  mapi (fun i e => if is_pure_expected_col i then DX else e) entries.

(* one assignment: a single checked row, or a clock triple *)
Definition phases (entries : list dentry) : list (list dentry * bool) :=
  match cols_holding DC entries with
  | [] => [(entries, true)]
  | cs => [ (blank (set_cols cs (DNum 0) entries), false);
            (blank (set_cols cs (DNum 1) entries), false);
            (set_cols cs (DNum 0) entries, true) ]
  end.

Definition expand_spec (entries : list dentry) : list (list dentry * bool) :=
  flat_map phases (assignments (cols_holding DX entries) entries).

End SPEC.
