(* C14 - Virtual signals are computed from the same row's outputs, blind to variables.
   Property theorems only; proofs in proofs/OutputsProof.v (value, blindness, swap balance),
   ByNameProof.v (expected column by name, X when absent: C06_expected_by_name covers TyVirtual),
   MaskProof/Bind (64 bits wide: C07_virtual_is_64). *)
From DTR Require Import Prelude I64 Ast FramedMap Lexer Parser Bind Eval Stmt Iter Script WfSpec.
From DTR.proofs Require Import EvalProof IterLogProof OutputsProof NoPanicProof ParserProof BindProof Chain RunRefineE IterLogProofE VectorProof OutputsRunProof VarsRunProof.
Local Open Scope nat_scope.

(* the value of a virtual signal in a checked row = its expression evaluated in a context with NO program variables over the outputs of THIS row's call (ctx_new (couts c), where couts c is this call's answer by C04); the generator state is threaded through the preceding virtual signals *)
Theorem C14_virtual_value :
  forall (G : gen) (tc : testcase) (outs0 : list out_entry) (nout : nat) (oi : list out_index)
  (outs : list out_entry) (c c' : ctx) (vals : list outval) (k : nat) (e : expr),
  build_output_indices tc outs0 = Ok oi ->
  extract_output_values G tc nout oi outs c = (c', Ok vals) ->
  calt c = fm_new ->
  nth_error oi k = Some (OIVirtual e) ->
  exists n : Z,
  nth_error vals k = Some (OVal n) /\
  fst (eval G (ctx_new (couts c)) e (virtual_rng G (ctx_new (couts c)) (firstn k oi) (crng c))) = Ok n.
Proof. exact virtual_value. Qed.

(* without random in declarations: evaluated at the row's generator state, which it leaves unchanged *)
Theorem C14_virtual_value_no_random :
  forall (G : gen) (tc : testcase) (outs0 : list out_entry) (nout : nat) (oi : list out_index)
  (outs : list out_entry) (c c' : ctx) (vals : list outval) (k : nat) (e : expr),
  build_output_indices tc outs0 = Ok oi ->
  extract_output_values G tc nout oi outs c = (c', Ok vals) ->
  calt c = fm_new ->
  no_random_entries oi = true ->
  nth_error oi k = Some (OIVirtual e) ->
  exists n : Z,
  nth_error vals k = Some (OVal n) /\ eval G (ctx_new (couts c)) e (crng c) = (Ok n, crng c).
Proof. exact virtual_value_no_random. Qed.

(* program variables are invisible to virtual signals: two contexts differing only in their variables give the same values *)
Theorem C14_blind_to_variables :
  forall (G : gen) (tc : testcase) (nout : nat) (oi : list out_index) (outs : list out_entry)
  (c1 c2 : ctx),
  calt c1 = calt c2 ->
  couts c1 = couts c2 ->
  crng c1 = crng c2 ->
  snd (extract_output_values G tc nout oi outs c1) = snd (extract_output_values G tc nout oi outs c2) /\
  crng (fst (extract_output_values G tc nout oi outs c1)) =
  crng (fst (extract_output_values G tc nout oi outs c2)).
Proof. exact virtual_blind_to_variables. Qed.

Theorem C14_eval_sees_only_lookups :
  forall (G : gen) (c1 c2 : ctx) (e : expr) (rng : rng_state),
  (forall x : name, ctx_get c1 x = ctx_get c2 x) -> eval G c1 e rng = eval G c2 e rng.
Proof. exact eval_blind_to. Qed.

(* the swap of the variable maps is always undone: program variables, alternate map and outputs are as before *)
Theorem C14_variables_restored :
  forall (G : gen) (tc : testcase) (nout : nat) (oi : list out_index) (outs : list out_entry)
  (c c' : ctx) (r : R rterr (list outval)),
  extract_output_values G tc nout oi outs c = (c', r) ->
  cvars c' = cvars c /\ calt c' = calt c /\ couts c' = couts c.
Proof. exact extract_restores_vars. Qed.

(* an evaluation error of a virtual signal (earlier entries having succeeded) makes the row an error item *)
Theorem C14_error_is_row_error :
  forall (G : gen) (tc : testcase) (outs0 : list out_entry) (nout : nat) (oi : list out_index)
  (outs : list out_entry) (c : ctx) (k : nat) (e : expr) (xe : xerr) (c1 : ctx)
  (vals1 : list outval),
  build_output_indices tc outs0 = Ok oi ->
  length outs = nout ->
  calt c = fm_new ->
  nth_error oi k = Some (OIVirtual e) ->
  extract_loop G tc (combine (firstn k (tc_expected_indices tc)) (firstn k oi)) outs (ctx_swap_vars c) =
  (c1, Ok vals1) ->
  fst (eval G (ctx_new (couts c)) e (crng c1)) = Err xe ->
  snd (extract_output_values G tc nout oi outs c) = Err (RT_Expr xe).
Proof. exact virtual_error_is_row_error. Qed.

(* a virtual signal reading a Z or X output: error item, not a panic, not a wrong value *)
Theorem C14_ZX_is_error :
  forall (G : gen) (tc : testcase) (outs0 : list out_entry) (nout : nat) (oi : list out_index)
  (outs : list out_entry) (c : ctx) (k : nat) (x : name) (v : outval) (c1 : ctx)
  (vals1 : list outval),
  build_output_indices tc outs0 = Ok oi ->
  length outs = nout ->
  calt c = fm_new ->
  nth_error oi k = Some (OIVirtual (EVar x)) ->
  extract_loop G tc (combine (firstn k (tc_expected_indices tc)) (firstn k oi)) outs (ctx_swap_vars c) =
  (c1, Ok vals1) ->
  ctx_get (ctx_new (couts c)) x = Some v ->
  v = OZ \/ v = OX ->
  snd (extract_output_values G tc nout oi outs c) = Err (RT_Expr (XE_UnexpectedValueForSignal x v)).
Proof. exact virtual_ZX_is_error. Qed.

(* the entry of a virtual signal is exactly its declared expression *)
Theorem C14_virtual_entries_are_the_declared_ones :
  forall (tc : testcase) (outs0 : list out_entry) (oi : list out_index) (k : nat) 
  (idx : entry_index) (s : signal),
  build_output_indices tc outs0 = Ok oi ->
  nth_error (tc_expected_indices tc) k = Some idx ->
  sig_at tc idx = Some s ->
  forall e : expr, nth_error oi k = Some (OIVirtual e) <-> styp s = TyVirtual e.
Proof. exact build_virtual_entries. Qed.

(* RUN LEVEL, through error items: in every row of every run each declared (virtual) signal carries the value of its expression evaluated in a context WITHOUT variables whose outputs are the answer to that very row's call *)
Theorem C14_declared_values_of_every_row :
  forall (G : gen) (DE : Type) (D : driver DE) (w_default : bool) (tc : testcase) 
  (fuel n : nat) (st0 : istate),
  try_new DE D tc = NewOk DE st0 ->
  Forall
  (fun s : step DE =>
  match step_item DE s with
  | VRow row =>
  exists (er : evaluated_row) (st1 : istate),
  get_row G tc fuel (step_pre DE s) = GRRow er st1 /\
  declared_values_ok G DE D (i_log (step_pre DE s)) (crng (i_ctx st1)) (i_outidx st0) row /\
  (dr_outputs row <> [] ->
  i_log (step_post DE s) = i_log (step_pre DE s) ++ [(RW, dr_inputs row)] /\
  (exists outs : list out_entry,
  D (i_log (step_pre DE s)) (RW, dr_inputs row) = DrvOk outs /\
  couts (i_ctx (step_post DE s)) = outs_map outs))
  | _ => True
  end) (steps_e G DE D w_default tc fuel n st0).
Proof. exact declared_values_of_every_row. Qed.

(* the total case table of next(): in every outcome that made a call the variables are those right after the row was evaluated, and the map used to hide the variables from declared signals is empty again *)
Theorem C14_variables_untouched_in_every_outcome :
  forall (G : gen) (DE : Type) (D : driver DE) (w_default : bool) (tc : testcase) 
  (fuel : nat) (st : istate),
  match inext G DE D w_default tc fuel st with
  | ItNone _ st' =>
  get_row G tc fuel st = GRNone st' /\ i_log st' = i_log st /\ calt (i_ctx st') = calt (i_ctx st)
  | ItRow _ _ st' =>
  exists (er : evaluated_row) (st1 : istate) (outs : list out_entry),
  get_row G tc fuel st = GRRow er st1 /\
  D (i_log st) (call_kind w_default er, er_inputs er) = DrvOk outs /\
  i_log st' = i_log st ++ [(call_kind w_default er, er_inputs er)] /\
  cvars (i_ctx st') = cvars (i_ctx st1) /\ calt (i_ctx st') = calt (i_ctx st)
  | ItErr _ (IE_Driver e) st' =>
  exists (er : evaluated_row) (st1 : istate),
  get_row G tc fuel st = GRRow er st1 /\
  D (i_log st) (call_kind w_default er, er_inputs er) = DrvErr e /\
  i_log st' = i_log st ++ [(call_kind w_default er, er_inputs er)] /\
  cvars (i_ctx st') = cvars (i_ctx st1) /\ calt (i_ctx st') = calt (i_ctx st)
  | ItErr _ (IE_Runtime r) st' =>
  (exists x : xerr,
  r = RT_Expr x /\
  get_row G tc fuel st = GRErr x st' /\
  i_log st' = i_log st /\ calt (i_ctx st') = calt (i_ctx st)) \/
  (exists (er : evaluated_row) (st1 : istate) (outs : list out_entry),
  get_row G tc fuel st = GRRow er st1 /\
  er_update_output er = true /\
  D (i_log st) (RW, er_inputs er) = DrvOk outs /\
  refusal (i_nout st) outs r /\
  i_log st' = i_log st ++ [(RW, er_inputs er)] /\
  cvars (i_ctx st') = cvars (i_ctx st1) /\ calt (i_ctx st') = calt (i_ctx st))
  | _ => True
  end.
Proof. exact vars_unchanged_by_io_and_errors. Qed.

Theorem C14_hiding_map_empty_in_every_reachable_state :
  forall (G : gen) (DE : Type) (D : driver DE) (w_default : bool) (tc : testcase) (st : istate),
  reachable G DE D w_default tc st -> calt (i_ctx st) = fm_new.
Proof. exact calt_empty_in_every_reachable_state_any_fuel. Qed.

(* a declared signal that fails on the answer makes that row an error item, with the variables intact and the answer already in place for later reads *)
Theorem C14_failing_declared_signal_is_an_error_item :
  forall (G : gen) (DE : Type) (D : driver DE) (w_default : bool) (tc : testcase) 
  (oi : list out_index) (fuel : nat) (st : istate) (er : evaluated_row) (st1 : istate)
  (outs : list out_entry) (k : nat) (e : expr) (xe : xerr) (c1 : ctx) (vals1 : list outval),
  decl_inv tc oi st ->
  get_row G tc fuel st = GRRow er st1 ->
  er_update_output er = true ->
  D (i_log st) (RW, er_inputs er) = DrvOk outs ->
  length outs = i_nout st ->
  nth_error oi k = Some (OIVirtual e) ->
  extract_loop G tc (combine (firstn k (tc_expected_indices tc)) (firstn k oi)) outs
  (ctx_swap_vars (ctx_set_outputs (i_ctx st1) (outs_map outs))) = (c1, Ok vals1) ->
  fst (eval G (ctx_new (outs_map outs)) e (crng c1)) = Err xe ->
  exists st' : istate,
  inext G DE D w_default tc fuel st = ItErr DE (IE_Runtime (RT_Expr xe)) st' /\
  cvars (i_ctx st') = cvars (i_ctx st1) /\
  calt (i_ctx st') = fm_new /\
  couts (i_ctx st') = outs_map outs /\ i_log st' = i_log st ++ [(RW, er_inputs er)].
Proof. exact declared_failure_is_error_item. Qed.

Theorem C14_declared_ZX_is_an_error_item :
  forall (G : gen) (DE : Type) (D : driver DE) (w_default : bool) (tc : testcase) 
  (oi : list out_index) (fuel : nat) (st : istate) (er : evaluated_row) (st1 : istate)
  (outs : list out_entry) (k : nat) (x : name) (v : outval) (c1 : ctx) (vals1 : list outval),
  decl_inv tc oi st ->
  get_row G tc fuel st = GRRow er st1 ->
  er_update_output er = true ->
  D (i_log st) (RW, er_inputs er) = DrvOk outs ->
  length outs = i_nout st ->
  nth_error oi k = Some (OIVirtual (EVar x)) ->
  extract_loop G tc (combine (firstn k (tc_expected_indices tc)) (firstn k oi)) outs
  (ctx_swap_vars (ctx_set_outputs (i_ctx st1) (outs_map outs))) = (c1, Ok vals1) ->
  ctx_get (ctx_new (outs_map outs)) x = Some v ->
  v = OZ \/ v = OX ->
  exists st' : istate,
  inext G DE D w_default tc fuel st =
  ItErr DE (IE_Runtime (RT_Expr (XE_UnexpectedValueForSignal x v))) st' /\
  cvars (i_ctx st') = cvars (i_ctx st1) /\
  calt (i_ctx st') = fm_new /\
  couts (i_ctx st') = outs_map outs /\ i_log st' = i_log st ++ [(RW, er_inputs er)].
Proof. exact declared_ZX_is_error_item. Qed.



Check C14_virtual_value.
Print Assumptions C14_virtual_value.
Print Assumptions C14_blind_to_variables.
Print Assumptions C14_ZX_is_error.
Print Assumptions C14_declared_values_of_every_row.
Print Assumptions C14_variables_untouched_in_every_outcome.
Print Assumptions C14_failing_declared_signal_is_an_error_item.
