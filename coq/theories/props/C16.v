(* C16 - Loading a .dig document is total and faithful.
   Model: Xml.v (the tree roxmltree hands to src/dig.rs and the navigation primitives used),
   Dig.v (dig::File::parse from the tree on, File::load_test, File::load_test_by_name);
   specification: DigSpec.v (circuit descriptions, the tree Digital writes for one, the file it
   must load to).  The step XML text -> tree (roxmltree) is not modelled; it is covered by the
   correspondence check (tools/gen_dig.py writes one tree both as XML text and as model input).
   Property theorems only; proofs in proofs/DigProof.v. *)
From DTR Require Import Prelude Ast Lexer Parser Bind Xml Dig DigSpec.
From DTR.proofs Require Import DigProof.
From Coq Require Import String.
Local Open Scope nat_scope.

(* total: for every tree, a file or an error - no panic site is reached, no fuel runs out *)
Theorem C16_total : forall doc s, dig_parse doc <> Panic s.
Proof. exact DigProof.C16_total. Qed.

Theorem C16_never_oof : forall doc, dig_parse doc <> OOF.
Proof. exact DigProof.C16_never_oof. Qed.

(* faithful: the tree of a circuit description (labelled In / Clock / Out pins with optional width and
   default, test cases) loads to exactly the file the description promises: inputs in document order,
   then outputs, width 1 if unspecified, default 0 if unspecified, bidirectional by the <name>_out rule,
   tests verbatim in document order *)
Theorem C16_faithful : forall d, wf_descr d -> dig_parse (tree_of d) = file_of d.
Proof. exact DigProof.C16_faithful. Qed.

(* for every tree: the loaded signals are the pins of the tree, in order, same name and width, direction
   changed from input to bidirectional at most; the tests are the Testcase elements of the tree *)
Theorem C16_signals_kept : forall doc f, dig_parse doc = Ok f ->
  Forall2 same_pin (raw_signals doc) (df_signals f) /\ df_tests f = test_cases doc.
Proof. exact DigProof.C16_signals_kept. Qed.

(* a signal becomes bidirectional only when a test header uses <name>_out where <name> is an input and
   no pin is itself labelled <name>_out - and then it does *)
Theorem C16_bidirectional_iff : forall doc f, dig_parse doc = Ok f ->
  forall x,
    (exists s, In s (df_signals f) /\ sname s = x /\ is_bidir s = true) <->
    (exists s0, In s0 (raw_signals doc) /\ sname s0 = x /\ is_input s0 = true) /\
    (exists t h, In t (df_tests f) /\ parse_header (snd t) = Ok h /\ In (x ++ out_suffix) (h_names h)) /\
    ~ (exists s1, In s1 (raw_signals doc) /\ sname s1 = x ++ out_suffix).
Proof. exact DigProof.C16_bidirectional_iff. Qed.

(* the two errors *)
Theorem C16_empty_test : forall doc,
  dig_parse doc = Err DE_EmptyTest <->
  exists t, In t (test_cases doc) /\ forall h, parse_header (snd t) <> Ok h.
Proof. exact DigProof.C16_empty_test. Qed.

Theorem C16_missing_signals : forall doc m, dig_parse doc = Err (DE_MissingSignals m) ->
  exists used, header_names (test_cases doc) = Some used /\ m <> [] /\ NoDup m /\
    forall n, In n m <-> In n used /\ known (raw_signals doc) n = false.
Proof. exact DigProof.C16_missing_signals. Qed.

(* load_test i = parse source i, bind it to the file's signals; an out-of-range index is an error *)
Theorem C16_load_test : forall f n,
  load_test f n =
  if n <? List.length (df_tests f) then
    rbind (rmap_err LE_ParseError (parse (snd (nth n (df_tests f) ([], [])))))
      (fun p => rmap_err LE_SignalError (with_signals p (df_signals f)))
  else Err (LE_IndexOutOfBounds n (List.length (df_tests f))).
Proof. exact DigProof.C16_load_test. Qed.

Theorem C16_load_test_out_of_range : forall f n, List.length (df_tests f) <= n ->
  load_test f n = Err (LE_IndexOutOfBounds n (List.length (df_tests f))).
Proof. exact DigProof.C16_load_test_out_of_range. Qed.

(* load_test_by_name = the FIRST test carrying that label; an unknown name is an error *)
Theorem C16_by_name_spec : forall f nm,
  (forall n t, nth_error (df_tests f) n = Some t -> fst t = nm ->
     (forall m t', m < n -> nth_error (df_tests f) m = Some t' -> fst t' <> nm) ->
     load_test_by_name f nm = load_test f n) /\
  ((forall t, In t (df_tests f) -> fst t <> nm) ->
     load_test_by_name f nm = Err (LE_TestNotFound nm)).
Proof. exact DigProof.C16_by_name_spec. Qed.

Print Assumptions C16_total.
Print Assumptions C16_faithful.
Print Assumptions C16_bidirectional_iff.
Print Assumptions C16_by_name_spec.
