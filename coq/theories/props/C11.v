(* C11 - Binding a test to a signal list succeeds exactly when the two fit together.
   SPEC: WfSpec.fits (the property's sentence as a boolean).  MODEL: Bind.with_signals.
   Property theorems only; proofs in proofs/BindProof.v. *)
From DTR Require Import Prelude I64 Ast FramedMap Parser Bind Eval Stmt Iter WfSpec.
From DTR.proofs Require Import BindProof BindErrorSpec.
Local Open Scope nat_scope.

(* for EVERY parsed test and EVERY signal list (any names, directions, order, duplicates,
   omissions, extras); the header of a parsed test never repeats a name (wf_parsed, C09/C12) *)
Theorem C11_bind_iff_fits : forall p sigs0, NoDup (p_signals p) ->
  ((exists tc, with_signals p sigs0 = Ok tc) <-> fits p sigs0 = true).
Proof. exact BindProof.C11_bind_iff_fits. Qed.

(* without any hypothesis: the code itself also insists on a duplicate-free header *)
Theorem C11_bind_iff_fits_exact : forall p sigs0,
  (exists tc, with_signals p sigs0 = Ok tc) <-> fits p sigs0 = true /\ NoDup (p_signals p).
Proof. exact BindProof.C11_bind_iff_fits_exact. Qed.

Theorem C11_otherwise_an_error : forall p sigs0, NoDup (p_signals p) ->
  ((exists e, with_signals p sigs0 = Err e) <-> fits p sigs0 = false).
Proof. exact BindProof.C11_bind_error_iff. Qed.

Theorem C11_bind_never_panics : forall p sigs0 s, with_signals p sigs0 <> Panic s.
Proof. exact BindProof.C11_bind_never_panics. Qed.
Theorem C11_bind_terminates : forall p sigs0, with_signals p sigs0 <> OOF.
Proof. exact BindProof.C11_bind_never_oof. Qed.

(* a test accepted this way can always be iterated: binding establishes everything the running
   code relies on (wf_tc is the hypothesis of C10's no-panic theorem) *)
Theorem C11_bound_is_wf : forall p sigs0 tc,
  wf_parsed p -> wf_signals sigs0 -> with_signals p sigs0 = Ok tc -> wf_tc tc (length (p_signals p)).
Proof. exact BindProof.C11_bound_is_wf. Qed.

Theorem C11_signals_distinct : forall p sigs0 tc,
  NoDup (map (fun v => fst (fst v)) (p_virtuals p)) ->
  with_signals p sigs0 = Ok tc -> NoDup (map sname (tc_signals tc)).
Proof. exact BindProof.C11_signals_distinct. Qed.

Theorem C11_read_outputs_are_outputs : forall p sigs0 tc, with_signals p sigs0 = Ok tc ->
  Forall (fun i => exists s, nth_error (tc_signals tc) i = Some s /\ is_output s = true) (tc_read_outputs tc).
Proof. exact BindProof.C11_read_outputs_are_outputs. Qed.

Theorem C11_c_columns_are_inputs : forall p sigs0 tc j nm, NoDup (p_signals p) ->
  with_signals p sigs0 = Ok tc ->
  nth_error (p_signals p) j = Some nm -> In nm (map fst (p_expected_inputs p)) ->
  entry_is_input tc j = true.
Proof. exact BindProof.C11_c_columns_are_inputs. Qed.

(* WHICH error a refused binding gets: `refusal_exact` is a declarative specification (find / filter over the parsed test and the signal list, no call of the checking code) with this priority - a repeated device-signal name (the first later occurrence), a declared name that is also a device signal (first declaration in source order), the header columns that name no signal (all of them, in header order, <bidirectional>_out taken into account), a C column that is not input-capable, an identifier read that is not output-capable - and the code returns exactly that error, for every parsed test and every signal list *)
Theorem C11_which_error :
  forall (p : parsed) (sigs0 : list signal) (e : serr),
  with_signals p sigs0 = Err e <-> refusal_exact p sigs0 = Some e.
Proof. exact with_signals_refusal_exact. Qed.

(* so binding is completely characterised: either Ok, and then the two fit, or the specified error *)
Theorem C11_total_characterisation :
  forall (p : parsed) (sigs0 : list signal),
  (exists tc : testcase,
  with_signals p sigs0 = Ok tc /\
  refusal_exact p sigs0 = None /\ fits p sigs0 = true /\ NoDup (p_signals p)) \/
  (exists e : serr, with_signals p sigs0 = Err e /\ refusal_exact p sigs0 = Some e).
Proof. exact with_signals_total. Qed.

(* (the simpler form `refusal` for duplicate-free headers, which the parser guarantees) *)
Theorem C11_which_error_simple_form :
  forall (p : parsed) (sigs0 : list signal) (e : serr),
  NoDup (p_signals p) -> with_signals p sigs0 = Err e <-> refusal p sigs0 = Some e.
Proof. exact with_signals_refusal. Qed.

(* a repeated device-signal name is reported whatever else is wrong *)
Theorem C11_duplicate_signal_wins :
  forall (p : parsed) (sigs0 : list signal),
  ~ NoDup (map sname sigs0) ->
  exists (n : name) (l1 l2 : list name),
  map sname sigs0 = l1 ++ n :: l2 /\
  NoDup l1 /\
  In n l1 /\
  refusal p sigs0 = Some (SE_DuplicateSignal n) /\ with_signals p sigs0 = Err (SE_DuplicateSignal n).
Proof. exact refusal_duplicate_first. Qed.

(* when names are distinct, the unknown-signals error carries exactly the columns that fit no signal, in header order *)
Theorem C11_unknown_columns_are_all_reported :
  forall (p : parsed) (sigs0 : list signal),
  NoDup (p_signals p) ->
  NoDup (map sname sigs0) ->
  forallb (fun v : name * expr * span => negb (clashes sigs0 v)) (p_virtuals p) = true ->
  forallb (column_fits p sigs0) (p_signals p) = false ->
  let missing := filter (fun c : name => negb (column_fits p sigs0 c)) (p_signals p) in
  refusal p sigs0 = Some (SE_UnknownSignals missing (map (column_span p) missing)) /\
  with_signals p sigs0 = Err (SE_UnknownSignals missing (map (column_span p) missing)).
Proof. exact refusal_unknown_columns_exact. Qed.

(* the error does not depend on the ORDER of the signal list when no name is repeated ... *)
Theorem C11_error_independent_of_signal_order :
  forall (p : parsed) (sigs0 sigs0' : list signal) (e : serr),
  Permutation.Permutation sigs0 sigs0' ->
  NoDup (map sname sigs0) -> with_signals p sigs0 = Err e <-> with_signals p sigs0' = Err e.
Proof. exact with_signals_error_order_invariant. Qed.

(* ... and with a repeated name only the reported name can change *)
Theorem C11_error_order_with_duplicates :
  forall (p : parsed) (sigs0 sigs0' : list signal),
  Permutation.Permutation sigs0 sigs0' ->
  refusal_exact p sigs0 = refusal_exact p sigs0' \/
  (exists n n' : name,
  with_signals p sigs0 = Err (SE_DuplicateSignal n) /\
  with_signals p sigs0' = Err (SE_DuplicateSignal n')).
Proof. exact refusal_order_of_signals_any. Qed.


Check C11_bind_iff_fits.
Print Assumptions C11_bind_iff_fits.
Print Assumptions C11_bound_is_wf.
Print Assumptions C11_which_error.
Print Assumptions C11_total_characterisation.
Print Assumptions C11_error_independent_of_signal_order.
