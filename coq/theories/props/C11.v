(* C11 - Binding a test to a signal list succeeds exactly when the two fit together.
   SPEC: WfSpec.fits (the property's sentence as a boolean).  MODEL: Bind.with_signals.
   Property theorems only; proofs in proofs/BindProof.v. *)
From DTR Require Import Prelude I64 Ast FramedMap Parser Bind Eval Stmt Iter WfSpec.
From DTR.proofs Require Import BindProof.
Local Open Scope nat_scope.

(* for EVERY parsed test and EVERY signal list (any names, directions, order, duplicates,
   omissions, extras); the header of a parsed test never repeats a name (wf_parsed, C09/C12) *)
Theorem C11_bind_iff_fits : forall p sigs0, NoDup (p_signals p) ->
  ((exists tc, with_signals p sigs0 = Ok tc) <-> fits p sigs0 = true).
Proof. exact BindProof.C11_bind_iff_fits. Qed.

(* without any hypothesis: the code itself also insists on a duplicate-free header *)
Theorem C11_bind_iff_fits_exact : forall p sigs0,
  (exists tc, with_signals p sigs0 = Ok tc) <-> fits p sigs0 = true /\ NoDup (p_signals p).
Proof. exact BindProof.C11_bind_iff_fits_exact. Qed.

Theorem C11_otherwise_an_error : forall p sigs0, NoDup (p_signals p) ->
  ((exists e, with_signals p sigs0 = Err e) <-> fits p sigs0 = false).
Proof. exact BindProof.C11_bind_error_iff. Qed.

Theorem C11_bind_never_panics : forall p sigs0 s, with_signals p sigs0 <> Panic s.
Proof. exact BindProof.C11_bind_never_panics. Qed.
Theorem C11_bind_terminates : forall p sigs0, with_signals p sigs0 <> OOF.
Proof. exact BindProof.C11_bind_never_oof. Qed.

(* a test accepted this way can always be iterated: binding establishes everything the running
   code relies on (wf_tc is the hypothesis of C10's no-panic theorem) *)
Theorem C11_bound_is_wf : forall p sigs0 tc,
  wf_parsed p -> wf_signals sigs0 -> with_signals p sigs0 = Ok tc -> wf_tc tc (length (p_signals p)).
Proof. exact BindProof.C11_bound_is_wf. Qed.

Theorem C11_signals_distinct : forall p sigs0 tc,
  NoDup (map (fun v => fst (fst v)) (p_virtuals p)) ->
  with_signals p sigs0 = Ok tc -> NoDup (map sname (tc_signals tc)).
Proof. exact BindProof.C11_signals_distinct. Qed.

Theorem C11_read_outputs_are_outputs : forall p sigs0 tc, with_signals p sigs0 = Ok tc ->
  Forall (fun i => exists s, nth_error (tc_signals tc) i = Some s /\ is_output s = true) (tc_read_outputs tc).
Proof. exact BindProof.C11_read_outputs_are_outputs. Qed.

Theorem C11_c_columns_are_inputs : forall p sigs0 tc j nm, NoDup (p_signals p) ->
  with_signals p sigs0 = Ok tc ->
  nth_error (p_signals p) j = Some nm -> In nm (map fst (p_expected_inputs p)) ->
  entry_is_input tc j = true.
Proof. exact BindProof.C11_c_columns_are_inputs. Qed.

Check C11_bind_iff_fits.
Print Assumptions C11_bind_iff_fits.
Print Assumptions C11_bound_is_wf.
