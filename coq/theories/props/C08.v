(* C08 - Expressions: C-like precedence, 64-bit two's-complement arithmetic, lazy ite, literal radix.
   Property theorems only; proofs in proofs/BinOpTreeProof.v, EvalProof.v, RadixProof.v. *)
From DTR Require Import Prelude I64 Ast FramedMap Lexer Parser Grammar Eval.
From DTR Require Import GeneratedTables.
From DTR.proofs Require Import I64Facts BinOpTreeProof EvalProof RadixProof TablesProof LexerProof ParserProof GrammarProof ExprRoundTrip EvalOrderProof.
Local Open Scope Z_scope.

(* ---- precedence and associativity: the tree the parser builds by folding BinOpTree::add over
   the flat sequence  a0 op1 a1 op2 a2 ...  keeps the sequence and is precedence-correct ... *)
Theorem C08_tree_is_precedence_correct : forall a0 l,
  let t := fold_left (fun t p => bt_add t (fst p) (snd p)) l (BAtom a0) in
  bt_first t = a0 /\ bt_rest t = l /\ prec_ok t.
Proof. exact fold_add_ok. Qed.

(* ... and it is the ONLY such tree: the left-associative, precedence-respecting parse *)
Theorem C08_tree_unique : forall t1 t2, prec_ok t1 -> prec_ok t2 ->
  bt_first t1 = bt_first t2 -> bt_rest t1 = bt_rest t2 -> t1 = t2.
Proof. exact prec_ok_unique. Qed.

(* the precedence table orders the operators exactly as the specification lists them, tightest
   first:  * / %  ;  + -  ;  << >>  ;  &  ;  ^  ;  |  ;  < > <= >=  ;  = !=  *)
Theorem C08_precedence_levels : forall a b i j, level_of a = Some i -> level_of b = Some j ->
  ((precedence a <? precedence b)%N = (i <? j)%nat) /\ ((precedence a =? precedence b)%N = (i =? j)%nat).
Proof. exact precedence_is_levels. Qed.
Theorem C08_every_operator_has_a_level : forall a, level_of a <> None.
Proof. exact level_of_total. Qed.

(* operators of one level associate to the left *)
Theorem C08_left_associative : forall a0 l,
  (forall p q, In p l -> In q l -> precedence (fst p) = precedence (fst q)) ->
  bt_expr (fold_left (fun t p => bt_add t (fst p) (snd p)) l (BAtom a0))
  = fold_left (fun e p => EBin (fst p) e (snd p)) l a0.
Proof. exact same_level_left_assoc. Qed.

(* ---- unparse / parse round trip *)
(* ROUND TRIP: any token sequence that PRINTS the tree e - minimal or redundant parentheses, any radix spelling of its literals (relation Prints) - followed by a token that cannot continue an expression, parses back to exactly e, consuming exactly those tokens *)
Theorem C08_unparse_parse :
  forall (input_len : N) (e : expr) (ts : list tok) (ts_tokens rest : list token) 
  (st : pstate) (fuel : nat),
  Prints e ts ->
  view ts_tokens = ts ->
  toks st = ts_tokens ++ rest ->
  stop_expr rest ->
  (2 * length ts + 2 <= fuel)%nat ->
  exists st' : pstate,
  parse_expr input_len fuel st = Ok (e, st') /\
  toks st' = rest /\
  pline st' = pline st /\
  pvars st' = pvars st /\ pvirtuals st' = pvirtuals st /\ pexp_inputs st' = pexp_inputs st.
Proof. exact C08_unparse_parse. Qed.

(* in particular the precedence-aware minimal-parentheses printer pp_min *)
Theorem C08_pretty_printer_round_trip :
  forall (input_len : N) (e : expr) (ts_tokens rest : list token) (st : pstate) (fuel : nat),
  printable e ->
  view ts_tokens = pp_min e ->
  toks st = ts_tokens ++ rest ->
  stop_expr rest ->
  (2 * length (pp_min e) + 2 <= fuel)%nat ->
  exists st' : pstate,
  parse_expr input_len fuel st = Ok (e, st') /\
  toks st' = rest /\
  pline st' = pline st /\
  pvars st' = pvars st /\ pvirtuals st' = pvirtuals st /\ pexp_inputs st' = pexp_inputs st.
Proof. exact C08_pp_min_parse. Qed.

Theorem C08_pp_min_prints :
  forall e : expr, printable e -> Prints e (pp_min e).
Proof. exact pp_min_Prints. Qed.

(* (a second, tree-directed definition of "printed with enough parentheses" that does not mention BinOpTree::add) *)
Theorem C08_tree_directed_printing_prints :
  forall (p : N) (e : expr) (ts : list tok), Printed p e ts -> Prints e ts.
Proof. exact Printed_is_Prints. Qed.

(* a token sequence prints at most one tree *)
Theorem C08_prints_deterministic :
  forall (e1 e2 : expr) (ts : list tok), Prints e1 ts -> Prints e2 ts -> e1 = e2.
Proof. exact Prints_deterministic. Qed.


(* ---- 64-bit two's complement arithmetic *)
Theorem C08_results_are_64_bit : forall op l r v, i64 l -> i64 r -> binop_eval op l r = Ok v -> i64 v.
Proof. exact binop_eval_i64. Qed.
Theorem C08_unary_results_are_64_bit : forall op v, i64 v -> i64 (unop_eval op v).
Proof. exact unop_eval_i64. Qed.
(* wrap64 z is the i64 congruent to z modulo 2^64 *)
Theorem C08_wrap_meaning : forall z, i64 (wrap64 z) /\ (wrap64 z) mod 2 ^ 64 = z mod 2 ^ 64.
Proof. exact wrap_is_mod_2_64. Qed.
Theorem C08_add_wraps : forall l r, binop_eval Plus l r = Ok (wrap64 (l + r)).  Proof. exact add_wraps. Qed.
Theorem C08_sub_wraps : forall l r, binop_eval Minus l r = Ok (wrap64 (l - r)). Proof. exact sub_wraps. Qed.
Theorem C08_mul_wraps : forall l r, binop_eval Times l r = Ok (wrap64 (l * r)). Proof. exact mul_wraps. Qed.
Theorem C08_neg_wraps : forall v, unop_eval UMinus v = wrap64 (- v). Proof. exact neg_wraps. Qed.
(* shifts use the low six bits of the count; >> is arithmetic *)
Theorem C08_shl : forall l r, binop_eval ShiftLeft l r = Ok (wrap64 (l * 2 ^ (r mod 64))). Proof. exact shl_low_six_bits. Qed.
Theorem C08_shr : forall l r, binop_eval ShiftRight l r = Ok (l / 2 ^ (r mod 64)). Proof. exact shr_arithmetic. Qed.
(* / and % truncate toward zero (Z.quot / Z.rem); by zero they are errors, never panics *)
Theorem C08_div : forall l r, r <> 0 -> binop_eval Divide l r = Ok (wrap64 (Z.quot l r)). Proof. exact div_truncates. Qed.
Theorem C08_rem : forall l r, r <> 0 -> binop_eval Reminder l r = Ok (wrap64 (Z.rem l r)). Proof. exact rem_truncates. Qed.
Theorem C08_div_exact_except_min_by_minus_one : forall l r, i64 l -> i64 r -> r <> 0 -> ~ (l = - I64.two63 /\ r = -1) ->
  wrap64 (Z.quot l r) = Z.quot l r.
Proof. exact div_no_wrap_needed. Qed.
Theorem C08_rem_exact : forall l r, i64 l -> i64 r -> r <> 0 -> wrap64 (Z.rem l r) = Z.rem l r.
Proof. exact rem_no_wrap_needed. Qed.
Theorem C08_operators_total : forall op l r,
  (exists v, binop_eval op l r = Ok v) \/
  (binop_eval op l r = Err XE_DivisionByZero /\ r = 0 /\ (op = Divide \/ op = Reminder)).
Proof. exact binop_eval_total. Qed.
(* comparisons and ! yield 1 or 0 *)
Theorem C08_comparisons : forall l r,
  binop_eval Equal l r = Ok (b2z (l =? r)) /\ binop_eval NotEqual l r = Ok (b2z (negb (l =? r))) /\
  binop_eval LessThan l r = Ok (b2z (l <? r)) /\ binop_eval GreaterThan l r = Ok (b2z (l >? r)) /\
  binop_eval LessThanOrEqual l r = Ok (b2z (l <=? r)) /\ binop_eval GreaterThanOrEqual l r = Ok (b2z (l >=? r)).
Proof. exact comparison_meaning. Qed.
Theorem C08_lognot : forall v, unop_eval ULogicalNot v = (if v =? 0 then 1 else 0). Proof. exact lognot_yields_01. Qed.
Theorem C08_bitnot : forall v, unop_eval UBinaryNot v = - v - 1. Proof. exact bitnot_meaning. Qed.
(* whole expressions stay 64-bit *)
Theorem C08_eval_is_64_bit : forall G, (forall h r, i64 (G h r)) -> forall e c, ctx_i64 c -> lits_i64 e ->
  forall rng v, fst (eval G c e rng) = Ok v -> i64 v.
Proof. exact eval_i64. Qed.

(* ---- ite evaluates and returns only the selected branch: the other branch's value, errors
   and draws are irrelevant *)
Theorem C08_ite : forall G c t a b rng,
  eval G c (EFunc name_ite [t; a; b]) rng =
  match eval G c t rng with
  | (Ok tv, rng1) => if tv =? 0 then eval G c b rng1 else eval G c a rng1
  | other => other
  end.
Proof. exact eval_ite. Qed.
Theorem C08_ite_lazy_then : forall G c t a b b' rng tv rng1,
  eval G c t rng = (Ok tv, rng1) -> tv <> 0 ->
  eval G c (EFunc name_ite [t; a; b]) rng = eval G c a rng1 /\
  eval G c (EFunc name_ite [t; a; b]) rng = eval G c (EFunc name_ite [t; a; b']) rng.
Proof. exact ite_lazy_then. Qed.
Theorem C08_ite_lazy_else : forall G c t a a' b rng rng1,
  eval G c t rng = (Ok 0, rng1) ->
  eval G c (EFunc name_ite [t; a; b]) rng = eval G c b rng1 /\
  eval G c (EFunc name_ite [t; a; b]) rng = eval G c (EFunc name_ite [t; a'; b]) rng.
Proof. exact ite_lazy_else. Qed.

(* ---- evaluation ORDER: which sub-expressions are evaluated, in which order, how often (an eager, repeated, skipped or
   re-ordered evaluation contradicts one of these): a binary operator evaluates its left operand first ... *)
Theorem C08_left_operand_first : forall (G : gen) c op l r rng res rng1,
  eval G c l rng = (res, rng1) -> (forall v, res <> Ok v) ->
  eval G c (EBin op l r) rng = (res, rng1).
Proof. exact eval_bin_left_fails. Qed.

(* ... then - only if the left one has a value - the right operand, once, with the generator history the left one left
   behind, and only then applies the operator: there is no short circuit, not even for 0 & e or 0 * e *)
Theorem C08_then_the_right_operand_no_short_circuit : forall (G : gen) c op l r rng lv rng1 res rng2,
  eval G c l rng = (Ok lv, rng1) -> eval G c r rng1 = (res, rng2) ->
  eval G c (EBin op l r) rng =
  (match res with Ok rv => binop_eval op lv rv | other => other end, rng2).
Proof. exact eval_bin_left_then_right. Qed.

Theorem C08_unary_operand_once : forall (G : gen) c op a rng res rng1,
  eval G c a rng = (res, rng1) ->
  eval G c (EUn op a) rng = (match res with Ok v => Ok (unop_eval op v) | other => other end, rng1).
Proof. exact eval_un_once. Qed.

(* ---- integer literals: positional value in radix 10 / 16 (0x, 0X, either letter case) /
   2 (0b, 0B) / 8 (leading 0); a literal that does not fit in 63 bits is an error *)
Theorem C08_radix_value : forall radix casing ds, (2 <= radix <= 36)%N -> ds <> [] -> length casing = length ds ->
  Forall (fun d => d < radix)%N ds ->
  from_str_radix (spell casing ds) radix = if (value radix ds <? 2 ^ 63)%N then Some (Z.of_N (value radix ds)) else None.
Proof. exact radix_value. Qed.
Theorem C08_literal_hex : forall x casing ds stop sp, x = 120%N \/ x = 88%N ->
  ds <> [] -> length casing = length ds -> Forall (fun d => d < 16)%N ds ->
  starts_with is_hex_digit stop = false ->
  lex_one (48%N :: x :: spell casing ds ++ stop) = Some (Some THexInt, 48%N :: x :: spell casing ds, stop)
  /\ literal_value {| tkind := THexInt; tspan := sp; ttext := 48%N :: x :: spell casing ds |}
     = (if (value 16 ds <? 2 ^ 63)%N then Some (Z.of_N (value 16 ds)) else None).
Proof. exact lex_hex. Qed.
Theorem C08_literal_bin : forall x casing ds stop sp, x = 98%N \/ x = 66%N ->
  ds <> [] -> length casing = length ds -> Forall (fun d => d < 2)%N ds ->
  starts_with is_bin_digit stop = false ->
  lex_one (48%N :: x :: spell casing ds ++ stop) = Some (Some TBinInt, 48%N :: x :: spell casing ds, stop)
  /\ literal_value {| tkind := TBinInt; tspan := sp; ttext := 48%N :: x :: spell casing ds |}
     = (if (value 2 ds <? 2 ^ 63)%N then Some (Z.of_N (value 2 ds)) else None).
Proof. exact lex_bin. Qed.
Theorem C08_literal_octal : forall casing ds stop sp,
  length casing = length ds -> Forall (fun d => d < 8)%N ds ->
  starts_with is_oct_digit stop = false -> (ds = [] -> radix_prefix_follows stop = false) ->
  lex_one (48%N :: spell casing ds ++ stop) = Some (Some TOctInt, 48%N :: spell casing ds, stop)
  /\ literal_value {| tkind := TOctInt; tspan := sp; ttext := 48%N :: spell casing ds |}
     = (if (value 8 ds <? 2 ^ 63)%N then Some (Z.of_N (value 8 ds)) else None).
Proof. exact lex_octal. Qed.
Theorem C08_literal_decimal : forall casing ds stop sp,
  ds <> [] -> length casing = length ds -> Forall (fun d => d < 10)%N ds -> hd 0%N ds <> 0%N ->
  starts_with is_dec_digit stop = false ->
  lex_one (spell casing ds ++ stop) = Some (Some TDecInt, spell casing ds, stop)
  /\ literal_value {| tkind := TDecInt; tspan := sp; ttext := spell casing ds |}
     = (if (value 10 ds <? 2 ^ 63)%N then Some (Z.of_N (value 10 ds)) else None).
Proof. exact lex_decimal. Qed.
(* parse_number converts a number token by exactly literal_value *)
Theorem C08_parse_number : forall input_len st t r,
  toks st = t :: r -> is_number_kind (tkind t) = true ->
  parse_number input_len st = match literal_value t with
    | Some n => Ok (n, set_toks st r (pline st))
    | None => Err {| pe_kind := PE_NumberParseError; pe_at := [tspan t] |} end.
Proof. exact parse_number_literal_value. Qed.

(* ---- T1: the tables the theorems above talk about are the tables of the SOURCE: GeneratedTables.v is
   regenerated from src/parser/binoptree.rs, src/parser/expr.rs, src/expr.rs on every run *)
Theorem C08_precedence_table_is_the_source : forall op, precedence op = gen_precedence op.
Proof. exact precedence_pinned. Qed.
Theorem C08_binary_operator_tokens_are_the_source : forall k,
  is_binary_op k = gen_is_binary_op k /\ binop_of_token k = gen_binop_of_token k /\ unop_of_token k = gen_unop_of_token k.
Proof. intros k. split; [apply is_binary_op_pinned | split; [apply binop_of_token_pinned | apply unop_of_token_pinned]]. Qed.
Theorem C08_function_table_is_the_source : func_table = gen_func_table.
Proof. exact func_table_pinned. Qed.
(* every arm of BinOp::eval and UnaryOp::eval, translated from src/expr.rs on every run *)
Theorem C08_operator_arms_are_the_source : forall op l r,
  binop_eval op l r =
  if (r =? 0)%Z && existsb (binop_beq op) gen_div_guard then Err XE_DivisionByZero
  else Ok (gen_binop_value op l r).
Proof. exact binop_eval_pinned. Qed.
Theorem C08_unary_arms_are_the_source : forall op v, unop_eval op v = gen_unop_value op v.
Proof. exact unop_eval_pinned. Qed.

Check C08_tree_unique.
Print Assumptions C08_tree_is_precedence_correct.
Print Assumptions C08_tree_unique.
Print Assumptions C08_unparse_parse.
Print Assumptions C08_pretty_printer_round_trip.
Print Assumptions C08_eval_is_64_bit.
Print Assumptions C08_literal_hex.
Print Assumptions C08_left_operand_first.
Print Assumptions C08_then_the_right_operand_no_short_circuit.
