(* C04 - Expressions that read outputs see the most recently read device values.
   Property theorems only; proofs in proofs/IterLogProof.v (and OutputsProof.v for the
   missing-read constructor failure, see props/C13.v). *)
From DTR Require Import Prelude I64 Ast FramedMap Lexer Parser Bind Eval Stmt Iter Script WfSpec.
From DTR.proofs Require Import IterLogProof OutputsProof RunRefineE IterLogProofE OutputsRunProof.
Local Open Scope nat_scope.

(* the outputs map of a fresh iterator is the answer to the constructor's call *)
Theorem C04_initial_outputs : forall (DE : Type) (D : driver DE) (tc : testcase),
  match try_new DE D tc with
  | NewOk _ st =>
      exists ins outs, generate_default_input_entries tc = Ok ins /\
        i_log st = [(RW, ins)] /\ D [] (RW, ins) = DrvOk outs /\
        couts (i_ctx st) = outs_map outs /\ i_cache st = [] /\ i_prev st = None
  | NewErr _ (IE_Driver e) log =>
      exists ins, generate_default_input_entries tc = Ok ins /\ log = [(RW, ins)] /\ D [] (RW, ins) = DrvErr e
  | NewErr _ (IE_Runtime _) log =>
      log = [] \/ (exists ins outs, log = [(RW, ins)] /\ D [] (RW, ins) = DrvOk outs)
  | NewPanic _ _ => True
  end.
Proof. exact try_new_calls. Qed.

(* a checked row replaces it by the answer to that row's call; a mid-clock write leaves it alone;
   the statement iterator and row preparation never touch it *)
Theorem C04_outputs_after_next : forall (G : gen) (DE : Type) (D : driver DE) (w_default : bool) (tc : testcase)
  (fuel : nat) (st : istate),
  match inext G DE D w_default tc fuel st with
  | ItNone _ st' => couts (i_ctx st') = couts (i_ctx st)
  | ItRow _ _ st' =>
      exists er st1, get_row G tc fuel st = GRRow er st1 /\
        (er_update_output er = true ->
         exists outs, D (i_log st) (RW, er_inputs er) = DrvOk outs /\ couts (i_ctx st') = outs_map outs) /\
        (er_update_output er = false -> couts (i_ctx st') = couts (i_ctx st))
  | _ => True
  end.
Proof. exact inext_outputs. Qed.

Theorem C04_evaluation_does_not_refresh : forall (G : gen) (tc : testcase) (fuel : nat) (st : istate),
  match get_row G tc fuel st with
  | GRNone st1 | GRRow _ st1 | GRErr _ st1 =>
      couts (i_ctx st1) = couts (i_ctx st) /\ calt (i_ctx st1) = calt (i_ctx st) /\
      i_log st1 = i_log st /\ i_outidx st1 = i_outidx st /\ i_nout st1 = i_nout st
  | _ => True
  end.
Proof. exact get_row_preserves. Qed.

(* a variable of the same name in scope takes precedence *)
Theorem C04_variable_shadows_output : forall c x n, fm_get (cvars c) x = Some n -> ctx_get c x = Some (OVal n).
Proof. exact variable_shadows_output. Qed.

Theorem C04_output_read_when_no_variable : forall c x, fm_get (cvars c) x = None ->
  ctx_get c x = option_map snd (find_last (fun kv => name_eqb (fst kv) x) (couts c)).
Proof. exact output_read_when_no_variable. Qed.

(* reading Z or X is an evaluation error (which next() turns into an error item, C02/C10) *)
Theorem C04_read_ZX_is_error : forall G c x v rng, ctx_get c x = Some v -> (v = OZ \/ v = OX) ->
  eval G c (EVar x) rng = (Err (XE_UnexpectedValueForSignal x v), rng).
Proof. exact read_ZX_is_error. Qed.

(* what a call of next() does to the output values expressions read, in EVERY outcome: a checked row's answer replaces them; so does an answer that is then REFUSED (wrong number or order of outputs, a declared signal that fails on it) - it was returned by the latest output-reading call; a write-only row, a failed call, an evaluation error before any call and None leave them alone *)
Theorem C04_every_outcome_of_next :
  forall (G : gen) (DE : Type) (D : driver DE) (w_default : bool) (tc : testcase) 
  (fuel : nat) (st : istate),
  match inext G DE D w_default tc fuel st with
  | ItNone _ st' =>
  get_row G tc fuel st = GRNone st' /\ i_log st' = i_log st /\ couts (i_ctx st') = couts (i_ctx st)
  | ItRow _ _ st' =>
  exists (er : evaluated_row) (st1 : istate),
  get_row G tc fuel st = GRRow er st1 /\
  (er_update_output er = true /\
  (exists outs : list out_entry,
  D (i_log st) (RW, er_inputs er) = DrvOk outs /\
  i_log st' = i_log st ++ [(RW, er_inputs er)] /\ couts (i_ctx st') = outs_map outs) \/
  er_update_output er = false /\
  (exists outs : list out_entry,
  D (i_log st) (wkind w_default, er_inputs er) = DrvOk outs /\
  i_log st' = i_log st ++ [(wkind w_default, er_inputs er)] /\
  couts (i_ctx st') = couts (i_ctx st)))
  | ItErr _ (IE_Driver e) st' =>
  exists (er : evaluated_row) (st1 : istate),
  get_row G tc fuel st = GRRow er st1 /\
  (let kind := if er_update_output er then RW else wkind w_default in
  D (i_log st) (kind, er_inputs er) = DrvErr e /\
  i_log st' = i_log st ++ [(kind, er_inputs er)] /\ couts (i_ctx st') = couts (i_ctx st))
  | ItErr _ (IE_Runtime r) st' =>
  (exists x : xerr,
  r = RT_Expr x /\
  get_row G tc fuel st = GRErr x st' /\
  i_log st' = i_log st /\ couts (i_ctx st') = couts (i_ctx st)) \/
  (exists (er : evaluated_row) (st1 : istate) (outs : list out_entry),
  get_row G tc fuel st = GRRow er st1 /\
  er_update_output er = true /\
  D (i_log st) (RW, er_inputs er) = DrvOk outs /\
  refusal (i_nout st) outs r /\
  i_log st' = i_log st ++ [(RW, er_inputs er)] /\ couts (i_ctx st') = outs_map outs)
  | _ => True
  end.
Proof. exact inext_outputs_all. Qed.

(* RUN LEVEL, through error items: in every state reachable from the constructor by any calls of next(), the output values are the answer to the LAST call of kind RW in the driver's call log that the driver answered (accepted or not) - for a driver with its own write_input, where the log tells reading calls from write-only ones *)
Theorem C04_outputs_are_the_last_read :
  forall (G : gen) (DE : Type) (D : driver DE) (w_default : bool) (tc : testcase),
  w_default = false ->
  forall st : istate,
  reachable G DE D w_default tc st ->
  exists outs : list out_entry,
  last_read DE D (i_log st) = Some outs /\ couts (i_ctx st) = outs_map outs.
Proof. exact outputs_are_the_last_read. Qed.

(* ... and for every driver (also one that relies on the default write_input, whose write-only calls look like reading calls in its log) with the calls that read outputs marked *)
Theorem C04_outputs_are_the_last_read_any_driver :
  forall (G : gen) (DE : Type) (D : driver DE) (w_default : bool) (tc : testcase) 
  (st : istate) (fl : list bool),
  reach_f G DE D w_default tc st fl ->
  length fl = length (i_log st) /\
  (exists outs : list out_entry,
  last_read_sel DE D (flag_sel fl) (i_log st) = Some outs /\ couts (i_ctx st) = outs_map outs).
Proof. exact outputs_are_the_last_read_flagged. Qed.

(* in the words of the property: an identifier that is no variable in scope evaluates to the value for that name in that answer - a number, or an error for Z / X, or "unknown" when the answer has no such entry *)
Theorem C04_read_sees_last_read :
  forall (G : gen) (DE : Type) (D : driver DE) (w_default : bool) (tc : testcase),
  w_default = false ->
  forall st : istate,
  reachable G DE D w_default tc st ->
  exists outs : list out_entry,
  last_read DE D (i_log st) = Some outs /\
  (forall (c : ctx) (x : name) (rng : rng_state),
  couts c = couts (i_ctx st) ->
  fm_get (cvars c) x = None ->
  eval G c (EVar x) rng =
  (match assoc_last x (outs_map outs) with
  | Some (OVal n) => Ok n
  | Some (OZ as v) | Some (OX as v) => Err (XE_UnexpectedValueForSignal x v)
  | None => Err (XE_UnknownVariable x)
  end, rng)).
Proof. exact eval_output_sees_last_read. Qed.

(* mid-clock writes do not refresh it *)
Theorem C04_write_only_calls_do_not_refresh :
  forall (G : gen) (DE : Type) (D : driver DE) (w_default : bool) (tc : testcase) 
  (fuel : nat) (st st' : istate) (ins : list in_entry),
  next_state DE (inext G DE D w_default tc fuel st) = Some st' ->
  i_log st' = i_log st ++ [(WO, ins)] ->
  couts (i_ctx st') = couts (i_ctx st) /\ last_read DE D (i_log st') = last_read DE D (i_log st).
Proof. exact write_only_calls_do_not_refresh. Qed.

(* a call the driver fails does not refresh it *)
Theorem C04_failed_calls_do_not_refresh :
  forall (G : gen) (DE : Type) (D : driver DE) (w_default : bool) (tc : testcase) 
  (fuel : nat) (st : istate) (e : DE) (st' : istate),
  inext G DE D w_default tc fuel st = ItErr DE (IE_Driver e) st' ->
  couts (i_ctx st') = couts (i_ctx st) /\ last_read DE D (i_log st') = last_read DE D (i_log st).
Proof. exact failed_calls_do_not_refresh. Qed.

(* an answer the iterator refuses IS what later expressions read (closed examples in OutputsRunProof.Example_outputs_run) *)
Theorem C04_refused_answer_is_read :
  forall (G : gen) (DE : Type) (D : driver DE) (w_default : bool) (tc : testcase) 
  (fuel : nat) (st : istate) (r : rterr) (st' : istate),
  inext G DE D w_default tc fuel st = ItErr DE (IE_Runtime r) st' ->
  i_log st' <> i_log st ->
  exists (ins : list in_entry) (outs : list out_entry),
  i_log st' = i_log st ++ [(RW, ins)] /\
  D (i_log st) (RW, ins) = DrvOk outs /\
  refusal (i_nout st) outs r /\
  couts (i_ctx st') = outs_map outs /\
  last_read DE D (i_log st') = Some outs /\
  (forall x : name,
  fm_get (cvars (i_ctx st')) x = None -> ctx_get (i_ctx st') x = assoc_last x (outs_map outs)).
Proof. exact refused_answer_is_read. Qed.


Check C04_outputs_after_next.
Print Assumptions C04_outputs_after_next.
Print Assumptions C04_every_outcome_of_next.
Print Assumptions C04_outputs_are_the_last_read.
Print Assumptions C04_outputs_are_the_last_read_any_driver.
Print Assumptions C04_read_sees_last_read.
Print Assumptions C04_refused_answer_is_read.
