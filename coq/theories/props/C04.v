(* C04 - Expressions that read outputs see the most recently read device values.
   Property theorems only; proofs in proofs/IterLogProof.v (and OutputsProof.v for the
   missing-read constructor failure, see props/C13.v). *)
From DTR Require Import Prelude I64 Ast FramedMap Parser Bind Eval Stmt Iter.
From DTR.proofs Require Import IterLogProof.
Local Open Scope nat_scope.

(* the outputs map of a fresh iterator is the answer to the constructor's call *)
Theorem C04_initial_outputs : forall (DE : Type) (D : driver DE) (tc : testcase),
  match try_new DE D tc with
  | NewOk _ st =>
      exists ins outs, generate_default_input_entries tc = Ok ins /\
        i_log st = [(RW, ins)] /\ D [] (RW, ins) = DrvOk outs /\
        couts (i_ctx st) = outs_map outs /\ i_cache st = [] /\ i_prev st = None
  | NewErr _ (IE_Driver e) log =>
      exists ins, generate_default_input_entries tc = Ok ins /\ log = [(RW, ins)] /\ D [] (RW, ins) = DrvErr e
  | NewErr _ (IE_Runtime _) log =>
      log = [] \/ (exists ins outs, log = [(RW, ins)] /\ D [] (RW, ins) = DrvOk outs)
  | NewPanic _ _ => True
  end.
Proof. exact try_new_calls. Qed.

(* a checked row replaces it by the answer to that row's call; a mid-clock write leaves it alone;
   the statement iterator and row preparation never touch it *)
Theorem C04_outputs_after_next : forall (G : gen) (DE : Type) (D : driver DE) (w_default : bool) (tc : testcase)
  (fuel : nat) (st : istate),
  match inext G DE D w_default tc fuel st with
  | ItNone _ st' => couts (i_ctx st') = couts (i_ctx st)
  | ItRow _ _ st' =>
      exists er st1, get_row G tc fuel st = GRRow er st1 /\
        (er_update_output er = true ->
         exists outs, D (i_log st) (RW, er_inputs er) = DrvOk outs /\ couts (i_ctx st') = outs_map outs) /\
        (er_update_output er = false -> couts (i_ctx st') = couts (i_ctx st))
  | _ => True
  end.
Proof. exact inext_outputs. Qed.

Theorem C04_evaluation_does_not_refresh : forall (G : gen) (tc : testcase) (fuel : nat) (st : istate),
  match get_row G tc fuel st with
  | GRNone st1 | GRRow _ st1 | GRErr _ st1 =>
      couts (i_ctx st1) = couts (i_ctx st) /\ calt (i_ctx st1) = calt (i_ctx st) /\
      i_log st1 = i_log st /\ i_outidx st1 = i_outidx st /\ i_nout st1 = i_nout st
  | _ => True
  end.
Proof. exact get_row_preserves. Qed.

(* a variable of the same name in scope takes precedence *)
Theorem C04_variable_shadows_output : forall c x n, fm_get (cvars c) x = Some n -> ctx_get c x = Some (OVal n).
Proof. exact variable_shadows_output. Qed.

Theorem C04_output_read_when_no_variable : forall c x, fm_get (cvars c) x = None ->
  ctx_get c x = option_map snd (find_last (fun kv => name_eqb (fst kv) x) (couts c)).
Proof. exact output_read_when_no_variable. Qed.

(* reading Z or X is an evaluation error (which next() turns into an error item, C02/C10) *)
Theorem C04_read_ZX_is_error : forall G c x v rng, ctx_get c x = Some v -> (v = OZ \/ v = OX) ->
  eval G c (EVar x) rng = (Err (XE_UnexpectedValueForSignal x v), rng).
Proof. exact read_ZX_is_error. Qed.

Check C04_outputs_after_next.
Print Assumptions C04_outputs_after_next.
