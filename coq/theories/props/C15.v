(* C15 - Deterministic and re-runnable; static iteration equals any dynamic run.
   Property theorems only; proofs in proofs/DeterminismProof.v (model of try_iter_static: Static.v).
   "Several iterators interleaved": in the model every iterator is a value (istate) of its own and
   inext is a function of that value and of the driver's answers - there is nothing to share; that
   the CODE shares nothing is the ownership argument (&'a TestCase is only borrowed immutably) plus
   the syntactic audit tools/state_audit.py (no static mut / thread_local / Cell / RefCell / atomics
   outside the one RefCell<StdRng> inside each iterator's own EvalContext), and interleaved runs.
   KNOWN FINDING (recorded, not repaired; known_findings.json `while0-let`): an identifier that is
   assigned only inside a `while` body that runs zero times is classified as a variable by the
   parser, so the test counts as static, yet at run time the name falls through to the device
   output of the same name: the static iterator yields an UnknownVariable error item where a
   dynamic run yields a row.  DeterminismProof.c15_counterexample is that witness, evaluated in
   Coq; C15_static_equals_dynamic carries the hypothesis `no_unknown` that excludes exactly it. *)
From DTR Require Import Prelude I64 Ast FramedMap Lexer Parser Bind Eval Stmt Iter Script Static WfSpec.
From DTR.proofs Require Import LexerProof ParserProof ParserLinesProof ParserLayoutProof ParserBlankLineProof IterLogProof NoPanicProof DeterminismProof RunRefineE DeterminismProofE.
Local Open Scope nat_scope.

(* parsing is a function of the text: whatever orders the three HashMaps of the parser are iterated in (sh1 sh2 sh3: arbitrary permutations), the result is the same - signals, row entries, reads, virtual signals in the same order *)
Theorem C15_parse_hash_order_independent :
  forall sh1 sh2 sh3 : forall A : Type, list A -> list A,
  (forall (A : Type) (l : list A), Permutation.Permutation (sh1 A l) l) ->
  (forall (A : Type) (l : list A), Permutation.Permutation (sh2 A l) l) ->
  (forall (A : Type) (l : list A), Permutation.Permutation (sh3 A l) l) ->
  forall s : text, parse_with sh1 sh2 sh3 s = parse s.
Proof. exact C15_parse_hash_order_independent. Qed.

(* (what makes it so: a sort on distinct keys forgets the order it was given ... *)
Theorem C15_sort_canonical :
  forall (A : Type) (key : A -> N) (l1 l2 : list A),
  Permutation.Permutation l1 l2 -> NoDup (map key l1) -> sort_by_key key l1 = sort_by_key key l2.
Proof. exact sort_by_key_canonical. Qed.

(* ... and the recorded span starts are strictly increasing in insertion order) *)
Theorem C15_keys_sorted :
  forall (s : text) (h : header) (ts : list token) (stmts : list stmt) (st : pstate),
  parse_header s = Ok h ->
  lex_body (h_pos h) (h_rest h) = Some ts ->
  parse_block_loop (text_bytes s) (h_names h) (parser_fuel (length ts)) None [] (parse_st0 h ts) =
  Ok (stmts, st) ->
  Sorted.StronglySorted (fun a b : name * (N * N * expr) => (fst (fst (snd a)) < fst (fst (snd b)))%N)
  (pvirtuals st) /\
  Sorted.StronglySorted (fun a b : name * (N * N) => (fst (snd a) < fst (snd b))%N) (pexp_inputs st) /\
  Sorted.StronglySorted (fun a b : name * (N * N) => (fst (snd a) < fst (snd b))%N) (pexp_outputs st).
Proof. exact parse_keys_sorted. Qed.

(* one next(): the result depends on the driver only through its answer to the one call this next() makes *)
Theorem C15_next_depends_only_on_the_answer :
  forall (G : gen) (DE : Type) (D1 D2 : driver DE) (w_default : bool) (tc : testcase) 
  (fuel : nat) (st : istate),
  (forall c : call, next_call G w_default tc fuel st = Some c -> D1 (i_log st) c = D2 (i_log st) c) ->
  inext G DE D1 w_default tc fuel st = inext G DE D2 w_default tc fuel st.
Proof. exact C15_inext_driver_agreement. Qed.

(* n calls of next(): two drivers that answer alike along the run give identical items: iterating again, or with another driver object, gives identical rows for identical responses *)
Theorem C15_run_depends_only_on_answers :
  forall (G : gen) (DE : Type) (D1 D2 : driver DE) (w_default : bool) (tc : testcase) 
  (fuel n : nat) (st : istate),
  agree_along G DE D1 D2 w_default tc fuel n st ->
  collect G DE D1 w_default tc fuel n st = collect G DE D2 w_default tc fuel n st.
Proof. exact C15_driver_agreement. Qed.

Theorem C15_run_depends_only_on_logged_answers :
  forall (G : gen) (DE : Type) (D1 D2 : driver DE) (w_default : bool) (tc : testcase) 
  (fuel n : nat) (st : istate) (items : list (item_view DE)) (st' : istate),
  collect G DE D1 w_default tc fuel n st = (items, Some st') ->
  agree_on_log DE D1 D2 (length (i_log st)) (i_log st') ->
  collect G DE D2 w_default tc fuel n st = (items, Some st').
Proof. exact C15_driver_agreement_log. Qed.

(* try_iter_static succeeds iff the program reads no outputs *)
Theorem C15_static_iff_no_reads :
  forall (tc : testcase) (width : nat),
  wf_tc tc width -> (exists st : istate, try_iter_static tc = StaticOk st) <-> tc_read_outputs tc = [].
Proof. exact C15_static_iff_no_reads. Qed.

Theorem C15_static_constructor_cannot_fail :
  forall (tc : testcase) (width : nat),
  wf_tc tc width ->
  tc_read_outputs tc = [] -> exists st : istate, try_new N static_driver tc = NewOk N st.
Proof. exact C15_static_constructor_cannot_fail. Qed.

(* the expect() and the index in try_iter_static are unreachable *)
Theorem C15_static_never_panics :
  forall (tc : testcase) (width : nat),
  wf_tc tc width -> forall s : N, try_iter_static tc <> StaticPanic s.
Proof. exact C15_static_never_panics. Qed.

(* the unreachable!() in StaticDataRowIterator::next is unreachable *)
Theorem C15_static_never_driver_error :
  forall (G : gen) (w : bool) (tc : testcase) (fuel : nat) (st : istate) (e : N) (st' : istate),
  inext G N static_driver w tc fuel st <> ItErr N (IE_Driver e) st'.
Proof. exact C15_static_never_driver_error. Qed.

(* otherwise the error lists the outputs read *)
Theorem C15_static_not_static :
  forall (tc : testcase) (width : nat),
  wf_tc tc width ->
  tc_read_outputs tc <> [] ->
  exists names : list name,
  try_iter_static tc = StaticNotStatic names /\
  Forall2
  (fun (i : nat) (nm : name) =>
  exists s : signal, nth_error (tc_signals tc) i = Some s /\ nm = sname s)
  (tc_read_outputs tc) names.
Proof. exact C15_static_not_static. Qed.

(* static iteration previews every dynamic run (no virtual signals, no identifier falling through to a device output: see the KNOWN FINDING while0-let below) *)
Theorem C15_static_dynamic_start :
  forall (tc : testcase) (DE : Type) (D : driver DE) (st st' : istate),
  no_virtual tc -> try_iter_static tc = StaticOk st -> try_new DE D tc = NewOk DE st' -> strel st st'.
Proof. exact C15_static_dynamic_start. Qed.

(* ... item by item: same inputs, expected values and line numbers, whatever the driver returns *)
Theorem C15_static_equals_dynamic :
  forall (G : gen) (tc : testcase) (DE : Type) (D : driver DE) (w_default : bool) 
  (fuel n : nat) (st st' : istate) (items_s : list (item_view N)) (end_s : istate),
  no_virtual tc ->
  try_iter_static tc = StaticOk st ->
  try_new DE D tc = NewOk DE st' ->
  collect G N static_driver true tc fuel n st = (items_s, Some end_s) ->
  no_unknown items_s -> sim_items items_s (fst (collect G DE D w_default tc fuel n st')).
Proof. exact C15_static_equals_dynamic. Qed.

Theorem C15_static_rows_cover_dynamic :
  forall (G : gen) (tc : testcase) (DE : Type) (D : driver DE) (w_default : bool) 
  (fuel n : nat) (st st' : istate) (items_s : list (item_view N)) (end_s : istate),
  strel st st' ->
  collect G N static_driver true tc fuel n st = (items_s, Some end_s) ->
  no_unknown items_s ->
  exists rest : list static_data_row,
  map static_row (view_rows items_s) =
  map static_row (view_rows (fst (collect G DE D w_default tc fuel n st'))) ++ rest.
Proof. exact C15_static_rows_cover_dynamic. Qed.

(* WITH virtual (declared) signals: the two constructors start in related states (strel_v: virtual positions carry the same expression on both sides) ... *)
Theorem C15_static_dynamic_start_with_virtuals :
  forall (tc : testcase) (DE : Type) (D : driver DE) (st st' : istate),
  try_iter_static tc = StaticOk st -> try_new DE D tc = NewOk DE st' -> strel_v st st'.
Proof. exact C15_static_dynamic_start_v. Qed.

(* ... and the static iterator previews every dynamic run item by item, without the hypothesis no_virtual; sim_items_v differs from sim_items in one clause: where the dynamic run has a device failure the static run has a row OR an evaluation error of a declared signal (evaluated on the empty answer) *)
Theorem C15_static_equals_dynamic_with_virtuals :
  forall (G : gen) (tc : testcase) (DE : Type) (D : driver DE) (w_default : bool) 
  (fuel n : nat) (st st' : istate) (items_s : list (item_view N)) (end_s : istate),
  try_iter_static tc = StaticOk st ->
  try_new DE D tc = NewOk DE st' ->
  collect G N static_driver true tc fuel n st = (items_s, Some end_s) ->
  no_unknown items_s -> sim_items_v items_s (fst (collect G DE D w_default tc fuel n st')).
Proof. exact C15_static_equals_dynamic_v. Qed.

(* that clause is needed: with sim_items itself the statement is false (witness: `A / declare v = 1/0; / 1` and a device that fails at the first row - static: DivisionByZero, dynamic: the driver's error) *)
Theorem C15_literal_statement_refuted_with_virtuals :
  ~
  (forall (G : gen) (tc : testcase) (DE : Type) (D : driver DE) (w_default : bool)
  (fuel n : nat) (st st' : istate) (items_s : list (item_view N)) (end_s : istate),
  try_iter_static tc = StaticOk st ->
  try_new DE D tc = NewOk DE st' ->
  collect G N static_driver true tc fuel n st = (items_s, Some end_s) ->
  no_unknown items_s -> sim_items items_s (fst (collect G DE D w_default tc fuel n st'))).
Proof. exact C15_static_equals_dynamic_v_refuted. Qed.

(* when the static run has no error item the original relation holds *)
Theorem C15_static_equals_dynamic_with_virtuals_rows_only :
  forall (G : gen) (tc : testcase) (DE : Type) (D : driver DE) (w_default : bool) 
  (fuel n : nat) (st st' : istate) (items_s : list (item_view N)) (end_s : istate),
  try_iter_static tc = StaticOk st ->
  try_new DE D tc = NewOk DE st' ->
  collect G N static_driver true tc fuel n st = (items_s, Some end_s) ->
  (forall e : ierr N, ~ In (VErr e) items_s) ->
  sim_items items_s (fst (collect G DE D w_default tc fuel n st')).
Proof. exact C15_static_equals_dynamic_v_rows_only. Qed.

(* the rows-cover corollary without no_virtual *)
Theorem C15_static_rows_cover_dynamic_with_virtuals :
  forall (G : gen) (tc : testcase) (DE : Type) (D : driver DE) (w_default : bool) 
  (fuel n : nat) (st st' : istate) (items_s : list (item_view N)) (end_s : istate),
  try_iter_static tc = StaticOk st ->
  try_new DE D tc = NewOk DE st' ->
  collect G N static_driver true tc fuel n st = (items_s, Some end_s) ->
  no_unknown items_s ->
  exists rest : list static_data_row,
  map static_row (view_rows items_s) =
  map static_row (view_rows (fst (collect G DE D w_default tc fuel n st'))) ++ rest.
Proof. exact C15_static_rows_cover_dynamic_v. Qed.

(* a caller that keeps calling next() after error items: the preview continues through evaluation errors (same error on both sides) and stops at a device failure *)
Theorem C15_static_equals_dynamic_through_errors :
  forall (G : gen) (tc : testcase) (DE : Type) (D : driver DE) (w_default : bool) 
  (fuel n : nat) (st st' : istate) (items_s : list (item_view N)) (end_s : istate),
  try_iter_static tc = StaticOk st ->
  try_new DE D tc = NewOk DE st' ->
  collect_e G N static_driver true tc fuel n st = (items_s, Some end_s) ->
  no_unknown items_s -> sim_items_e false items_s (fst (collect_e G DE D w_default tc fuel n st')).
Proof. exact C15_static_equals_dynamic_e. Qed.

(* it continues even through device failures / unusable answers when no declared signal draws random numbers *)
Theorem C15_static_equals_dynamic_through_device_failures :
  forall (G : gen) (tc : testcase) (DE : Type) (D : driver DE) (w_default : bool) 
  (fuel n : nat) (st st' : istate) (items_s : list (item_view N)) (end_s : istate),
  virtuals_no_random tc ->
  try_iter_static tc = StaticOk st ->
  try_new DE D tc = NewOk DE st' ->
  collect_e G N static_driver true tc fuel n st = (items_s, Some end_s) ->
  no_unknown items_s -> sim_items_e true items_s (fst (collect_e G DE D w_default tc fuel n st')).
Proof. exact C15_static_equals_dynamic_ee. Qed.

(* that restriction is needed (witness: `declare v = random(10);` - after a failed call the static run has drawn for v, the dynamic run has not; values drawn by random are exempt in the property) *)
Theorem C15_through_device_failures_needs_no_random :
  ~
  (forall (G : gen) (tc : testcase) (DE : Type) (D : driver DE) (w_default : bool)
  (fuel n : nat) (st st' : istate) (items_s : list (item_view N)) (end_s : istate),
  try_iter_static tc = StaticOk st ->
  try_new DE D tc = NewOk DE st' ->
  collect_e G N static_driver true tc fuel n st = (items_s, Some end_s) ->
  no_unknown items_s -> sim_items_e true items_s (fst (collect_e G DE D w_default tc fuel n st'))).
Proof. exact C15_static_equals_dynamic_ee_needs_no_random. Qed.

(* the general form over related states *)
Theorem C15_static_previews_dynamic_through_errors :
  forall (G : gen) (tc : testcase) (DE : Type) (D : driver DE) (w_default go : bool) 
  (fuel n : nat) (st st' : istate) (items_s : list (item_view N)) (end_s : istate),
  strel_v st st' ->
  (go = true -> OutputsProof.no_random_entries (i_outidx st') = true) ->
  collect_e G N static_driver true tc fuel n st = (items_s, Some end_s) ->
  no_unknown items_s -> sim_items_e go items_s (fst (collect_e G DE D w_default tc fuel n st')).
Proof. exact C15_static_previews_dynamic_e_gen. Qed.


Check C15_parse_hash_order_independent.
Print Assumptions C15_parse_hash_order_independent.
Print Assumptions C15_run_depends_only_on_answers.
Print Assumptions C15_static_iff_no_reads.
Print Assumptions C15_static_equals_dynamic.
Print Assumptions C15_static_equals_dynamic_with_virtuals.
Print Assumptions C15_literal_statement_refuted_with_virtuals.
Print Assumptions C15_static_equals_dynamic_through_errors.
Print Assumptions C15_static_equals_dynamic_through_device_failures.
Print Assumptions C15_through_device_failures_needs_no_random.
