(* C07 - Values from the program are reduced to the width of the signal they drive.
   Property theorems only; the proofs are in proofs/MaskProof.v. *)
From DTR Require Import Prelude I64 Ast FramedMap Lexer Parser Bind Eval Stmt Iter WfSpec ByNameSpec.
From DTR Require Import GeneratedTables.
From DTR.proofs Require Import I64Facts MaskProof TablesProof IterLogProof RunRefineE IterLogProofE WidthProof.
Open Scope Z_scope.

(* every width 1..64, every 64-bit value: the value modulo 2^bits, read as two's complement
   (so a 64-bit signal keeps the value, negative values map to their unsigned bit pattern) *)
Theorem C07_reduced_modulo_width : forall bits n, (1 <= bits <= 64)%N -> i64 n ->
  mask_value bits n = to_i64 (n mod 2 ^ Z.of_N bits).
Proof. exact mask_value_mod. Qed.

Theorem C07_below_64_unsigned_residue : forall bits n, (bits < 64)%N ->
  mask_value bits n = n mod 2 ^ Z.of_N bits.
Proof. exact mask_value_small. Qed.

Theorem C07_64_bits_keeps_value : forall bits n, (64 <= bits)%N -> mask_value bits n = n.
Proof. exact mask_value_wide. Qed.

Theorem C07_result_is_i64 : forall bits n, i64 n -> i64 (mask_value bits n).
Proof. exact mask_value_i64. Qed.

(* virtual signals are 64 bits wide *)
Theorem C07_virtual_is_64 : forall v, sbits (virtual_signal v) = 64%N.
Proof. intros v. reflexivity. Qed.

(* T1: the mask of the model is fn bit_mask of src/data_row_iterator.rs (translated on every run; the
   translator also checks that exactly the input path and the expected path apply it) *)
Theorem C07_mask_is_the_source : forall bits, bit_mask bits = gen_bit_mask bits.
Proof. exact bit_mask_pinned. Qed.

(* the reduced value fits the width: 0 <= v < 2^bits for bits < 64 (width 0: the value is 0) *)
Theorem C07_mask_lands_in_the_width :
  forall (bits : N) (n : Z), in_width bits (mask_value bits n).
Proof. exact mask_value_in_width. Qed.

(* fitting the width = being a reduced value *)
Theorem C07_in_width_iff_reduced :
  forall (bits : N) (v : Z), in_width bits v <-> (exists n : Z, v = mask_value bits n).
Proof. exact in_width_iff_masked. Qed.

(* RUN LEVEL, for every state, driver, generator, write_input variant and number of steps, also for a caller that continues after error items: every numeric input entry of every yielded row fits the width of its signal or is the signal's declared default, passed on verbatim and unflagged (a default does not originate from the program), and every numeric EXPECTED value fits the width of its signal *)
Theorem C07_every_row_of_every_run :
  forall (tc : testcase) (G : gen) (DE : Type) (D : driver DE) (w_default : bool) 
  (fuel n : nat) (st0 : istate),
  Forall (item_rows DE row_reduced_or_default) (fst (collect_e G DE D w_default tc fuel n st0)).
Proof. exact every_row_reduced_or_default. Qed.

(* when the caller's defaults fit their signals, every row is in width outright *)
Theorem C07_every_row_in_width :
  forall (G : gen) (DE : Type) (D : driver DE) (w_default : bool) (p : parsed) 
  (sigs0 : list signal) (tc : testcase) (fuel n : nat) (st0 : istate),
  with_signals p sigs0 = Ok tc ->
  defaults_in_width sigs0 ->
  try_new DE D tc = NewOk DE st0 ->
  Forall (fun item : item_view DE => match item with
  | VRow r => row_in_width r
  | _ => True
  end) (fst (collect_e G DE D w_default tc fuel n st0)).
Proof. exact every_row_in_width. Qed.

(* the same for every vector handed to the driver, the calls behind driver-error and unusable-answer items included *)
Theorem C07_every_call_of_every_run :
  forall (tc : testcase) (G : gen) (DE : Type) (D : driver DE) (w_default : bool) 
  (fuel n : nat) (st0 : istate) (items : list (item_view DE)) (st' : istate),
  collect_e G DE D w_default tc fuel n st0 = (items, Some st') ->
  exists calls : list call, i_log st' = i_log st0 ++ calls /\ Forall call_reduced_or_default calls.
Proof. exact every_call_reduced_or_default. Qed.

(* functional form at run level: a numeric input entry is mask_value (bits of its signal) of the number in the column of that name *)
Theorem C07_inputs_are_the_reduced_cells :
  forall (G : gen) (DE : Type) (D : driver DE) (w_default : bool) (p : parsed) 
  (sigs0 : list signal) (tc : testcase) (fuel n : nat) (st0 : istate),
  with_signals p sigs0 = Ok tc ->
  Forall
  (fun item : item_view DE =>
  match item with
  | VRow r => inputs_masked_cells (p_signals p) r
  | _ => True
  end) (fst (collect_e G DE D w_default tc fuel n st0)).
Proof. exact every_row_inputs_masked_cells. Qed.

(* one step in full: value = reduced cell of the column of that name / Z / the default when the header omits the signal; the changed flag compares the CELLS (before reduction) with the previous row's *)
Theorem C07_row_inputs_by_name_with_flags :
  forall (G : gen) (DE : Type) (D : driver DE) (w_default : bool) (p : parsed) 
  (sigs0 : list signal) (tc : testcase) (fuel : nat) (st : istate) (row : data_row)
  (st' : istate),
  with_signals p sigs0 = Ok tc ->
  inext G DE D w_default tc fuel st = ItRow DE row st' ->
  exists entries : list dentry,
  i_prev st' = Some entries /\
  inputs_spec (p_signals p) entries (check_changed_entries (i_prev st) entries) (tc_signals tc) =
  Some (dr_inputs row) /\
  (forall e : in_entry,
  In e (dr_inputs row) ->
  match column_named (p_signals p) (sname (ie_sig e)) with
  | Some j =>
  exists d : dentry,
  nth_error entries j = Some d /\
  match d with
  | DNum n => ie_val e = IVal (mask_value (sbits (ie_sig e)) n)
  | DZ => ie_val e = IZ
  | _ => False
  end /\
  match i_prev st with
  | Some prev =>
  exists d' : dentry, nth_error prev j = Some d' /\ ie_changed e = negb (dentry_eqb d d')
  | None => ie_changed e = true
  end
  | None => is_default_entry e
  end).
Proof. exact inext_row_inputs_by_name. Qed.

(* the constructor's vector: the declared defaults, verbatim (in width iff the caller's defaults are) *)
Theorem C07_defaults_are_passed_on_unreduced :
  forall (p : parsed) (sigs0 : list signal) (tc : testcase),
  with_signals p sigs0 = Ok tc ->
  exists l : list in_entry,
  generate_default_input_entries tc = Ok l /\
  defaults_spec (tc_signals tc) = Some l /\
  map ie_sig l = filter is_input (tc_signals tc) /\
  Forall is_default_entry l /\
  (Forall input_entry_in_width l <->
  (forall (s : signal) (n : Z),
  In s (tc_signals tc) -> default_value s = Some (IVal n) -> in_width (sbits s) n)).
Proof. exact constructor_vector_unreduced. Qed.


Check C07_reduced_modulo_width : forall bits n, (1 <= bits <= 64)%N -> i64 n ->
  mask_value bits n = to_i64 (n mod 2 ^ Z.of_N bits).

(* non-vacuity *)
Example C07_example : mask_value 8 (-1) = 255 /\ mask_value 64 (-1) = -1 /\ i64 (-1) /\ (1 <= 8 <= 64)%N.
Proof. unfold i64, two63. repeat split; try reflexivity; lia. Qed.

Print Assumptions C07_reduced_modulo_width.
Print Assumptions C07_every_row_of_every_run.
Print Assumptions C07_every_call_of_every_run.
Print Assumptions C07_inputs_are_the_reduced_cells.
