(* C07 - Values from the program are reduced to the width of the signal they drive.
   Property theorems only; the proofs are in proofs/MaskProof.v. *)
From DTR Require Import Prelude I64 Ast Bind.
From DTR Require Import GeneratedTables.
From DTR.proofs Require Import I64Facts MaskProof TablesProof.
Open Scope Z_scope.

(* every width 1..64, every 64-bit value: the value modulo 2^bits, read as two's complement
   (so a 64-bit signal keeps the value, negative values map to their unsigned bit pattern) *)
Theorem C07_reduced_modulo_width : forall bits n, (1 <= bits <= 64)%N -> i64 n ->
  mask_value bits n = to_i64 (n mod 2 ^ Z.of_N bits).
Proof. exact mask_value_mod. Qed.

Theorem C07_below_64_unsigned_residue : forall bits n, (bits < 64)%N ->
  mask_value bits n = n mod 2 ^ Z.of_N bits.
Proof. exact mask_value_small. Qed.

Theorem C07_64_bits_keeps_value : forall bits n, (64 <= bits)%N -> mask_value bits n = n.
Proof. exact mask_value_wide. Qed.

Theorem C07_result_is_i64 : forall bits n, i64 n -> i64 (mask_value bits n).
Proof. exact mask_value_i64. Qed.

(* virtual signals are 64 bits wide *)
Theorem C07_virtual_is_64 : forall v, sbits (virtual_signal v) = 64%N.
Proof. intros v. reflexivity. Qed.

(* T1: the mask of the model is fn bit_mask of src/data_row_iterator.rs (translated on every run; the
   translator also checks that exactly the input path and the expected path apply it) *)
Theorem C07_mask_is_the_source : forall bits, bit_mask bits = gen_bit_mask bits.
Proof. exact bit_mask_pinned. Qed.

Check C07_reduced_modulo_width : forall bits n, (1 <= bits <= 64)%N -> i64 n ->
  mask_value bits n = to_i64 (n mod 2 ^ Z.of_N bits).

(* non-vacuity *)
Example C07_example : mask_value 8 (-1) = 255 /\ mask_value 64 (-1) = -1 /\ i64 (-1) /\ (1 <= 8 <= 64)%N.
Proof. unfold i64, two63. repeat split; try reflexivity; lia. Qed.

Print Assumptions C07_reduced_modulo_width.
