(* C10 - Running an accepted test never panics; runtime problems are error items.
   Every expect/unwrap/unreachable!/index of the Rust is an explicit Panic site of the model
   (sites 10,11 Expr::eval; 20 StmtIterator; 30-39 DataRowIterator); the theorems show none is
   reachable from an accepted test, for every driver and every prefix of the iteration.
   Property theorems only; proofs in proofs/NoPanicProof.v, Chain.v, EvalProof.v, OutputsProof.v. *)
From DTR Require Import Prelude I64 Ast FramedMap Lexer Parser Bind Eval Stmt Iter WfSpec.
From DTR.proofs Require Import EvalProof IterLogProof OutputsProof NoPanicProof ParserProof BindProof Chain.
Local Open Scope nat_scope.

(* END TO END: any text that parses, bound to any signal list that binding accepts, run against ANY driver (contract-honouring or not), ANY generator, overridden or default write_input, for ANY number of next() calls with any fuel: neither the constructor nor any next() panics *)
Theorem C10_accepted_test_never_panics :
  forall (s : text) (p : parsed) (sigs0 : list signal) (tc : testcase),
  parse s = Ok p ->
  wf_signals sigs0 ->
  with_signals p sigs0 = Ok tc ->
  forall (G : gen) (DE : Type) (D : driver DE) (w_default : bool),
  (forall site : N, try_new DE D tc <> NewPanic DE site) /\
  (forall st0 : istate,
  try_new DE D tc = NewOk DE st0 -> forall fuels : list nat, ~ run_panics tc G DE D w_default fuels st0).
Proof. exact accepted_test_never_panics. Qed.

(* ... also for a caller that goes on after error items of EVERY kind (the state of the iterator after an error,
   evaluation errors of the program included, is part of the model: proofs/AfterErrorProof.v) *)
Theorem C10_never_panics_through_errors :
  forall (s : text) (p : parsed) (sigs0 : list signal) (tc : testcase),
  parse s = Ok p ->
  wf_signals sigs0 ->
  with_signals p sigs0 = Ok tc ->
  forall (G : gen) (DE : Type) (D : driver DE) (w_default : bool) (st0 : istate),
  try_new DE D tc = NewOk DE st0 -> forall fuels : list nat, ~ run_panics_e tc G DE D w_default fuels st0.
Proof. exact accepted_test_never_panics_through_errors. Qed.

(* also after next() has returned None *)
Theorem C10_also_after_none :
  forall (s : text) (p : parsed) (sigs0 : list signal) (tc : testcase),
  parse s = Ok p ->
  wf_signals sigs0 ->
  with_signals p sigs0 = Ok tc ->
  forall (G : gen) (DE : Type) (D : driver DE) (w_default : bool) (st0 : istate),
  try_new DE D tc = NewOk DE st0 ->
  forall st : istate,
  reachable tc G DE D w_default st0 st ->
  forall (fuel : nat) (site : N), inext G DE D w_default tc fuel st <> ItPanic DE site.
Proof. exact accepted_test_reachable_never_panics. Qed.

(* the iterator-level theorem: wf_tc is what binding establishes (C11_bound_is_wf) *)
Theorem C10_run_never_panics :
  forall (tc : testcase) (width : nat),
  wf_tc tc width ->
  forall (G : gen) (DE : Type) (D : driver DE) (w_default : bool) (st0 : istate),
  try_new DE D tc = NewOk DE st0 -> forall fuels : list nat, ~ run_panics tc G DE D w_default fuels st0.
Proof. exact C10_run_never_panics. Qed.

Theorem C10_constructor_never_panics :
  forall (tc : testcase) (width : nat),
  wf_tc tc width -> forall (DE : Type) (D : driver DE) (s : N), try_new DE D tc <> NewPanic DE s.
Proof. exact try_new_no_panic. Qed.

Theorem C10_invariant_established :
  forall (tc : testcase) (width : nat),
  wf_tc tc width ->
  forall (DE : Type) (D : driver DE) (st : istate), try_new DE D tc = NewOk DE st -> Inv tc width st.
Proof. exact try_new_inv. Qed.

Theorem C10_invariant_preserved :
  forall (tc : testcase) (width : nat),
  wf_tc tc width ->
  forall (G : gen) (DE : Type) (D : driver DE) (w_default : bool) (st : istate) (fuel : nat),
  Inv tc width st ->
  match inext G DE D w_default tc fuel st with
  | ItNone _ st' | ItRow _ _ st' => Inv tc width st'
  | _ => True
  end.
Proof. exact inext_inv. Qed.

(* which error items are possible: driver errors, expression errors, the two layout errors *)
Theorem C10_error_items :
  forall (tc : testcase) (width : nat),
  wf_tc tc width ->
  forall (G : gen) (DE : Type) (D : driver DE) (w_default : bool) (st : istate),
  Inv tc width st ->
  forall (fuel : nat) (e : ierr DE) (st' : istate),
  inext G DE D w_default tc fuel st = ItErr DE e st' ->
  (exists d : DE, e = IE_Driver d) \/
  (exists x : xerr, e = IE_Runtime (RT_Expr x)) \/
  (exists a b : N, e = IE_Runtime (RT_WrongNumberOfOutputs a b)) \/ e = IE_Runtime RT_WrongOutputOrder.
Proof. exact inext_error_items. Qed.

(* expressions: well-formed ones (every call names a table function with its arity - what the parser builds) never panic ... *)
Theorem C10_eval_never_panics :
  forall (G : gen) (e : expr),
  wf_expr e -> forall (c : ctx) (rng : rng_state) (s : N), fst (eval G c e rng) <> Panic s.
Proof. exact eval_never_panics. Qed.

Theorem C10_eval_total :
  forall (G : gen) (e : expr) (c : ctx) (rng : rng_state), fst (eval G c e rng) <> OOF.
Proof. exact eval_never_oof. Qed.

(* ... division or remainder by zero is the error DivisionByZero *)
Theorem C10_division_by_zero_is_error :
  forall (op : binop) (l r : Z),
  (exists v : Z, binop_eval op l r = Ok v) \/
  binop_eval op l r = Err XE_DivisionByZero /\ r = 0%Z /\ (op = Divide \/ op = Reminder).
Proof. exact binop_eval_total. Qed.

(* ... an empty random range is an error *)
Theorem C10_empty_random_range_is_error :
  forall (G : gen) (c : ctx) (a : expr) (rng : rng_state) (n : Z) (rng1 : rng_state),
  eval G c a rng = (Ok n, rng1) ->
  (n <= 1)%Z -> eval G c (EFunc name_random [a]) rng = (Err (XE_EmptyRandomRange n), rng1).
Proof. exact random_empty_range_is_error. Qed.

(* ... a variable that was never assigned on the executed path (and is no output) is the error UnknownVariable *)
Theorem C10_unassigned_variable_is_error :
  forall (G : gen) (c : ctx) (x : name) (rng : rng_state),
  ctx_get c x = None -> eval G c (EVar x) rng = (Err (XE_UnknownVariable x), rng).
Proof. exact eval_var_unknown. Qed.

(* signal widths: no hypothesis on widths at all (bit_mask handles every usize, see C07) *)
Theorem C10_widths_up_to_64 :
  forall (tc : testcase) (width : nat),
  wf_tc tc width ->
  forall (G : gen) (DE : Type) (D : driver DE) (w_default : bool) (st0 : istate),
  try_new DE D tc = NewOk DE st0 -> forall fuels : list nat, ~ run_panics tc G DE D w_default fuels st0.
Proof. exact C10_run_never_panics. Qed.

Check C10_accepted_test_never_panics.
Print Assumptions C10_accepted_test_never_panics.
Print Assumptions C10_also_after_none.
Print Assumptions C10_error_items.
Print Assumptions C10_never_panics_through_errors.
