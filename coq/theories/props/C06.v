(* C06 - Values are bound to signals by header name; every row is a complete vector.
   SPEC: ByNameSpec.  MODEL: Bind.build_indices + Iter.generate_*_entries / check_changed_entries.
   Property theorems only; proofs in proofs/ByNameProof.v. *)
From DTR Require Import Prelude I64 Ast Parser Bind Eval Stmt Iter ByNameSpec.
From DTR.proofs Require Import ByNameProof.
Local Open Scope nat_scope.

Theorem C06_inputs_by_name : forall p sigs0 tc entries changed l,
  with_signals p sigs0 = Ok tc ->
  (generate_input_entries tc entries changed = Ok l
   <-> inputs_spec (p_signals p) entries changed (tc_signals tc) = Some l).
Proof. exact ByNameProof.C06_inputs_by_name. Qed.

Theorem C06_expected_by_name : forall p sigs0 tc entries l,
  with_signals p sigs0 = Ok tc ->
  (generate_expected_entries tc entries = Ok l
   <-> expected_spec (p_signals p) entries (tc_signals tc) = Some l).
Proof. exact ByNameProof.C06_expected_by_name. Qed.

Theorem C06_defaults : forall p sigs0 tc,
  with_signals p sigs0 = Ok tc ->
  exists l, generate_default_input_entries tc = Ok l /\ defaults_spec (tc_signals tc) = Some l.
Proof. exact ByNameProof.C06_defaults. Qed.

(* exactly one entry per input-capable signal, in signal-list order *)
Theorem C06_inputs_complete : forall hdr entries changed sigs l,
  inputs_spec hdr entries changed sigs = Some l -> map ie_sig l = filter is_input sigs.
Proof. exact ByNameProof.C06_inputs_complete. Qed.

(* exactly one entry per output-capable or virtual signal, in signal-list order *)
Theorem C06_expected_complete : forall hdr entries sigs l,
  expected_spec hdr entries sigs = Some l ->
  map xe_sig l = filter (fun s => is_output s || is_virtual s) sigs.
Proof. exact ByNameProof.C06_expected_complete. Qed.

Theorem C06_defaults_complete : forall sigs l,
  defaults_spec sigs = Some l ->
  map ie_sig l = filter is_input sigs
  /\ Forall (fun e => ie_changed e = false /\ default_value (ie_sig e) = Some (ie_val e)) l.
Proof. exact ByNameProof.C06_defaults_complete. Qed.

(* changed = false  ==>  same value as in the previous vector handed to the driver *)
Theorem C06_changed_sound : forall hdr sigs prev entries ch0 ins1 ins2,
  inputs_spec hdr prev ch0 sigs = Some ins1 ->
  inputs_spec hdr entries (check_changed_entries (Some prev) entries) sigs = Some ins2 ->
  Forall2 (fun e1 e2 => ie_sig e1 = ie_sig e2 /\ (ie_changed e2 = false -> ie_val e1 = ie_val e2)) ins1 ins2.
Proof. exact ByNameProof.C06_changed_sound. Qed.

(* first row: compared with the constructor's default vector *)
Theorem C06_changed_sound_first : forall hdr sigs entries d ins,
  defaults_spec sigs = Some d ->
  inputs_spec hdr entries (check_changed_entries None entries) sigs = Some ins ->
  Forall2 (fun e1 e2 => ie_sig e1 = ie_sig e2 /\ (ie_changed e2 = false -> ie_val e1 = ie_val e2)) d ins.
Proof. exact ByNameProof.C06_changed_sound_first. Qed.

Theorem C06_omitted_never_changed : forall hdr entries changed sigs l,
  inputs_spec hdr entries changed sigs = Some l ->
  forall e, In e l -> column_named hdr (sname (ie_sig e)) = None ->
    ie_changed e = false /\ default_value (ie_sig e) = Some (ie_val e).
Proof. exact ByNameProof.C06_omitted_never_changed. Qed.

Check C06_inputs_by_name.
Print Assumptions C06_inputs_by_name.
Print Assumptions C06_changed_sound.
