(* C06 - Values are bound to signals by header name; every row is a complete vector.
   SPEC: ByNameSpec.  MODEL: Bind.build_indices + Iter.generate_*_entries / check_changed_entries.
   Property theorems only; proofs in proofs/ByNameProof.v. *)
From DTR Require Import Prelude I64 Ast FramedMap Lexer Parser Bind Eval Stmt Iter WfSpec ByNameSpec.
From DTR.proofs Require Import ByNameProof IterLogProof RunRefineE IterLogProofE WidthProof VectorProof.
Local Open Scope nat_scope.

Theorem C06_inputs_by_name : forall p sigs0 tc entries changed l,
  with_signals p sigs0 = Ok tc ->
  (generate_input_entries tc entries changed = Ok l
   <-> inputs_spec (p_signals p) entries changed (tc_signals tc) = Some l).
Proof. exact ByNameProof.C06_inputs_by_name. Qed.

Theorem C06_expected_by_name : forall p sigs0 tc entries l,
  with_signals p sigs0 = Ok tc ->
  (generate_expected_entries tc entries = Ok l
   <-> expected_spec (p_signals p) entries (tc_signals tc) = Some l).
Proof. exact ByNameProof.C06_expected_by_name. Qed.

Theorem C06_defaults : forall p sigs0 tc,
  with_signals p sigs0 = Ok tc ->
  exists l, generate_default_input_entries tc = Ok l /\ defaults_spec (tc_signals tc) = Some l.
Proof. exact ByNameProof.C06_defaults. Qed.

(* exactly one entry per input-capable signal, in signal-list order *)
Theorem C06_inputs_complete : forall hdr entries changed sigs l,
  inputs_spec hdr entries changed sigs = Some l -> map ie_sig l = filter is_input sigs.
Proof. exact ByNameProof.C06_inputs_complete. Qed.

(* exactly one entry per output-capable or virtual signal, in signal-list order *)
Theorem C06_expected_complete : forall hdr entries sigs l,
  expected_spec hdr entries sigs = Some l ->
  map xe_sig l = filter (fun s => is_output s || is_virtual s) sigs.
Proof. exact ByNameProof.C06_expected_complete. Qed.

Theorem C06_defaults_complete : forall sigs l,
  defaults_spec sigs = Some l ->
  map ie_sig l = filter is_input sigs
  /\ Forall (fun e => ie_changed e = false /\ default_value (ie_sig e) = Some (ie_val e)) l.
Proof. exact ByNameProof.C06_defaults_complete. Qed.

(* changed = false  ==>  same value as in the previous vector handed to the driver *)
Theorem C06_changed_sound : forall hdr sigs prev entries ch0 ins1 ins2,
  inputs_spec hdr prev ch0 sigs = Some ins1 ->
  inputs_spec hdr entries (check_changed_entries (Some prev) entries) sigs = Some ins2 ->
  Forall2 (fun e1 e2 => ie_sig e1 = ie_sig e2 /\ (ie_changed e2 = false -> ie_val e1 = ie_val e2)) ins1 ins2.
Proof. exact ByNameProof.C06_changed_sound. Qed.

(* first row: compared with the constructor's default vector *)
Theorem C06_changed_sound_first : forall hdr sigs entries d ins,
  defaults_spec sigs = Some d ->
  inputs_spec hdr entries (check_changed_entries None entries) sigs = Some ins ->
  Forall2 (fun e1 e2 => ie_sig e1 = ie_sig e2 /\ (ie_changed e2 = false -> ie_val e1 = ie_val e2)) d ins.
Proof. exact ByNameProof.C06_changed_sound_first. Qed.

Theorem C06_omitted_never_changed : forall hdr entries changed sigs l,
  inputs_spec hdr entries changed sigs = Some l ->
  forall e, In e l -> column_named hdr (sname (ie_sig e)) = None ->
    ie_changed e = false /\ default_value (ie_sig e) = Some (ie_val e).
Proof. exact ByNameProof.C06_omitted_never_changed. Qed.

(* RUN LEVEL, through error items: every vector handed to the driver - the constructor's, every row's, the calls behind error items - has exactly one entry per input-capable signal, in signal-list order *)
Theorem C06_every_vector_is_complete :
  forall (G : gen) (DE : Type) (D : driver DE) (w_default : bool) (p : parsed) 
  (sigs0 : list signal) (tc : testcase) (fuel n : nat) (st0 : istate) (items : list (item_view DE))
  (st' : istate),
  with_signals p sigs0 = Ok tc ->
  try_new DE D tc = NewOk DE st0 ->
  collect_e G DE D w_default tc fuel n st0 = (items, Some st') ->
  Forall (fun c : call => map ie_sig (snd c) = filter is_input (tc_signals tc)) (i_log st').
Proof. exact every_vector_complete. Qed.

(* every yielded row that has outputs has exactly one per output-capable or declared signal, in signal-list order *)
Theorem C06_every_checked_row_is_complete :
  forall (G : gen) (DE : Type) (D : driver DE) (w_default : bool) (p : parsed) 
  (sigs0 : list signal) (tc : testcase) (fuel n : nat) (st0 : istate),
  with_signals p sigs0 = Ok tc ->
  try_new DE D tc = NewOk DE st0 ->
  Forall
  (fun item : item_view DE =>
  match item with
  | VRow r =>
  dr_outputs r <> [] ->
  map or_sig (dr_outputs r) =
  filter (fun s : signal => is_output s || is_virtual s) (tc_signals tc)
  | _ => True
  end) (fst (collect_e G DE D w_default tc fuel n st0)).
Proof. exact every_checked_row_complete. Qed.

(* for ANY two consecutive calls of the driver's log, an entry that is not flagged as changed carries the value that signal had in the previous vector handed to the driver - whatever became of that call (a row, a failed call, a refused answer) *)
Theorem C06_unflagged_means_unchanged :
  forall (G : gen) (DE : Type) (D : driver DE) (w_default : bool) (p : parsed) 
  (sigs0 : list signal) (tc : testcase) (fuel n : nat) (st0 : istate) (items : list (item_view DE))
  (st' : istate),
  with_signals p sigs0 = Ok tc ->
  try_new DE D tc = NewOk DE st0 ->
  collect_e G DE D w_default tc fuel n st0 = (items, Some st') ->
  forall (l1 : list call) (c1 c2 : call) (l2 : list call),
  i_log st' = l1 ++ c1 :: c2 :: l2 ->
  Forall2
  (fun e1 e2 : in_entry => ie_sig e1 = ie_sig e2 /\ (ie_changed e2 = false -> ie_val e1 = ie_val e2))
  (snd c1) (snd c2).
Proof. exact unflagged_means_unchanged. Qed.

(* a signal the header omits is unflagged and at its default in every call *)
Theorem C06_omitted_never_flagged_in_any_call :
  forall (G : gen) (DE : Type) (D : driver DE) (w_default : bool) (p : parsed) 
  (sigs0 : list signal) (tc : testcase) (fuel n : nat) (st0 : istate) (items : list (item_view DE))
  (st' : istate),
  with_signals p sigs0 = Ok tc ->
  try_new DE D tc = NewOk DE st0 ->
  collect_e G DE D w_default tc fuel n st0 = (items, Some st') ->
  forall (c : call) (e : in_entry),
  In c (i_log st') ->
  In e (snd c) ->
  column_named (p_signals p) (sname (ie_sig e)) = None ->
  ie_changed e = false /\ default_value (ie_sig e) = Some (ie_val e).
Proof. exact omitted_never_flagged. Qed.

(* the first call carries the defaults *)
Theorem C06_log_starts_with_the_defaults :
  forall (G : gen) (DE : Type) (D : driver DE) (w_default : bool) (p : parsed) 
  (sigs0 : list signal) (tc : testcase) (fuel n : nat) (st0 : istate) (items : list (item_view DE))
  (st' : istate),
  with_signals p sigs0 = Ok tc ->
  try_new DE D tc = NewOk DE st0 ->
  collect_e G DE D w_default tc fuel n st0 = (items, Some st') ->
  exists (ins : list in_entry) (calls : list (callkind * list in_entry)),
  i_log st' = (RW, ins) :: calls /\
  generate_default_input_entries tc = Ok ins /\
  defaults_spec (tc_signals tc) = Some ins /\
  Forall is_default_entry ins /\ (length calls <= length items)%nat.
Proof. exact log_starts_with_defaults. Qed.


Check C06_inputs_by_name.
Print Assumptions C06_inputs_by_name.
Print Assumptions C06_changed_sound.
Print Assumptions C06_every_vector_is_complete.
Print Assumptions C06_every_checked_row_is_complete.
Print Assumptions C06_unflagged_means_unchanged.
Print Assumptions C06_omitted_never_flagged_in_any_call.
