(* C09 - Parsing is total: any text gives a test or a located error, never a panic.
   MODEL: Lexer.v (maximal-munch scanner standing for the logos automata), Parser.v (every function
   of src/parser/*.rs with its four panic sites: peek/skip after the token stream is exhausted, the
   two unreachable! of the token->operator conversions).  Property theorems only; proofs in
   proofs/ParserProof.v, LexerProof.v. *)
From DTR Require Import Prelude I64 Ast FramedMap Lexer LexSpec Parser Bind Eval Stmt Iter WfSpec.
From DTR Require Import Generated GeneratedTables.
From DTR.proofs Require Import LexSpecProof EvalProof IterLogProof OutputsProof NoPanicProof ParserProof BindProof Chain LexerProof TablesProof TablesProofLex ParserSpansProof.
From Coq Require Import String.
Local Open Scope nat_scope.

(* for EVERY string *)
Theorem C09_parse_never_panics :
  forall (s : text) (site : N), parse s <> Panic site.
Proof. exact parse_never_panics. Qed.

(* the fuel of the model (4 * tokens + 32 for the parser, length + 1 for the lexers) always suffices: parsing terminates *)
Theorem C09_parse_terminates :
  forall s : text, parse s <> OOF.
Proof. exact parse_never_oof. Qed.

(* for every token list that ends with its only Eof token, every fuel, every end token *)
Theorem C09_block_never_panics :
  forall (fuel : nat) (input_len : N) (hdr : list name) (end_token : option tk) 
  (block : list stmt) (st : pstate),
  ParserProof.tokens_ok (toks st) -> forall s : N, parse_block_loop input_len hdr fuel end_token block st <> Panic s.
Proof. exact parse_block_never_panics. Qed.

Theorem C09_block_fuel :
  forall (fuel : nat) (input_len : N) (hdr : list name) (end_token : option tk) 
  (block : list stmt) (st : pstate),
  fuel >= 2 + 4 * List.length (toks st) -> parse_block_loop input_len hdr fuel end_token block st <> OOF.
Proof. exact parse_block_never_oof. Qed.

Theorem C09_lexer_total :
  forall (pos : N) (s : text), lex_body pos s <> None.
Proof. exact lex_body_never_oof. Qed.

Theorem C09_tokens_end_with_single_eof :
  forall (pos : N) (s : text) (ts : list token), lex_body pos s = Some ts -> tokens_ok ts.
Proof. exact lex_body_tokens_ok. Qed.

(* every location attached to a parse error lies within the source text, start <= end *)
Theorem C09_error_spans_in_text :
  forall (s : text) (e : perr),
  parse s = Err e -> Forall (fun sp : N * N => (fst sp <= snd sp <= text_bytes s)%N) (pe_at e).
Proof. exact parse_error_spans_in_text. Qed.

Theorem C09_bind_never_panics :
  forall (p : parsed) (sigs0 : list signal) (s : N), with_signals p sigs0 <> Panic s.
Proof. exact C11_bind_never_panics. Qed.

Theorem C09_load_is_total :
  forall s : text,
  (forall site : N, parse s <> Panic site) /\
  parse s <> OOF /\
  (forall (p : parsed) (sigs0 : list signal),
  (forall site : N, with_signals p sigs0 <> Panic site) /\ with_signals p sigs0 <> OOF).
Proof. exact load_is_total. Qed.

(* every token span is a pair of byte offsets of character boundaries: (pos + bytes of a prefix u of the text, that + bytes of the lexeme) *)
Theorem C09_token_spans_on_character_boundaries :
  forall (pos : N) (s : text) (ts : list token),
  lex_body pos s = Some ts ->
  forall (pre : list token) (t : token) (post : list token),
  ts = pre ++ t :: post ->
  exists u v : list N,
  s = u ++ ttext t ++ v /\
  tspan t = ((pos + text_bytes u)%N, (pos + text_bytes u + text_bytes (ttext t))%N) /\
  (tkind t = TEof -> v = []).
Proof. exact lex_body_spans. Qed.

Theorem C09_token_spans_ordered :
  forall (pos : N) (s : text) (ts : list token),
  lex_body pos s = Some ts ->
  forall (pre : list token) (t1 : token) (mid : list token) (t2 : token) (post : list token),
  ts = pre ++ t1 :: mid ++ t2 :: post -> (snd (tspan t1) <= fst (tspan t2))%N.
Proof. exact lex_body_spans_ordered. Qed.

Theorem C09_token_spans_bounded :
  forall (pos : N) (s : text) (ts : list token) (t : token),
  lex_body pos s = Some ts ->
  In t ts -> (pos <= fst (tspan t))%N /\ (fst (tspan t) <= snd (tspan t) <= pos + text_bytes s)%N.
Proof. exact lex_body_span_bounds. Qed.

(* ---- T1: the scanner model has exactly the keywords and punctuation tokens of src/lexer/token.rs (GeneratedTables.v is
   regenerated from it on every run; the regular expressions are tied semantically, see the LexSpec theorems) *)
Theorem C09_keywords_are_the_source : incl keywords gen_keywords /\ incl gen_keywords keywords.
Proof. exact keywords_pinned. Qed.
Theorem C09_punctuation_is_the_source : forallb (fun p =>
    match lex_one ((s2n (fst p) ++ [32%N])%list) with
    | Some (Some k, w, r) => tk_beq k (snd p) && name_eqb w (s2n (fst p)) && name_eqb r [32%N]
    | _ => false
    end) gen_punct = true.
Proof. exact punct_tokens_lexed. Qed.

(* every location attached to a parse error lies within the source text ON CHARACTER BOUNDARIES
   (byte offset = UTF-8 length of a prefix of the text), start <= end: it can always be rendered *)
Theorem C09_error_spans_on_character_boundaries : forall s e, parse s = Err e ->
  Forall (fun sp => boundary s (fst sp) /\ boundary s (snd sp) /\ (fst sp <= snd sp)%N) (pe_at e).
Proof. exact parse_error_spans_on_boundaries. Qed.
(* ... and so are the locations a successful parse records for later binding errors *)
Theorem C09_recorded_spans_on_character_boundaries : forall s p, parse s = Ok p ->
  Forall (fun x => boundary s (fst (snd x)) /\ boundary s (snd (snd x))) (p_expected_inputs p) /\
  Forall (fun x => boundary s (fst (snd x)) /\ boundary s (snd (snd x))) (p_read_outputs p) /\
  Forall (fun sp => boundary s (fst sp) /\ boundary s (snd sp)) (p_signal_spans p) /\
  Forall (fun x => boundary s (fst (snd x)) /\ boundary s (snd (snd x))) (p_virtuals p).
Proof. exact parse_recorded_spans_on_boundaries. Qed.

(* every token the parser sees (other than Error / Eof) has a lexeme matched by the rule of its kind in the table computed from the source's regexes, keywords and punctuation (LexSpec.lex_rules) *)
Theorem C09_every_token_matches_its_rule :
  forall (pos : N) (s : text) (ts : list token),
  lex_body pos s = Some ts ->
  Forall
  (fun t : token =>
  tkind t <> TError -> tkind t <> TEof -> rule_matches lex_rules (Some (tkind t)) (ttext t)) ts.
Proof. exact lex_body_tokens_match. Qed.

(* each scanner step consumes a non-empty prefix, so lexing any text terminates *)
Theorem C09_scanner_makes_progress :
  forall s : text,
  (forall (k : option tk) (w r : text), lex_one s = Some (k, w, r) -> s = w ++ r /\ w <> []) /\
  (lex_one s = None <-> s = []).
Proof. exact lex_one_partition. Qed.

(* an Error token covers one character where no rule of the table matches - what the parser turns into a located error *)
Theorem C09_scanner_error_is_one_character_no_rule_matches :
  forall s w r : text,
  lex_one s = Some (Some TError, w, r) ->
  (exists c : N, w = [c]) /\
  (forall (k' : option tk) (w' r' : list N), s = w' ++ r' -> w' <> [] -> ~ rule_matches lex_rules k' w').
Proof. exact LexSpecProof.lex_one_error. Qed.

(* the header scanner has no error token at all *)
Theorem C09_header_scanner_total :
  forall s : list N,
  s <> [] ->
  exists (k : option htk) (w r : text),
  hlex_one s = Some (k, w, r) /\ s = w ++ r /\ w <> [] /\ rule_matches hlex_rules k w.
Proof. exact hlex_one_no_error. Qed.


Check C09_parse_never_panics.
Print Assumptions C09_parse_never_panics.
Print Assumptions C09_parse_terminates.
Print Assumptions C09_error_spans_in_text.
Print Assumptions C09_error_spans_on_character_boundaries.
Print Assumptions C09_token_spans_on_character_boundaries.
Print Assumptions C09_every_token_matches_its_rule.
Print Assumptions C09_scanner_error_is_one_character_no_rule_matches.
