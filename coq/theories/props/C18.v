(* C18 - vars() reports the variables in scope at the row just yielded.
   Property theorems only; proofs in proofs/FramedMapProof.v, StmtCorollaries.v, IterLogProof.v. *)
From DTR Require Import Prelude I64 Ast FramedMap Lexer Parser Bind Eval Stmt Iter Script WfSpec.
From DTR.proofs Require Import FramedMapProof StmtCorollaries IterLogProof RunRefineE IterLogProofE VectorProof OutputsRunProof VarsRunProof.
Local Open Scope nat_scope.

(* vars() = the environment (stack of frames), innermost binding winning, as a finite map *)
Theorem C18_vars_is_innermost_wins : forall c x, ctx_wf c -> assoc x (ctx_vars c) = lookup (env c) x.
Proof. exact vars_is_innermost_wins. Qed.

Theorem C18_vars_keys_distinct : forall c, NoDup (map fst (ctx_vars c)).
Proof. exact vars_keys_distinct. Qed.

(* it reports exactly what a variable read in that environment returns *)
Theorem C18_vars_agrees_with_reads : forall c x, ctx_wf c -> assoc x (ctx_vars c) = fm_get (cvars c) x.
Proof. exact vars_agrees_with_reads. Qed.

(* variables of loops that have ended are absent, shadowed bindings are visible again *)
Theorem C18_ended_loop_is_gone : forall c (binds : list (name * Z)), ctx_wf c ->
  env (ctx_pop_frame (fold_left (fun acc kv => ctx_set acc (fst kv) (snd kv)) binds (ctx_push_frame c))) = env c.
Proof. exact loop_scope_is_dropped. Qed.

(* device outputs never appear in it *)
Theorem C18_no_outputs_in_vars : forall c outs, ctx_vars (ctx_set_outputs c outs) = ctx_vars c.
Proof. exact vars_ignores_outputs. Qed.

(* the IO of next() (driver call, set_outputs, virtual signals with their swap of the variable
   maps) leaves the variables exactly as row evaluation left them: what vars() shows after a
   yielded row is the environment in which that row was evaluated *)
Theorem C18_io_keeps_variables : forall (G : gen) (DE : Type) (D : driver DE) (w_default : bool) (tc : testcase)
  (fuel : nat) (st : istate),
  match inext G DE D w_default tc fuel st with
  | ItNone _ st' => get_row G tc fuel st = GRNone st' /\ calt (i_ctx st') = calt (i_ctx st)
  | ItRow _ _ st' =>
      exists er st1, get_row G tc fuel st = GRRow er st1 /\
        cvars (i_ctx st') = cvars (i_ctx st1) /\ calt (i_ctx st') = calt (i_ctx st)
  | ItErr _ _ st' =>
      calt (i_ctx st') = calt (i_ctx st) /\
      (exists st1, ((exists er, get_row G tc fuel st = GRRow er st1) \/
                    (exists x, get_row G tc fuel st = GRErr x st1)) /\
                   cvars (i_ctx st') = cvars (i_ctx st1))
  | _ => True
  end.
Proof. exact inext_vars. Qed.

(* RUN LEVEL, through error items: after every item of every run the context is well formed and vars() is the innermost-wins view of the frames with distinct keys, agreeing with what an expression would read - the per-context theorems above apply in every reachable state, no hypothesis on the test *)
Theorem C18_vars_after_each_item_of_every_run :
  forall (G : gen) (DE : Type) (D : driver DE) (w_default : bool) (tc : testcase) 
  (fuel n : nat) (st0 : istate),
  try_new DE D tc = NewOk DE st0 ->
  Forall (fun s : step DE => vars_view_ok (i_ctx (step_post DE s)))
  (steps_e G DE D w_default tc fuel n st0).
Proof. exact vars_after_each_item. Qed.

(* (for any calling pattern) *)
Theorem C18_vars_in_every_reachable_state :
  forall (G : gen) (DE : Type) (D : driver DE) (w_default : bool) (tc : testcase) (st : istate),
  reachable G DE D w_default tc st -> vars_view_ok (i_ctx st).
Proof. exact vars_in_every_reachable_state_any_fuel. Qed.

(* whatever becomes of a row's call - a row, a failed call, a refused answer, a failing declared signal - the variables afterwards are exactly those right after the row's entries were evaluated *)
Theorem C18_io_and_errors_leave_the_variables_alone :
  forall (G : gen) (DE : Type) (D : driver DE) (w_default : bool) (tc : testcase) 
  (fuel : nat) (st : istate) (er : evaluated_row) (st1 st' : istate),
  get_row G tc fuel st = GRRow er st1 ->
  VectorProof.next_state DE (inext G DE D w_default tc fuel st) = Some st' ->
  cvars (i_ctx st') = cvars (i_ctx st1) /\
  ctx_vars (i_ctx st') = ctx_vars (i_ctx st1) /\
  calt (i_ctx st') = calt (i_ctx st) /\ i_log st' = i_log st ++ [(call_kind w_default er, er_inputs er)].
Proof. exact vars_unchanged_when_called. Qed.

(* the variable map after the k-th item of the run is the one the sequential reading of the program (RunSpecE) has at its k-th item *)
Theorem C18_vars_agree_with_the_sequential_reading :
  forall (G : gen) (DE : Type) (D : driver DE) (w_default : bool) (tc : testcase) 
  (fuel n : nat) (st0 : istate) (items : list (item_view DE)) (st' : istate),
  try_new DE D tc = NewOk DE st0 ->
  (n >= 1)%nat ->
  collect_e G DE D w_default tc fuel n st0 = (items, Some st') ->
  exists (fuel' : nat) (tags : vtrace),
  vars_of DE (run_spec_v G DE D w_default tc fuel' n st0) = Some tags /\
  (forall (k : nat) (s : step DE),
  nth_error (steps_e G DE D w_default tc fuel n st0) k = Some s ->
  nth_error items k = Some (step_item DE s) /\
  nth_error tags k = Some (cvars (i_ctx (step_post DE s))) /\
  (forall x : name,
  FramedMapProof.assoc x (ctx_vars (i_ctx (step_post DE s))) =
  fm_get (cvars (i_ctx (step_post DE s))) x)).
Proof. exact vars_after_kth_item. Qed.



Check C18_vars_is_innermost_wins.
Example C18_example :
  let c := ctx_set (ctx_push_frame (ctx_set (ctx_new []) [97%N] 1%Z)) [97%N] 2%Z in
  ctx_vars c = [([97%N], 2%Z)] /\ ctx_vars (ctx_pop_frame c) = [([97%N], 1%Z)].
Proof. split; reflexivity. Qed.
Print Assumptions C18_vars_is_innermost_wins.
Print Assumptions C18_io_keeps_variables.
Print Assumptions C18_vars_after_each_item_of_every_run.
Print Assumptions C18_io_and_errors_leave_the_variables_alone.
Print Assumptions C18_vars_agree_with_the_sequential_reading.
