(* C03 - Outputs are attributed to the right signal and verdicts follow the X/Z rules.
   MODEL: Iter.build_output_indices (constructor) / Iter.extract_output_values (every checked row) /
   expected_check, or_is_checked, failing_outputs.  Property theorems only; proofs in
   proofs/OutputsProof.v.  (Statements below are printed by Coq from the lemmas.) *)
From DTR Require Import Prelude I64 Ast FramedMap Lexer Parser Bind Eval Stmt Iter WfSpec.
From DTR Require Import GeneratedTables.
From DTR.proofs Require Import EvalProof IterLogProof OutputsProof NoPanicProof ParserProof BindProof Chain TablesProof.
Local Open Scope nat_scope.

(* for EVERY first answer outs0 and EVERY later answer outs (no assumption on the driver): a reported value is either X for a signal the first answer did not contain, or the value THIS call reported for THIS signal *)
Theorem C03_no_misattribution :
  forall (G : gen) (tc : testcase) (outs0 : list out_entry) (nout : nat) (oi : list out_index)
  (outs : list out_entry) (c c' : ctx) (vals : list outval),
  build_output_indices tc outs0 = Ok oi ->
  extract_output_values G tc nout oi outs c = (c', Ok vals) ->
  Forall2
  (fun (idx : entry_index) (v : outval) =>
  match nth_error (tc_signals tc) (ei_signal_index idx) with
  | Some s =>
  match styp s with
  | TyVirtual _ => True
  | _ =>
  v = OX /\ (forall o : out_entry, In o outs0 -> oe_sig o <> s) \/
  (exists o : out_entry, In o outs /\ oe_sig o = s /\ v = oe_val o)
  end
  | None => True
  end) (tc_expected_indices tc) vals.
Proof. exact no_misattribution. Qed.

(* the layout being the same on every call: the value is the one the driver returned for that same signal in this call, whatever the order and whichever subset; X if never supplied *)
Theorem C03_attribution_under_stable_layout :
  forall (G : gen) (tc : testcase) (outs0 : list out_entry) (nout : nat) (oi : list out_index)
  (outs : list out_entry) (c c' : ctx) (vals : list outval),
  build_output_indices tc outs0 = Ok oi ->
  extract_output_values G tc nout oi outs c = (c', Ok vals) ->
  map oe_sig outs = map oe_sig outs0 ->
  Forall2
  (fun (idx : entry_index) (v : outval) =>
  match nth_error (tc_signals tc) (ei_signal_index idx) with
  | Some s =>
  match styp s with
  | TyVirtual _ => True
  | _ =>
  v =
  match find (fun o : out_entry => signal_eqb (oe_sig o) s) outs with
  | Some o => oe_val o
  | None => OX
  end
  end
  | None => True
  end) (tc_expected_indices tc) vals.
Proof. exact stable_layout_attribution. Qed.

(* an answer with the layout of the first answer passes the length check *)
Theorem C03_length_check_passes :
  forall (G : gen) (tc : testcase) (outs0 : list out_entry) (oi : list out_index)
  (outs : list out_entry) (c : ctx),
  map oe_sig outs = map oe_sig outs0 ->
  length outs = length outs0 /\
  extract_output_values G tc (length outs0) oi outs c =
  (ctx_swap_vars (fst (extract_loop G tc (combine (tc_expected_indices tc) oi) outs (ctx_swap_vars c))),
  snd (extract_loop G tc (combine (tc_expected_indices tc) oi) outs (ctx_swap_vars c))).
Proof. exact length_check_passes. Qed.

(* an entry passes iff expected is X, or Z with output Z, or both numbers and equal *)
Theorem C03_check_iff :
  forall (e : expval) (o : outval),
  expected_check e o = true <-> e = XX \/ e = XZ /\ o = OZ \/ (exists n : Z, e = XVal n /\ o = OVal n).
Proof. exact check_iff. Qed.

Theorem C03_check_false_iff :
  forall (e : expval) (o : outval),
  expected_check e o = false <-> e = XZ /\ o <> OZ \/ (exists n : Z, e = XVal n /\ o <> OVal n).
Proof. exact check_false_iff. Qed.

(* is_checked() is false exactly for expected X *)
Theorem C03_is_checked_iff :
  forall r : out_result, or_is_checked r = false <-> or_expected r = XX.
Proof. exact is_checked_iff. Qed.

Theorem C03_unchecked_always_passes :
  forall r : out_result, or_is_checked r = false -> or_check r = true.
Proof. exact unchecked_always_passes. Qed.

(* failing_outputs() is exactly the set of entries that do not pass *)
Theorem C03_failing_outputs_spec :
  forall (row : data_row) (r : out_result),
  In r (failing_outputs row) <-> In r (dr_outputs row) /\ or_check r = false.
Proof. exact failing_outputs_spec. Qed.

Theorem C03_failing_outputs_order :
  forall row : data_row,
  failing_outputs row = filter (fun r : out_result => negb (or_check r)) (dr_outputs row).
Proof. exact failing_outputs_order. Qed.

(* the row's output entries are the extracted values paired with the expected entries, column by column *)
Theorem C03_row_outputs_are_the_extracted_values :
  forall (row : evaluated_row) (vals : list outval),
  length (er_expected row) = length vals ->
  map or_output (dr_outputs (into_data_row row vals)) = vals /\
  map or_sig (dr_outputs (into_data_row row vals)) = map xe_sig (er_expected row) /\
  map or_expected (dr_outputs (into_data_row row vals)) = map xe_val (er_expected row).
Proof. exact into_data_row_outputs. Qed.

(* T1: the verdict function of the model is ExpectedValue::check of src/value.rs (pinned on every run) *)
Theorem C03_check_is_the_source : forall e o, expected_check e o = gen_expected_check e o.
Proof. exact expected_check_pinned. Qed.

Check C03_no_misattribution.
Example C03_example : expected_check (XVal (-1)) (OVal (-1)) = true /\ expected_check XZ OX = false /\ expected_check XX OZ = true.
Proof. repeat split. Qed.
Print Assumptions C03_no_misattribution.
Print Assumptions C03_attribution_under_stable_layout.
Print Assumptions C03_check_iff.
