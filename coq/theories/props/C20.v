(* C20 - Layout is irrelevant: whitespace, comments and literal radix do not change rows.
   Lexer level (proved here): the token sequence seen by the parser - kinds and texts, not spans -
   is unchanged by changing the amount of blank space where there is some, by inserting blank space
   at a line end / text end / next to blank space / before a comment, and by appending a comment to
   a line; integer literals of equal value in another radix convert to the same number (C08).
   Parser level (proofs/ParserLayoutProof.v, ParserBlankLineProof.v): the parser looks at kinds and
   texts only (C20_parse_layout); an inserted blank line only shifts `line` of the rows below it.
   Property theorems only; proofs in proofs/LexerProof.v, RadixProof.v. *)
From DTR Require Import Prelude I64 Ast FramedMap Lexer LexSpec Parser Show.
From DTR Require Import Generated GeneratedTables.
From DTR.proofs Require Import LexSpecProof LexerProof RadixProof TablesProof TablesProofLex ExprRoundTrip GrammarComplete ShowLex ShowParse ShowPrintable ShowRoundTrip ParserProof ParserLinesProof ParserLayoutProof ParserBlankLineProof.
From Coq Require Import String.
Local Open Scope N_scope.

Theorem C20_blank_run_irrelevant : forall u w1 w2 v, blank w1 -> blank w2 ->
  lex_view (u ++ w1 ++ v) = lex_view (u ++ w2 ++ v).
Proof. exact lex_view_blank_run. Qed.

Theorem C20_blank_insert_at_separator : forall u w v, all_ws w ->
  (u = [] \/ (exists u' c, u = u' ++ [c] /\ is_sep c = true)) \/
  v = [] \/ (exists c v', v = c :: v' /\ is_sep c = true) ->
  lex_view (u ++ w ++ v) = lex_view (u ++ v).
Proof. exact lex_view_blank_insert. Qed.

Theorem C20_blank_before_comment_or_line_end : forall u w v, all_ws w -> stops v = true ->
  lex_view (u ++ w ++ v) = lex_view (u ++ v).
Proof. exact lex_view_blank_insert_before_stop. Qed.

Theorem C20_comment_irrelevant : forall u cs v, Forall (fun c => is_nl c = false) cs ->
  lex_view (u ++ 35 :: cs ++ 10 :: v) = lex_view (u ++ 10 :: v) /\
  lex_view (u ++ 35 :: cs) = lex_view u.
Proof. exact lex_view_comment. Qed.

(* lex_view is what lex_body produces, spans dropped *)
Theorem C20_lex_view_is_the_lexer : forall pos s ts, lex_body pos s = Some ts -> view ts = lex_view s.
Proof. exact lex_view_spec. Qed.

(* literal radix: the value only depends on the digit values, not on radix prefix case or letter case *)
Theorem C20_radix_value : forall radix casing ds, (2 <= radix <= 36)%N -> ds <> [] -> List.length casing = List.length ds ->
  Forall (fun d => d < radix)%N ds ->
  from_str_radix (spell casing ds) radix = if (value radix ds <? 2 ^ 63)%N then Some (Z.of_N (value radix ds)) else None.
Proof. exact radix_value. Qed.

(* the side condition of the insertion theorem is necessary: blank space inside a token splits it *)
Example C20_blank_separates : lex_view (s2n "a b"%string) <> lex_view (s2n "ab"%string).
Proof. vm_compute. discriminate. Qed.

(* ---- T1: the scanner model has exactly the keywords and punctuation tokens of src/lexer/token.rs (GeneratedTables.v is
   regenerated from it on every run; the regular expressions are tied semantically, see the LexSpec theorems) *)
Theorem C20_keywords_are_the_source : incl keywords gen_keywords /\ incl gen_keywords keywords.
Proof. exact keywords_pinned. Qed.
Theorem C20_punctuation_is_the_source : forallb (fun p =>
    match lex_one ((s2n (fst p) ++ [32%N])%list) with
    | Some (Some k, w, r) => tk_beq k (snd p) && name_eqb w (s2n (fst p)) && name_eqb r [32%N]
    | _ => false
    end) gen_punct = true.
Proof. exact punct_tokens_lexed. Qed.

(* THE parser-level property: two texts with the same header names, the same line of the first body line and the same token view (kinds and texts) of their bodies parse alike: same statements incl. lines, same names read / clocked / declared, or the same kind of error *)
Theorem C20_parse_layout :
  forall (s1 s2 : text) (h1 h2 : header),
  parse_header s1 = Ok h1 ->
  parse_header s2 = Ok h2 ->
  h_names h1 = h_names h2 ->
  h_line h1 = h_line h2 ->
  lex_view (h_rest h1) = lex_view (h_rest h2) ->
  match parse s1 with
  | Ok p1 =>
  match parse s2 with
  | Ok p2 =>
  p_stmts p1 = p_stmts p2 /\
  p_signals p1 = p_signals p2 /\
  map fst (p_expected_inputs p1) = map fst (p_expected_inputs p2) /\
  map fst (p_read_outputs p1) = map fst (p_read_outputs p2) /\
  map (fun v : name * expr * span => fst v) (p_virtuals p1) =
  map (fun v : name * expr * span => fst v) (p_virtuals p2)
  | _ => False
  end
  | Err e1 => match parse s2 with
  | Err e2 => pe_kind e1 = pe_kind e2
  | _ => False
  end
  | _ => False
  end.
Proof. exact C20_parse_layout. Qed.

(* the parser never looks at spans (st_eqv: same token view, same bookkeeping up to spans) *)
Theorem C20_block_layout :
  forall (il1 il2 : N) (hdr : list name) (fuel : nat) (end_token : option tk) 
  (block : list stmt) (st1 st2 : pstate),
  st_eqv st1 st2 ->
  res_eqv eq (parse_block_loop il1 hdr fuel end_token block st1)
  (parse_block_loop il2 hdr fuel end_token block st2).
Proof. exact block_layout. Qed.

(* inserting a blank line right after the header: every row line grows by one, nothing else changes *)
Theorem C20_blank_line_at_start :
  forall (s1 s2 : text) (h1 h2 : header),
  parse_header s1 = Ok h1 ->
  parse_header s2 = Ok h2 ->
  h_names h1 = h_names h2 ->
  h_line h1 = h_line h2 ->
  h_rest h2 = 10%N :: h_rest h1 ->
  match parse s1 with
  | Ok p1 =>
  match parse s2 with
  | Ok p2 =>
  p_stmts p2 = bump_block (h_line h1) (p_stmts p1) /\
  p_signals p2 = p_signals p1 /\
  map fst (p_expected_inputs p2) = map fst (p_expected_inputs p1) /\
  map fst (p_read_outputs p2) = map fst (p_read_outputs p1) /\
  map (fun v : name * expr * span => fst v) (p_virtuals p2) =
  map (fun v : name * expr * span => fst v) (p_virtuals p1)
  | _ => False
  end
  | Err e1 => match parse s2 with
  | Err e2 => pe_kind e1 = pe_kind e2
  | _ => False
  end
  | _ => False
  end.
Proof. exact C20_blank_line_at_start. Qed.

(* inserting a blank line after any line end of the body: the lines of the rows below it grow by one, nothing else changes *)
Theorem C20_blank_line_after_newline :
  forall (s1 s2 : text) (h1 h2 : header) (u v : list N),
  parse_header s1 = Ok h1 ->
  parse_header s2 = Ok h2 ->
  h_names h1 = h_names h2 ->
  h_line h1 = h_line h2 ->
  h_rest h1 = u ++ 10%N :: v ->
  h_rest h2 = u ++ 10%N :: 10%N :: v ->
  match parse s1 with
  | Ok p1 =>
  match parse s2 with
  | Ok p2 =>
  p_stmts p2 = bump_block (h_line h1 + N.of_nat (count_nl u) + 1) (p_stmts p1) /\
  p_signals p2 = p_signals p1 /\
  map fst (p_expected_inputs p2) = map fst (p_expected_inputs p1) /\
  map fst (p_read_outputs p2) = map fst (p_read_outputs p1) /\
  map (fun v0 : name * expr * span => fst v0) (p_virtuals p2) =
  map (fun v0 : name * expr * span => fst v0) (p_virtuals p1)
  | _ => False
  end
  | Err e1 => match parse s2 with
  | Err e2 => pe_kind e1 = pe_kind e2
  | _ => False
  end
  | _ => False
  end.
Proof. exact C20_blank_line_after_newline. Qed.
(* the regular expressions of src/lexer/token.rs (generated tables gen_regexes / gen_header_regexes, re-read from the source on every run): parse_re understands every one of them *)
Theorem C20_regexes_of_the_source_parse :
  forallb (fun p : string * string => match parse_re (snd p) with
  | Some _ => true
  | None => false
  end) (gen_regexes ++ gen_header_regexes) = true.
Proof. exact parse_re_all_some. Qed.

(* regular expressions are compared in a NORMAL FORM (classes sorted and merged, alternations of classes folded, e+ = e e*, concatenations flattened) that matches exactly the same texts *)
Theorem C20_normal_form_is_sound :
  forall (e : re) (w : text), re_matches (norm e) w <-> re_matches e w.
Proof. exact norm_sound. Qed.

(* the rule table of the statement lexer is COMPUTED from the generated tables (regexes through parse_re and norm, keywords and punctuation as literal texts); as a set it is the canonical table the proofs were written for - whatever the spelling of the regexes and the order of the declarations in the source *)
Theorem C20_scanner_rules_are_the_source :
  forall (k : option tk) (e : re), In (k, e) lex_rules <-> In (k, e) canonical_lex_rules.
Proof. exact lex_rules_canon. Qed.

(* matching a rule of the normalised table = matching a rule of the table as parsed *)
Theorem C20_scanner_rules_normalised_or_not :
  forall (k : option tk) (w : text), rule_matches lex_rules k w <-> rule_matches raw_lex_rules k w.
Proof. exact lex_rules_raw. Qed.

(* each regex of the source, as parsed, is one of the rules *)
Theorem C20_every_source_regex_is_a_rule :
  forall (n s : string) (k : option tk) (e : re),
  In (n, s) gen_regexes ->
  regex_kind n = Some k ->
  parse_re s = Some e ->
  In (k, e) raw_lex_rules /\
  In (k, norm e) lex_rules /\ (forall w : text, re_matches e w -> rule_matches lex_rules k w).
Proof. exact gen_regex_rule. Qed.

(* e.g. these spellings have the same normal form ... *)
Theorem C20_respelling_a_class_changes_nothing :
  option_map norm (parse_re "0[xX][a-fA-F0-9]+") = option_map norm (parse_re "0[xX][0-9a-fA-F]+").
Proof. exact respell_hex. Qed.

Theorem C20_respelling_ident_changes_nothing :
  option_map norm (parse_re "[A-Za-z_][A-Za-z_\d]*") =
  option_map norm (parse_re "[A-Za-z_]([A-Za-z]|_|\d)*").
Proof. exact respell_ident. Qed.

Theorem C20_respelling_plus_changes_nothing :
  option_map norm (parse_re "0[bB][01][01]*") = option_map norm (parse_re "0[bB][01]+").
Proof. exact respell_bin. Qed.

(* ... but \d for [0-9] is a different language (U+0661 after a 1) *)
Theorem C20_respelling_with_unicode_digits_does :
  forall e1 e2 : re,
  parse_re "[1-9]\d*" = Some e1 ->
  parse_re "[1-9][0-9]*" = Some e2 -> re_matches e1 [49; 1633] /\ ~ re_matches e2 [49; 1633].
Proof. exact respell_dec_not_sem. Qed.


(* the same for the header line: its rule table from the source's HeaderTokenKind *)
Theorem C20_header_scanner_rules_are_the_source :
  forall (k : option htk) (e : re), In (k, e) hlex_rules <-> In (k, e) canonical_hlex_rules.
Proof. exact hlex_rules_canon. Qed.

(* one step of the scanner splits the text into a non-empty lexeme and the rest (so lexing terminates), and stops only at the end *)
Theorem C20_scanner_partition :
  forall s : text,
  (forall (k : option tk) (w r : text), lex_one s = Some (k, w, r) -> s = w ++ r /\ w <> []) /\
  (lex_one s = None <-> s = []).
Proof. exact lex_one_partition. Qed.

(* the lexeme of every token (and of every skipped blank run / comment) is matched by the rule of that kind in the source's table ... *)
Theorem C20_scanner_token_matches_its_rule :
  forall (s : text) (k : option tk) (w r : text),
  lex_one s = Some (k, w, r) -> k <> Some TError -> rule_matches lex_rules k w.
Proof. exact lex_one_sound. Qed.

(* ... and it is the LONGEST prefix any rule of the table matches (maximal munch), for every text *)
Theorem C20_scanner_is_longest_match :
  forall (s : text) (k : option tk) (w r : text),
  lex_one s = Some (k, w, r) ->
  k <> Some TError ->
  forall (k' : option tk) (w' : text) (r' : list N),
  rule_matches lex_rules k' w' -> s = w' ++ r' -> (Datatypes.length w' <= Datatypes.length w)%nat.
Proof. exact lex_one_longest. Qed.

(* an Error token is one character, at a position where no rule matches any non-empty prefix *)
Theorem C20_scanner_error_only_where_no_rule_matches :
  forall s w r : text,
  lex_one s = Some (Some TError, w, r) ->
  (exists c : N, w = [c]) /\
  (forall (k' : option tk) (w' r' : list N), s = w' ++ r' -> w' <> [] -> ~ rule_matches lex_rules k' w').
Proof. exact LexSpecProof.lex_one_error. Qed.

(* ties: a lexeme matched by two rules gets the keyword's kind rather than Ident - except for the one documented quirk of the generated automaton (keyword followed by a non-ASCII character whose lead byte starts some Unicode digit) *)
Theorem C20_scanner_priority :
  forall (s : text) (k : tk) (w r : text) (k' : tk),
  lex_one s = Some (Some k, w, r) ->
  rule_matches lex_rules (Some k') w ->
  k' = k \/ keyword_kind k /\ k' = TIdent \/ k = TIdent /\ In (w, k') gen_keywords /\ nd_lead_quirk r.
Proof. exact lex_one_priority. Qed.

(* a token's lexeme is never also a blank run or a comment *)
Theorem C20_scanner_tokens_are_not_blank :
  forall (s : text) (k : tk) (w r : text),
  lex_one s = Some (Some k, w, r) -> ~ rule_matches lex_rules None w.
Proof. exact lex_one_not_skipped. Qed.

(* a keyword's text lexes as that keyword unless the quirk applies ... *)
Theorem C20_scanner_keyword :
  forall (s : text) (k : tk) (w r : text) (kk : tk),
  lex_one s = Some (Some k, w, r) -> In (w, kk) gen_keywords -> ~ nd_lead_quirk r -> k = kk.
Proof. exact lex_one_keyword. Qed.

(* ... and as Ident when it does, *)
Theorem C20_scanner_keyword_quirk :
  forall (s : text) (k : tk) (w r : text) (kk : tk),
  lex_one s = Some (Some k, w, r) -> In (w, kk) gen_keywords -> nd_lead_quirk r -> k = TIdent.
Proof. exact lex_one_keyword_quirk. Qed.

(* which really happens (loop directly followed by U+1F600; that text is rejected either way: the next token is Error) *)
Theorem C20_scanner_quirk_occurs :
  lex_one (s2n "loop" ++ [128512]) = Some (Some TIdent, s2n "loop", [128512]) /\
  nd_lead_quirk [128512] /\ lex_one [128512] = Some (Some TError, [128512], []).
Proof. exact quirk_occurs. Qed.

Theorem C20_header_scanner_partition :
  forall s : text,
  (forall (k : option htk) (w r : text), hlex_one s = Some (k, w, r) -> s = w ++ r /\ w <> []) /\
  (hlex_one s = None <-> s = []).
Proof. exact hlex_one_partition. Qed.

Theorem C20_header_scanner_token_matches_its_rule :
  forall (s : text) (k : option htk) (w r : text),
  hlex_one s = Some (k, w, r) -> rule_matches hlex_rules k w.
Proof. exact hlex_one_sound. Qed.

Theorem C20_header_scanner_is_longest_match :
  forall (s : text) (k : option htk) (w r : text),
  hlex_one s = Some (k, w, r) ->
  forall (k' : option htk) (w' : text) (r' : list N),
  rule_matches hlex_rules k' w' -> s = w' ++ r' -> (Datatypes.length w' <= Datatypes.length w)%nat.
Proof. exact hlex_one_longest. Qed.

(* the header rules never match the same text, so no priorities are involved *)
Theorem C20_header_scanner_rules_disjoint :
  forall (k1 k2 : option htk) (w : text),
  rule_matches hlex_rules k1 w -> rule_matches hlex_rules k2 w -> k1 = k2.
Proof. exact hlex_rules_disjoint_kinds. Qed.

(* every non-empty text starts with a token of the header table (no header character is an error) *)
Theorem C20_header_scanner_total :
  forall s : list N,
  s <> [] ->
  exists (k : option htk) (w r : text),
  hlex_one s = Some (k, w, r) /\ s = w ++ r /\ w <> [] /\ rule_matches hlex_rules k w.
Proof. exact hlex_one_no_error. Qed.



(* every accepted text has a CANONICAL LAYOUT - its header line followed by the crate's own Display rendering of the parsed statements (Show.show_prog models impl Display for Stmt / DataEntry / Expr character for character and is what the correspondence compares, PROG lines) - and that layout parses back to the same statements (up to the recorded line numbers) and the same header *)
Theorem C20_canonical_layout :
  forall (s : text) (p : parsed),
  parse s = Ok p ->
  exists p' : parsed,
  parse (header_text_of s ++ show_prog (p_stmts p)) = Ok p' /\
  strip_lines (p_stmts p') = strip_lines (p_stmts p) /\ p_signals p' = p_signals p.
Proof. exact projection. Qed.

(* print-then-parse for any printable statement list under any header *)
Theorem C20_print_then_parse :
  forall (hdr : text) (names : list name) (ss : list stmt),
  is_header hdr names ->
  printable_prog (Datatypes.length names) ss ->
  exists p : parsed,
  parse (hdr ++ show_prog ss) = Ok p /\
  strip_lines (p_stmts p) = strip_lines ss /\ p_signals p = names.
Proof. exact print_then_parse. Qed.

(* what the parser returns is printable *)
Theorem C20_accepted_programs_are_printable :
  forall (s : text) (p : parsed),
  parse s = Ok p -> printable_prog (Datatypes.length (p_signals p)) (p_stmts p).
Proof. exact parse_printable. Qed.

(* decimal printing reads back *)
Theorem C20_decimal_printing_reads_back :
  forall n : Z, (0 <= n < 2 ^ 63)%Z -> from_str_radix (show_z n) 10 = Some n.
Proof. exact show_z_reads_back. Qed.




Check C20_parse_layout.
Check C20_blank_run_irrelevant.
Print Assumptions C20_blank_run_irrelevant.
Print Assumptions C20_comment_irrelevant.
Print Assumptions C20_parse_layout.
Print Assumptions C20_blank_line_after_newline.
Print Assumptions C20_scanner_rules_are_the_source.
Print Assumptions C20_normal_form_is_sound.
Print Assumptions C20_respelling_with_unicode_digits_does.
Print Assumptions C20_scanner_token_matches_its_rule.
Print Assumptions C20_scanner_is_longest_match.
Print Assumptions C20_scanner_error_only_where_no_rule_matches.
Print Assumptions C20_scanner_priority.
Print Assumptions C20_header_scanner_is_longest_match.
Print Assumptions C20_header_scanner_total.
Print Assumptions C20_canonical_layout.
Print Assumptions C20_print_then_parse.
