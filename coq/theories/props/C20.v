(* C20 - Layout is irrelevant: whitespace, comments and literal radix do not change rows.
   Lexer level (proved here): the token sequence seen by the parser - kinds and texts, not spans -
   is unchanged by changing the amount of blank space where there is some, by inserting blank space
   at a line end / text end / next to blank space / before a comment, and by appending a comment to
   a line; integer literals of equal value in another radix convert to the same number (C08).
   Parser level (proofs/ParserLayoutProof.v, ParserBlankLineProof.v): the parser looks at kinds and
   texts only (C20_parse_layout); an inserted blank line only shifts `line` of the rows below it.
   Property theorems only; proofs in proofs/LexerProof.v, RadixProof.v. *)
From DTR Require Import Prelude I64 Ast FramedMap Lexer Parser.
From DTR Require Import Generated GeneratedTables.
From DTR.proofs Require Import LexerProof RadixProof TablesProof ParserProof ParserLinesProof ParserLayoutProof ParserBlankLineProof.
From Coq Require Import String.
Local Open Scope N_scope.

Theorem C20_blank_run_irrelevant : forall u w1 w2 v, blank w1 -> blank w2 ->
  lex_view (u ++ w1 ++ v) = lex_view (u ++ w2 ++ v).
Proof. exact lex_view_blank_run. Qed.

Theorem C20_blank_insert_at_separator : forall u w v, all_ws w ->
  (u = [] \/ (exists u' c, u = u' ++ [c] /\ is_sep c = true)) \/
  v = [] \/ (exists c v', v = c :: v' /\ is_sep c = true) ->
  lex_view (u ++ w ++ v) = lex_view (u ++ v).
Proof. exact lex_view_blank_insert. Qed.

Theorem C20_blank_before_comment_or_line_end : forall u w v, all_ws w -> stops v = true ->
  lex_view (u ++ w ++ v) = lex_view (u ++ v).
Proof. exact lex_view_blank_insert_before_stop. Qed.

Theorem C20_comment_irrelevant : forall u cs v, Forall (fun c => is_nl c = false) cs ->
  lex_view (u ++ 35 :: cs ++ 10 :: v) = lex_view (u ++ 10 :: v) /\
  lex_view (u ++ 35 :: cs) = lex_view u.
Proof. exact lex_view_comment. Qed.

(* lex_view is what lex_body produces, spans dropped *)
Theorem C20_lex_view_is_the_lexer : forall pos s ts, lex_body pos s = Some ts -> view ts = lex_view s.
Proof. exact lex_view_spec. Qed.

(* literal radix: the value only depends on the digit values, not on radix prefix case or letter case *)
Theorem C20_radix_value : forall radix casing ds, (2 <= radix <= 36)%N -> ds <> [] -> List.length casing = List.length ds ->
  Forall (fun d => d < radix)%N ds ->
  from_str_radix (spell casing ds) radix = if (value radix ds <? 2 ^ 63)%N then Some (Z.of_N (value radix ds)) else None.
Proof. exact radix_value. Qed.

(* the side condition of the insertion theorem is necessary: blank space inside a token splits it *)
Example C20_blank_separates : lex_view (s2n "a b"%string) <> lex_view (s2n "ab"%string).
Proof. vm_compute. discriminate. Qed.

(* ---- T1: the scanner model was written for exactly the tokens and regular expressions of
   src/lexer/token.rs (GeneratedTables.v is regenerated from it on every run) *)
Theorem C20_lexer_regexes_are_the_source : gen_regexes =
  [ ("Ident", "[A-Za-z_]([A-Za-z]|_|\d)*"); ("DecInt", "[1-9][0-9]*"); ("HexInt", "0[xX][0-9a-fA-F]+");
    ("BinInt", "0[bB][01]+"); ("OctInt", "0[0-7]*"); ("WS", "[ \t\r\f]+"); ("Comment", "#[^\n]*") ]%string.
Proof. exact regexes_pinned. Qed.
Theorem C20_header_lexer_regexes_are_the_source :
  gen_header_regexes = [ ("SignalName", "[^ \t\r\f\n]+"); ("WS", "[ \t\r\f]+") ]%string /\
  gen_header_tokens = [ ("Eol", "\n") ]%string.
Proof. exact header_regexes_pinned. Qed.
Theorem C20_keywords_are_the_source : keywords = gen_keywords.
Proof. exact keywords_pinned. Qed.
Theorem C20_punctuation_is_the_source : forallb (fun p =>
    match lex_one ((s2n (fst p) ++ [32%N])%list) with
    | Some (Some k, w, r) => tk_beq k (snd p) && name_eqb w (s2n (fst p)) && name_eqb r [32%N]
    | _ => false
    end) gen_punct = true.
Proof. exact punct_tokens_lexed. Qed.

(* THE parser-level property: two texts with the same header names, the same line of the first body line and the same token view (kinds and texts) of their bodies parse alike: same statements incl. lines, same names read / clocked / declared, or the same kind of error *)
Theorem C20_parse_layout :
  forall (s1 s2 : text) (h1 h2 : header),
  parse_header s1 = Ok h1 ->
  parse_header s2 = Ok h2 ->
  h_names h1 = h_names h2 ->
  h_line h1 = h_line h2 ->
  lex_view (h_rest h1) = lex_view (h_rest h2) ->
  match parse s1 with
  | Ok p1 =>
  match parse s2 with
  | Ok p2 =>
  p_stmts p1 = p_stmts p2 /\
  p_signals p1 = p_signals p2 /\
  map fst (p_expected_inputs p1) = map fst (p_expected_inputs p2) /\
  map fst (p_read_outputs p1) = map fst (p_read_outputs p2) /\
  map (fun v : name * expr * span => fst v) (p_virtuals p1) =
  map (fun v : name * expr * span => fst v) (p_virtuals p2)
  | _ => False
  end
  | Err e1 => match parse s2 with
  | Err e2 => pe_kind e1 = pe_kind e2
  | _ => False
  end
  | _ => False
  end.
Proof. exact C20_parse_layout. Qed.

(* the parser never looks at spans (st_eqv: same token view, same bookkeeping up to spans) *)
Theorem C20_block_layout :
  forall (il1 il2 : N) (hdr : list name) (fuel : nat) (end_token : option tk) 
  (block : list stmt) (st1 st2 : pstate),
  st_eqv st1 st2 ->
  res_eqv eq (parse_block_loop il1 hdr fuel end_token block st1)
  (parse_block_loop il2 hdr fuel end_token block st2).
Proof. exact block_layout. Qed.

(* inserting a blank line right after the header: every row line grows by one, nothing else changes *)
Theorem C20_blank_line_at_start :
  forall (s1 s2 : text) (h1 h2 : header),
  parse_header s1 = Ok h1 ->
  parse_header s2 = Ok h2 ->
  h_names h1 = h_names h2 ->
  h_line h1 = h_line h2 ->
  h_rest h2 = 10%N :: h_rest h1 ->
  match parse s1 with
  | Ok p1 =>
  match parse s2 with
  | Ok p2 =>
  p_stmts p2 = bump_block (h_line h1) (p_stmts p1) /\
  p_signals p2 = p_signals p1 /\
  map fst (p_expected_inputs p2) = map fst (p_expected_inputs p1) /\
  map fst (p_read_outputs p2) = map fst (p_read_outputs p1) /\
  map (fun v : name * expr * span => fst v) (p_virtuals p2) =
  map (fun v : name * expr * span => fst v) (p_virtuals p1)
  | _ => False
  end
  | Err e1 => match parse s2 with
  | Err e2 => pe_kind e1 = pe_kind e2
  | _ => False
  end
  | _ => False
  end.
Proof. exact C20_blank_line_at_start. Qed.

(* inserting a blank line after any line end of the body: the lines of the rows below it grow by one, nothing else changes *)
Theorem C20_blank_line_after_newline :
  forall (s1 s2 : text) (h1 h2 : header) (u v : list N),
  parse_header s1 = Ok h1 ->
  parse_header s2 = Ok h2 ->
  h_names h1 = h_names h2 ->
  h_line h1 = h_line h2 ->
  h_rest h1 = u ++ 10%N :: v ->
  h_rest h2 = u ++ 10%N :: 10%N :: v ->
  match parse s1 with
  | Ok p1 =>
  match parse s2 with
  | Ok p2 =>
  p_stmts p2 = bump_block (h_line h1 + N.of_nat (count_nl u) + 1) (p_stmts p1) /\
  p_signals p2 = p_signals p1 /\
  map fst (p_expected_inputs p2) = map fst (p_expected_inputs p1) /\
  map fst (p_read_outputs p2) = map fst (p_read_outputs p1) /\
  map (fun v0 : name * expr * span => fst v0) (p_virtuals p2) =
  map (fun v0 : name * expr * span => fst v0) (p_virtuals p1)
  | _ => False
  end
  | Err e1 => match parse s2 with
  | Err e2 => pe_kind e1 = pe_kind e2
  | _ => False
  end
  | _ => False
  end.
Proof. exact C20_blank_line_after_newline. Qed.



Check C20_parse_layout.
Check C20_blank_run_irrelevant.
Print Assumptions C20_blank_run_irrelevant.
Print Assumptions C20_comment_irrelevant.
Print Assumptions C20_parse_layout.
Print Assumptions C20_blank_line_after_newline.
