(* C13 - Driver failures and contract violations surface as errors, never as wrong rows.
   Property theorems only; proofs in proofs/IterLogProof.v, OutputsProof.v.
   Genuine defect found while proving (fixed in /repo by d850e2a): a first answer containing an
   entry that is not an expected signal, followed by a shorter answer, indexed out of bounds. *)
From DTR Require Import Prelude I64 Ast FramedMap Lexer Parser Bind Eval Stmt Iter Script Static WfSpec.
From DTR.proofs Require Import EvalProof IterLogProof OutputsProof NoPanicProof ParserProof BindProof Chain DeterminismProof RunRefineE DeterminismProofE FaultTransparency.
Local Open Scope nat_scope.

(* one next(): if the driver returns an error from the call made for a row, that very error value is the item for exactly that row (see the IE_Driver case: D (log) (kind, inputs of this row) = DrvErr e); the other cases account for every call (C02) *)
Theorem C13_driver_error_reaches_caller :
  forall (G : gen) (DE : Type) (D : driver DE) (w_default : bool) (tc : testcase) 
  (fuel : nat) (st : istate),
  match inext G DE D w_default tc fuel st with
  | ItNone _ st' => i_log st' = i_log st
  | ItRow _ row st' =>
  exists (er : evaluated_row) (st1 : istate),
  get_row G tc fuel st = GRRow er st1 /\
  dr_inputs row = er_inputs er /\
  dr_line row = er_line er /\
  (let kind := if er_update_output er then RW else if w_default then RW else WO in
  i_log st' = i_log st ++ [(kind, dr_inputs row)] /\
  (exists outs : list out_entry, D (i_log st) (kind, dr_inputs row) = DrvOk outs) /\
  (er_update_output er = false -> dr_outputs row = []))
  | ItErr _ (IE_Driver e) st' =>
  exists (er : evaluated_row) (st1 : istate) (kind : callkind),
  get_row G tc fuel st = GRRow er st1 /\
  i_log st' = i_log st ++ [(kind, er_inputs er)] /\ D (i_log st) (kind, er_inputs er) = DrvErr e
  | ItErr _ (IE_Runtime r) st' =>
  i_log st' = i_log st /\ (exists x : xerr, r = RT_Expr x) \/
  (exists (er : evaluated_row) (st1 : istate) (outs : list out_entry),
  get_row G tc fuel st = GRRow er st1 /\
  er_update_output er = true /\
  i_log st' = i_log st ++ [(RW, er_inputs er)] /\ D (i_log st) (RW, er_inputs er) = DrvOk outs)
  | _ => True
  end.
Proof. exact inext_calls. Qed.

(* the initial call: its error is the constructor's error, after exactly that one call *)
Theorem C13_constructor_error_reaches_caller :
  forall (DE : Type) (D : driver DE) (tc : testcase),
  match try_new DE D tc with
  | NewOk _ st =>
  exists (ins : list in_entry) (outs : list out_entry),
  generate_default_input_entries tc = Ok ins /\
  i_log st = [(RW, ins)] /\
  D [] (RW, ins) = DrvOk outs /\
  couts (i_ctx st) = outs_map outs /\ i_cache st = [] /\ i_prev st = None
  | NewErr _ (IE_Driver e) log =>
  exists ins : list in_entry,
  generate_default_input_entries tc = Ok ins /\ log = [(RW, ins)] /\ D [] (RW, ins) = DrvErr e
  | NewErr _ (IE_Runtime _) log =>
  log = [] \/
  (exists (ins : list in_entry) (outs : list out_entry),
  log = [(RW, ins)] /\ D [] (RW, ins) = DrvOk outs)
  | NewPanic _ _ => True
  end.
Proof. exact try_new_calls. Qed.

(* no row that is returned ever attributes to a signal a value the driver reported for a different signal: for EVERY driver answer *)
Theorem C13_no_misattribution :
  forall (G : gen) (tc : testcase) (outs0 : list out_entry) (nout : nat) (oi : list out_index)
  (outs : list out_entry) (c c' : ctx) (vals : list outval),
  build_output_indices tc outs0 = Ok oi ->
  extract_output_values G tc nout oi outs c = (c', Ok vals) ->
  Forall2
  (fun (idx : entry_index) (v : outval) =>
  match nth_error (tc_signals tc) (ei_signal_index idx) with
  | Some s =>
  match styp s with
  | TyVirtual _ => True
  | _ =>
  v = OX /\ (forall o : out_entry, In o outs0 -> oe_sig o <> s) \/
  (exists o : out_entry, In o outs /\ oe_sig o = s /\ v = oe_val o)
  end
  | None => True
  end) (tc_expected_indices tc) vals.
Proof. exact no_misattribution. Qed.

(* first answer = distinct expected signals of the test; a later answer with a different number or order of outputs (drop, add, duplicate, swap, substitute) never yields a row *)
Theorem C13_layout_deviation_is_error :
  forall (G : gen) (tc : testcase) (outs0 : list out_entry) (oi : list out_index)
  (outs : list out_entry),
  build_output_indices tc outs0 = Ok oi ->
  NoDup (map oe_sig outs0) ->
  (forall o : out_entry,
  In o outs0 ->
  exists idx : entry_index,
  In idx (tc_expected_indices tc) /\
  nth_error (tc_signals tc) (ei_signal_index idx) = Some (oe_sig o) /\ is_virtual (oe_sig o) = false) ->
  map oe_sig outs <> map oe_sig outs0 ->
  forall (c c' : ctx) (vals : list outval),
  extract_output_values G tc (length outs0) oi outs c <> (c', Ok vals).
Proof. exact layout_deviation_is_error. Qed.

(* ... it yields one of these errors (never a panic) *)
Theorem C13_layout_deviation_error_kind :
  forall (G : gen) (tc : testcase) (outs0 : list out_entry) (oi : list out_index)
  (outs : list out_entry) (c : ctx),
  build_output_indices tc outs0 = Ok oi ->
  NoDup (map oe_sig outs0) ->
  (forall o : out_entry,
  In o outs0 ->
  exists idx : entry_index,
  In idx (tc_expected_indices tc) /\
  nth_error (tc_signals tc) (ei_signal_index idx) = Some (oe_sig o) /\ is_virtual (oe_sig o) = false) ->
  (forall (s : signal) (e : expr), In s (tc_signals tc) -> styp s = TyVirtual e -> wf_expr e) ->
  map oe_sig outs <> map oe_sig outs0 ->
  exists e : rterr,
  snd (extract_output_values G tc (length outs0) oi outs c) = Err e /\
  (e = RT_WrongNumberOfOutputs (N.of_nat (length outs0)) (N.of_nat (length outs)) \/
  e = RT_WrongOutputOrder \/ (exists x : xerr, e = RT_Expr x)).
Proof. exact layout_deviation_error_kind. Qed.

(* a different NUMBER of outputs than in the first answer is always an error, whatever the answers contain (after fix a7fa656) *)
Theorem C13_length_deviation_is_error :
  forall (G : gen) (tc : testcase) (outs0 : list out_entry) (oi : list out_index)
  (outs : list out_entry) (c : ctx),
  length outs <> length outs0 ->
  extract_output_values G tc (length outs0) oi outs c =
  (c, Err (RT_WrongNumberOfOutputs (N.of_nat (length outs0)) (N.of_nat (length outs)))).
Proof. exact length_deviation_is_error. Qed.

(* a returned row means: same length as the first answer, and every signal the test expects still sits at its position *)
Theorem C13_tracked_positions_preserved :
  forall (G : gen) (tc : testcase) (outs0 : list out_entry) (oi : list out_index)
  (outs : list out_entry) (c c' : ctx) (vals : list outval),
  build_output_indices tc outs0 = Ok oi ->
  extract_output_values G tc (length outs0) oi outs c = (c', Ok vals) ->
  length outs = length outs0 /\
  (forall (idx : entry_index) (s : signal) (n : nat),
  In idx (tc_expected_indices tc) ->
  nth_error (tc_signals tc) (ei_signal_index idx) = Some s ->
  is_virtual s = false ->
  position (fun o : out_entry => signal_eqb (oe_sig o) s) outs0 = Some n ->
  exists o : out_entry, nth_error outs n = Some o /\ oe_sig o = s).
Proof. exact tracked_positions_preserved. Qed.

Theorem C13_wrong_length_is_error :
  forall (G : gen) (tc : testcase) (nout : nat) (oi : list out_index) (outs : list out_entry) (c : ctx),
  length outs <> nout ->
  extract_output_values G tc nout oi outs c =
  (c, Err (RT_WrongNumberOfOutputs (N.of_nat nout) (N.of_nat (length outs)))).
Proof. exact wrong_length_is_error. Qed.

(* for ANY first answer and ANY later answer: a row or one of three errors, never a panic (after fix d850e2a) *)
Theorem C13_extract_never_panics :
  forall (G : gen) (tc : testcase) (outs0 : list out_entry) (nout : nat) (oi : list out_index)
  (outs : list out_entry) (c : ctx),
  build_output_indices tc outs0 = Ok oi ->
  (forall (s : signal) (e : expr), In s (tc_signals tc) -> styp s = TyVirtual e -> wf_expr e) ->
  match snd (extract_output_values G tc nout oi outs c) with
  | Ok _ => True
  | Err e =>
  e = RT_WrongNumberOfOutputs (N.of_nat nout) (N.of_nat (length outs)) \/
  e = RT_WrongOutputOrder \/ (exists x : xerr, e = RT_Expr x)
  | _ => False
  end.
Proof. exact extract_never_panics. Qed.

(* the items produced by n calls of next() are determined by the driver's answers to the calls actually made (trace relates items, log prefix and answers); a fault at call k cannot influence items whose calls precede k *)
Theorem C13_rows_before_a_fault_do_not_depend_on_it :
  forall (G : gen) (DE : Type) (D : driver DE) (w_default : bool) (tc : testcase) 
  (fuel n : nat) (st : istate) (items : list (item_view DE)) (st' : istate),
  collect G DE D w_default tc fuel n st = (items, Some st') ->
  exists calls : list call, i_log st' = i_log st ++ calls /\ trace DE D w_default (i_log st) items calls.
Proof. exact collect_log. Qed.

(* FAULT TRANSPARENCY for callers that continue: on a test that reads no device output (try_iter_static succeeds) and whose declared signals draw no random numbers, the runs against ANY two drivers agree item by item on everything that does not come from the device - rows have the same inputs, expected values and line, evaluation errors and the end stand at the same positions - and a device failure in one run stands against a row / evaluation error / device failure of the other, after which BOTH RUNS GO ON IN STEP *)
Theorem C13_fault_transparency :
  forall (G : gen) (tc : testcase) (DE1 DE2 : Type) (D1 : driver DE1) (D2 : driver DE2) 
  (w1 w2 : bool) (fuel n : nat) (st0 st1 st2 : istate) (items_s : list (item_view N))
  (end_s : istate),
  try_iter_static tc = StaticOk st0 ->
  virtuals_no_random tc ->
  try_new DE1 D1 tc = NewOk DE1 st1 ->
  try_new DE2 D2 tc = NewOk DE2 st2 ->
  collect_e G N static_driver true tc fuel n st0 = (items_s, Some end_s) ->
  no_unknown items_s ->
  sim_items_2 (fst (collect_e G DE1 D1 w1 tc fuel n st1)) (fst (collect_e G DE2 D2 w2 tc fuel n st2)).
Proof. exact fault_transparency. Qed.

(* when neither run is cut short by the model, the two item lists have the same length and correspond position by position *)
Theorem C13_fault_transparency_in_step :
  forall (G : gen) (tc : testcase) (DE1 DE2 : Type) (D1 : driver DE1) (D2 : driver DE2) 
  (w1 w2 : bool) (fuel n : nat) (st0 st1 st2 : istate) (items_s : list (item_view N))
  (end_s : istate) (items1 : list (item_view DE1)) (end1 : istate) (items2 : list (item_view DE2))
  (end2 : istate),
  try_iter_static tc = StaticOk st0 ->
  virtuals_no_random tc ->
  try_new DE1 D1 tc = NewOk DE1 st1 ->
  try_new DE2 D2 tc = NewOk DE2 st2 ->
  collect_e G N static_driver true tc fuel n st0 = (items_s, Some end_s) ->
  no_unknown items_s ->
  collect_e G DE1 D1 w1 tc fuel n st1 = (items1, Some end1) ->
  collect_e G DE2 D2 w2 tc fuel n st2 = (items2, Some end2) ->
  Forall2 sim_view_2 items1 items2 /\ length items1 = length items2.
Proof. exact fault_transparency_in_step. Qed.

(* so a transient device failure costs exactly the failed rows and nothing else: every row (and evaluation error) of the faulty run is the row at the same position of a fault-free run *)
Theorem C13_rows_after_a_fault_are_those_of_the_fault_free_run :
  forall (G : gen) (tc : testcase) (DE1 DE2 : Type) (D1 : driver DE1) (D2 : driver DE2) 
  (w1 w2 : bool) (fuel n : nat) (st0 st1 st2 : istate) (items_s : list (item_view N))
  (end_s : istate) (items2 : list (item_view DE2)) (end2 : istate),
  try_iter_static tc = StaticOk st0 ->
  virtuals_no_random tc ->
  try_new DE1 D1 tc = NewOk DE1 st1 ->
  try_new DE2 D2 tc = NewOk DE2 st2 ->
  collect_e G N static_driver true tc fuel n st0 = (items_s, Some end_s) ->
  no_unknown items_s ->
  collect_e G DE2 D2 w2 tc fuel n st2 = (items2, Some end2) ->
  fault_free items2 ->
  let items1 := fst (collect_e G DE1 D1 w1 tc fuel n st1) in
  (forall (k : nat) (r : data_row),
  nth_error items1 k = Some (VRow r) ->
  exists r' : data_row, nth_error items2 k = Some (VRow r') /\ static_row r = static_row r') /\
  (forall (k : nat) (x : xerr),
  nth_error items1 k = Some (VErr (IE_Runtime (RT_Expr x))) ->
  nth_error items2 k = Some (VErr (IE_Runtime (RT_Expr x)))) /\
  (snd (collect_e G DE1 D1 w1 tc fuel n st1) <> None ->
  length items1 = length items2 /\ Forall2 explained_by items1 items2).
Proof. exact rows_after_a_fault_are_those_of_the_fault_free_run. Qed.

(* the restriction on declared signals is necessary (closed counterexample: declare v = random(10)) *)
Theorem C13_fault_transparency_needs_no_random :
  ~
  (forall (G : gen) (tc : testcase) (DE1 DE2 : Type) (D1 : driver DE1) (D2 : driver DE2)
  (w1 w2 : bool) (fuel n : nat) (st0 st1 st2 : istate) (items_s : list (item_view N))
  (end_s : istate),
  try_iter_static tc = StaticOk st0 ->
  try_new DE1 D1 tc = NewOk DE1 st1 ->
  try_new DE2 D2 tc = NewOk DE2 st2 ->
  collect_e G N static_driver true tc fuel n st0 = (items_s, Some end_s) ->
  no_unknown items_s ->
  sim_items_2 (fst (collect_e G DE1 D1 w1 tc fuel n st1)) (fst (collect_e G DE2 D2 w2 tc fuel n st2))).
Proof. exact fault_transparency_needs_no_random. Qed.


Check C13_layout_deviation_is_error.
Print Assumptions C13_driver_error_reaches_caller.
Print Assumptions C13_no_misattribution.
Print Assumptions C13_layout_deviation_is_error.
Print Assumptions C13_extract_never_panics.
Print Assumptions C13_fault_transparency.
Print Assumptions C13_rows_after_a_fault_are_those_of_the_fault_free_run.
Print Assumptions C13_fault_transparency_needs_no_random.
