(* C17 - random(n) stays in range, draws once per evaluation, and resetRandom replays.
   The generator is an oracle G : history of ranges drawn since the last (re)seed -> range -> value
   (the most general generator that is deterministic in its seed).  rand's contract
   (lo <= value < hi for lo < hi) is the hypothesis gen_in_range, NOT an axiom.
   Property theorems only; proofs in proofs/EvalProof.v. *)
From DTR Require Import Prelude I64 Ast FramedMap Parser Eval.
From DTR.proofs Require Import EvalProof.
Local Open Scope Z_scope.

(* random(e): evaluate e; below 2 an error and no draw; otherwise exactly ONE draw, from [1, n) *)
Theorem C17_random : forall G c a rng,
  eval G c (EFunc name_random [a]) rng =
  match eval G c a rng with
  | (Ok max, rng1) => if max <=? 1 then (Err (XE_EmptyRandomRange max), rng1)
                      else (Ok (G rng1 (1, max)), (1, max) :: rng1)
  | other => other
  end.
Proof. exact eval_random. Qed.

Theorem C17_in_range : forall G c a rng n rng1 r rng2, gen_in_range G ->
  eval G c a rng = (Ok n, rng1) -> 2 <= n ->
  eval G c (EFunc name_random [a]) rng = (Ok r, rng2) ->
  0 <= r < n /\ rng2 = (1, n) :: rng1.
Proof. exact random_in_range. Qed.

Theorem C17_empty_range_is_error : forall G c a rng n rng1,
  eval G c a rng = (Ok n, rng1) -> n <= 1 ->
  eval G c (EFunc name_random [a]) rng = (Err (XE_EmptyRandomRange n), rng1).
Proof. exact random_empty_range_is_error. Qed.

(* evaluation only ever appends draws to the history ... *)
Theorem C17_history_only_grows : forall G e c rng, exists l, snd (eval G c e rng) = l ++ rng.
Proof. exact eval_rng_extends. Qed.
(* ... and an expression without `random` draws nothing *)
Theorem C17_no_random_no_draw : forall G e c rng, mentions_random e = false -> snd (eval G c e rng) = rng.
Proof. exact eval_no_random_no_draw. Qed.
(* none for a random inside the unselected branch of ite *)
Theorem C17_unselected_branch_draws_nothing : forall G c t a b b' rng tv rng1,
  eval G c t rng = (Ok tv, rng1) -> tv <> 0 ->
  eval G c (EFunc name_ite [t; a; b]) rng = eval G c a rng1 /\
  eval G c (EFunc name_ite [t; a; b]) rng = eval G c (EFunc name_ite [t; a; b']) rng.
Proof. exact ite_lazy_then. Qed.

(* resetRandom puts the generator back into the state of a fresh run: from there on the value
   of each draw is G applied to the same history, so for the same sequence of bounds the values
   repeat those drawn from the start of the run *)
Theorem C17_reset_restores_initial_generator : forall c outs,
  crng (ctx_reset_random_seed c) = crng (ctx_new outs).
Proof. exact reset_restores_initial_generator. Qed.

Check C17_in_range.
Example C17_example : gen_in_range (fun _ r => fst r) /\
  eval (fun _ r => fst r) (ctx_new []) (EFunc name_random [ENum 10]) [] = (Ok 1, [(1, 10)]).
Proof. split; [intros h lo hi H; simpl; lia | reflexivity]. Qed.
Print Assumptions C17_in_range.
Print Assumptions C17_history_only_grows.
