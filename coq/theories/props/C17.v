(* C17 - random(n) stays in range, draws once per evaluation, and resetRandom replays.
   The generator is an oracle G : history of ranges drawn since the last (re)seed -> range -> value
   (the most general generator that is deterministic in its seed).  rand's contract
   (lo <= value < hi for lo < hi) is the hypothesis gen_in_range, NOT an axiom.
   Property theorems only; proofs in proofs/EvalProof.v. *)
From DTR Require Import Prelude I64 Ast FramedMap Parser Eval.
From DTR.proofs Require Import EvalProof LiteralProof.
Local Open Scope Z_scope.

(* random(e): evaluate e; below 2 an error and no draw; otherwise exactly ONE draw, from [1, n) *)
Theorem C17_random : forall G c a rng,
  eval G c (EFunc name_random [a]) rng =
  match eval G c a rng with
  | (Ok max, rng1) => if max <=? 1 then (Err (XE_EmptyRandomRange max), rng1)
                      else (Ok (G rng1 (1, max)), (1, max) :: rng1)
  | other => other
  end.
Proof. exact eval_random. Qed.

Theorem C17_in_range : forall G c a rng n rng1 r rng2, gen_in_range G ->
  eval G c a rng = (Ok n, rng1) -> 2 <= n ->
  eval G c (EFunc name_random [a]) rng = (Ok r, rng2) ->
  0 <= r < n /\ rng2 = (1, n) :: rng1.
Proof. exact random_in_range. Qed.

Theorem C17_empty_range_is_error : forall G c a rng n rng1,
  eval G c a rng = (Ok n, rng1) -> n <= 1 ->
  eval G c (EFunc name_random [a]) rng = (Err (XE_EmptyRandomRange n), rng1).
Proof. exact random_empty_range_is_error. Qed.

(* evaluation only ever appends draws to the history ... *)
Theorem C17_history_only_grows : forall G e c rng, exists l, snd (eval G c e rng) = l ++ rng.
Proof. exact eval_rng_extends. Qed.
(* ... and an expression without `random` draws nothing *)
Theorem C17_no_random_no_draw : forall G e c rng, mentions_random e = false -> snd (eval G c e rng) = rng.
Proof. exact eval_no_random_no_draw. Qed.
(* none for a random inside the unselected branch of ite *)
Theorem C17_unselected_branch_draws_nothing : forall G c t a b b' rng tv rng1,
  eval G c t rng = (Ok tv, rng1) -> tv <> 0 ->
  eval G c (EFunc name_ite [t; a; b]) rng = eval G c a rng1 /\
  eval G c (EFunc name_ite [t; a; b]) rng = eval G c (EFunc name_ite [t; a; b']) rng.
Proof. exact ite_lazy_then. Qed.

(* resetRandom puts the generator back into the state of a fresh run: from there on the value
   of each draw is G applied to the same history, so for the same sequence of bounds the values
   repeat those drawn from the start of the run *)
Theorem C17_reset_restores_initial_generator : forall c outs,
  crng (ctx_reset_random_seed c) = crng (ctx_new outs).
Proof. exact reset_restores_initial_generator. Qed.

(* "Apart from these draws, a program using random behaves exactly as if the drawn values had been written
   as literals": literalize G c e rng is e with exactly the random(..) calls that the evaluation performs
   (and that draw) replaced by the value drawn; it is a literal substitution instance of e ... *)
Theorem C17_literalize_is_substitution : forall G c e rng, lit_subst e (fst (literalize G c e rng)).
Proof. exact literalize_is_substitution. Qed.
Theorem C17_lit_subst_meaning : forall e e', lit_subst e e' <-> LitSubst e e'.
Proof. exact lit_subst_iff_LitSubst. Qed.
(* ... and the literal expression gives the SAME result (value, error) with ANY generator and draws nothing *)
Theorem C17_as_if_literals : forall G c e rng r rng',
  eval G c e rng = (r, rng') ->
  forall G' rng0, eval G' c (fst (literalize G c e rng)) rng0 = (r, rng0).
Proof. exact as_if_literals. Qed.
(* exactly one literal per draw *)
Theorem C17_one_literal_per_draw : forall G c e rng,
  exists l, snd (eval G c e rng) = l ++ rng /\
    List.length l = List.length (snd (literalize G c e rng)).
Proof. exact one_literal_per_draw. Qed.
(* whole data rows *)
Theorem C17_row_as_if_literals : forall G G' data c,
  snd (row_eval G' c (literalize_row G c data)) = snd (row_eval G c data) /\
  fst (row_eval G' c (literalize_row G c data)) = c.
Proof. exact row_as_if_literals_same_ctx. Qed.

(* replay: the values drawn are a function of the generator, the history at the start and the sequence of
   bounds only ... *)
Theorem C17_drawn_values_are_draws : forall G c e rng,
  exists l, snd (eval G c e rng) = l ++ rng /\
    snd (literalize G c e rng) = draws G rng (map snd (rev l)).
Proof. exact drawn_values_are_draws. Qed.
(* ... so two evaluations that start from the freshly (re)seeded generator and draw with the same sequence of
   bounds draw the same values *)
Theorem C17_replay_after_reset : forall G c1 e1 c2 e2 l1 l2,
  snd (eval G c1 e1 []) = l1 -> snd (eval G c2 e2 []) = l2 ->
  map snd (rev l1) = map snd (rev l2) ->
  snd (literalize G c1 e1 []) = snd (literalize G c2 e2 []).
Proof. exact replay_after_reset. Qed.

Check C17_in_range.
Example C17_example : gen_in_range (fun _ r => fst r) /\
  eval (fun _ r => fst r) (ctx_new []) (EFunc name_random [ENum 10]) [] = (Ok 1, [(1, 10)]).
Proof. split; [intros h lo hi H; simpl; lia | reflexivity]. Qed.
Print Assumptions C17_in_range.
Print Assumptions C17_history_only_grows.
Print Assumptions C17_as_if_literals.
Print Assumptions C17_replay_after_reset.
Print Assumptions C17_row_as_if_literals.
