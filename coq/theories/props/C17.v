(* C17 - random(n) stays in range, draws once per evaluation, and resetRandom replays.
   The generator is an oracle G : history of ranges drawn since the last (re)seed -> range -> value
   (the most general generator that is deterministic in its seed).  rand's contract
   (lo <= value < hi for lo < hi) is the hypothesis gen_in_range, NOT an axiom.
   Property theorems only; proofs in proofs/EvalProof.v. *)
From DTR Require Import Prelude I64 Ast FramedMap Lexer Parser Bind Eval Stmt Iter Script WfSpec.
From DTR.proofs Require Import EvalProof LiteralProof IterLogProof RunRefineE IterLogProofE VectorProof OutputsRunProof VarsRunProof RandomRunProof.
Local Open Scope Z_scope.

(* random(e): evaluate e; below 2 an error and no draw; otherwise exactly ONE draw, from [1, n) *)
Theorem C17_random : forall G c a rng,
  eval G c (EFunc name_random [a]) rng =
  match eval G c a rng with
  | (Ok max, rng1) => if max <=? 1 then (Err (XE_EmptyRandomRange max), rng1)
                      else (Ok (G rng1 (1, max)), (1, max) :: rng1)
  | other => other
  end.
Proof. exact eval_random. Qed.

Theorem C17_in_range : forall G c a rng n rng1 r rng2, gen_in_range G ->
  eval G c a rng = (Ok n, rng1) -> 2 <= n ->
  eval G c (EFunc name_random [a]) rng = (Ok r, rng2) ->
  0 <= r < n /\ rng2 = (1, n) :: rng1.
Proof. exact random_in_range. Qed.

Theorem C17_empty_range_is_error : forall G c a rng n rng1,
  eval G c a rng = (Ok n, rng1) -> n <= 1 ->
  eval G c (EFunc name_random [a]) rng = (Err (XE_EmptyRandomRange n), rng1).
Proof. exact random_empty_range_is_error. Qed.

(* evaluation only ever appends draws to the history ... *)
Theorem C17_history_only_grows : forall G e c rng, exists l, snd (eval G c e rng) = l ++ rng.
Proof. exact eval_rng_extends. Qed.
(* ... and an expression without `random` draws nothing *)
Theorem C17_no_random_no_draw : forall G e c rng, mentions_random e = false -> snd (eval G c e rng) = rng.
Proof. exact eval_no_random_no_draw. Qed.
(* none for a random inside the unselected branch of ite *)
Theorem C17_unselected_branch_draws_nothing : forall G c t a b b' rng tv rng1,
  eval G c t rng = (Ok tv, rng1) -> tv <> 0 ->
  eval G c (EFunc name_ite [t; a; b]) rng = eval G c a rng1 /\
  eval G c (EFunc name_ite [t; a; b]) rng = eval G c (EFunc name_ite [t; a; b']) rng.
Proof. exact ite_lazy_then. Qed.

(* resetRandom puts the generator back into the state of a fresh run: from there on the value
   of each draw is G applied to the same history, so for the same sequence of bounds the values
   repeat those drawn from the start of the run *)
Theorem C17_reset_restores_initial_generator : forall c outs,
  crng (ctx_reset_random_seed c) = crng (ctx_new outs).
Proof. exact reset_restores_initial_generator. Qed.

(* "Apart from these draws, a program using random behaves exactly as if the drawn values had been written
   as literals": literalize G c e rng is e with exactly the random(..) calls that the evaluation performs
   (and that draw) replaced by the value drawn; it is a literal substitution instance of e ... *)
Theorem C17_literalize_is_substitution : forall G c e rng, lit_subst e (fst (literalize G c e rng)).
Proof. exact literalize_is_substitution. Qed.
Theorem C17_lit_subst_meaning : forall e e', lit_subst e e' <-> LitSubst e e'.
Proof. exact lit_subst_iff_LitSubst. Qed.
(* ... and the literal expression gives the SAME result (value, error) with ANY generator and draws nothing *)
Theorem C17_as_if_literals : forall G c e rng r rng',
  eval G c e rng = (r, rng') ->
  forall G' rng0, eval G' c (fst (literalize G c e rng)) rng0 = (r, rng0).
Proof. exact as_if_literals. Qed.
(* exactly one literal per draw *)
Theorem C17_one_literal_per_draw : forall G c e rng,
  exists l, snd (eval G c e rng) = l ++ rng /\
    List.length l = List.length (snd (literalize G c e rng)).
Proof. exact one_literal_per_draw. Qed.
(* whole data rows *)
Theorem C17_row_as_if_literals : forall G G' data c,
  snd (row_eval G' c (literalize_row G c data)) = snd (row_eval G c data) /\
  fst (row_eval G' c (literalize_row G c data)) = c.
Proof. exact row_as_if_literals_same_ctx. Qed.

(* replay: the values drawn are a function of the generator, the history at the start and the sequence of
   bounds only ... *)
Theorem C17_drawn_values_are_draws : forall G c e rng,
  exists l, snd (eval G c e rng) = l ++ rng /\
    snd (literalize G c e rng) = draws G rng (map snd (rev l)).
Proof. exact drawn_values_are_draws. Qed.
(* ... so two evaluations that start from the freshly (re)seeded generator and draw with the same sequence of
   bounds draw the same values *)
Theorem C17_replay_after_reset : forall G c1 e1 c2 e2 l1 l2,
  snd (eval G c1 e1 []) = l1 -> snd (eval G c2 e2 []) = l2 ->
  map snd (rev l1) = map snd (rev l2) ->
  snd (literalize G c1 e1 []) = snd (literalize G c2 e2 []).
Proof. exact replay_after_reset. Qed.

(* RUN LEVEL, through error items - what one call of next() does to the generator's history: it is new draws on top of the old history, or on top of the EMPTY history when a resetRandom; was executed on the way; the new draws are those of the statements executed and of the row's entries and then - only when an answer of the right length arrived - those of the declared signals, in declaration order, up to and including the first one that fails; a failed call and an answer of the wrong length evaluate no declared signal *)
Theorem C17_history_of_every_call :
  forall (G : gen) (DE : Type) (D : driver DE) (w_default : bool) (tc : testcase) 
  (fuel : nat) (st st' : istate),
  VectorProof.next_state DE (inext G DE D w_default tc fuel st) = Some st' ->
  exists (st1 : istate) (prog decl : list (Z * Z)),
  (get_row G tc fuel st = GRNone st1 \/
  (exists er : evaluated_row, get_row G tc fuel st = GRRow er st1) \/
  (exists x : xerr, get_row G tc fuel st = GRErr x st1)) /\
  crng (i_ctx st1) = prog ++ (if trace_resets (stmt_trace G fuel st) then [] else crng (i_ctx st)) /\
  crng (i_ctx st') = decl ++ crng (i_ctx st1) /\
  hist_ok prog /\
  hist_ok decl /\
  (decl <> [] ->
  exists (er : evaluated_row) (outs : list out_entry),
  get_row G tc fuel st = GRRow er st1 /\
  er_update_output er = true /\
  D (i_log st) (RW, er_inputs er) = DrvOk outs /\ length outs = i_nout st).
Proof. exact history_step_shape. Qed.

(* (the complete case table) *)
Theorem C17_history_case_table :
  forall (G : gen) (DE : Type) (D : driver DE) (w_default : bool) (tc : testcase) 
  (fuel : nat) (st : istate),
  match inext G DE D w_default tc fuel st with
  | ItNone _ st' =>
  get_row G tc fuel st = GRNone st' /\
  chained G (stmt_trace G fuel st) (crng (i_ctx st)) (crng (i_ctx st'))
  | ItRow _ _ st' =>
  exists (er : evaluated_row) (st1 : istate),
  get_row G tc fuel st = GRRow er st1 /\
  chained G (stmt_trace G fuel st) (crng (i_ctx st)) (crng (i_ctx st1)) /\
  (er_update_output er = true /\
  (exists (outs : list out_entry) (vals : list outval),
  D (i_log st) (RW, er_inputs er) = DrvOk outs /\
  length outs = i_nout st /\
  loop_history G (decl_ctx st1 outs) (decl_table tc st) (crng (i_ctx st1))
  (Ok vals) (crng (i_ctx st'))) \/
  er_update_output er = false /\ crng (i_ctx st') = crng (i_ctx st1))
  | ItErr _ (IE_Driver _) st' =>
  exists (er : evaluated_row) (st1 : istate),
  get_row G tc fuel st = GRRow er st1 /\
  chained G (stmt_trace G fuel st) (crng (i_ctx st)) (crng (i_ctx st1)) /\
  crng (i_ctx st') = crng (i_ctx st1)
  | ItErr _ (IE_Runtime r) st' =>
  (exists x : xerr,
  r = RT_Expr x /\
  get_row G tc fuel st = GRErr x st' /\
  chained G (stmt_trace G fuel st) (crng (i_ctx st)) (crng (i_ctx st')) /\
  (exists (t1 : list gev) (ev : gev),
  stmt_trace G fuel st = t1 ++ [ev] /\
  gev_fails G ev (XFErr x) /\ crng (i_ctx st') = gev_post G ev)) \/
  (exists (er : evaluated_row) (st1 : istate) (outs : list out_entry),
  get_row G tc fuel st = GRRow er st1 /\
  er_update_output er = true /\
  D (i_log st) (RW, er_inputs er) = DrvOk outs /\
  chained G (stmt_trace G fuel st) (crng (i_ctx st)) (crng (i_ctx st1)) /\
  (length outs <> i_nout st /\
  r = RT_WrongNumberOfOutputs (N.of_nat (i_nout st)) (N.of_nat (length outs)) /\
  crng (i_ctx st') = crng (i_ctx st1) \/
  length outs = i_nout st /\
  loop_history G (decl_ctx st1 outs) (decl_table tc st) (crng (i_ctx st1))
  (Err r) (crng (i_ctx st'))))
  | _ => True
  end.
Proof. exact history_step. Qed.

(* in every reachable state every bound in the history is (1, n) with n >= 2 and, under the generator's contract, every value ever drawn lies in its range *)
Theorem C17_every_draw_of_every_run_in_range :
  forall (G : gen) (DE : Type) (D : driver DE) (w_default : bool) (tc : testcase) (st : istate),
  reachable G DE D w_default tc st ->
  hist_ok (crng (i_ctx st)) /\
  (gen_in_range G ->
  draws_in_range G (crng (i_ctx st)) /\
  Forall2 (fun (v : Z) (b : Z * Z) => fst b <= v < snd b /\ 0 <= v) (seg_values G (crng (i_ctx st)) [])
  (crng (i_ctx st))).
Proof. exact every_draw_in_range. Qed.

Theorem C17_the_constructor_starts_from_the_empty_history :
  forall (DE : Type) (D : driver DE) (tc : testcase) (st0 : istate),
  try_new DE D tc = NewOk DE st0 -> crng (i_ctx st0) = [].
Proof. exact try_new_history. Qed.

(* replay at run level: two reachable states (of the same or of different runs with the same generator) with equal histories draw the same values for the same expression or data row - so after resetRandom; the run draws again what it drew from the start, as far as the bounds agree *)
Theorem C17_run_replays_after_reset :
  forall (G : gen) (DE1 : Type) (D1 : driver DE1) (w1 : bool) (tc1 : testcase) 
  (DE2 : Type) (D2 : driver DE2) (w2 : bool) (tc2 : testcase) (st1 st2 : istate),
  reachable G DE1 D1 w1 tc1 st1 ->
  reachable G DE2 D2 w2 tc2 st2 ->
  crng (i_ctx st1) = crng (i_ctx st2) ->
  (forall e : expr,
  (forall x : name, ctx_get (i_ctx st1) x = ctx_get (i_ctx st2) x) ->
  snd (ctx_eval G (i_ctx st1) e) = snd (ctx_eval G (i_ctx st2) e) /\
  crng (fst (ctx_eval G (i_ctx st1) e)) = crng (fst (ctx_eval G (i_ctx st2) e)) /\
  snd (literalize G (i_ctx st1) e (crng (i_ctx st1))) =
  snd (literalize G (i_ctx st2) e (crng (i_ctx st2)))) /\
  (forall d : list dentry,
  (forall x : name, ctx_get (i_ctx st1) x = ctx_get (i_ctx st2) x) ->
  snd (row_eval G (i_ctx st1) d) = snd (row_eval G (i_ctx st2) d) /\
  crng (fst (row_eval G (i_ctx st1) d)) = crng (fst (row_eval G (i_ctx st2) d))) /\
  (forall (e1 e2 : expr) (l1 l2 : list (Z * Z)),
  snd (eval G (i_ctx st1) e1 (crng (i_ctx st1))) = l1 ++ crng (i_ctx st1) ->
  snd (eval G (i_ctx st2) e2 (crng (i_ctx st2))) = l2 ++ crng (i_ctx st2) ->
  map snd (rev l1) = map snd (rev l2) ->
  snd (literalize G (i_ctx st1) e1 (crng (i_ctx st1))) =
  snd (literalize G (i_ctx st2) e2 (crng (i_ctx st2)))).
Proof. exact run_replays_after_reset. Qed.

Theorem C17_drawn_since_reset_replay :
  forall (G : gen) (DE : Type) (D : driver DE) (w_default : bool) (tc : testcase) (st : istate),
  reachable G DE D w_default tc st ->
  values_of G (crng (i_ctx st)) = draws G [] (bounds_of (crng (i_ctx st))).
Proof. exact drawn_since_reset_replay. Qed.

(* an evaluation error does not roll the generator back: the draws made before the failure stay *)
Theorem C17_error_items_keep_their_draws :
  forall (G : gen) (DE : Type) (D : driver DE) (w_default : bool) (tc : testcase) 
  (fuel : nat) (st : istate) (x : xerr) (st1 : istate),
  get_row G tc fuel st = GRErr x st1 ->
  inext G DE D w_default tc fuel st = ItErr DE (IE_Runtime (RT_Expr x)) st1 /\
  i_log st1 = i_log st /\
  (exists (t1 : list gev) (ev : gev),
  stmt_trace G fuel st = t1 ++ [ev] /\
  gev_fails G ev (XFErr x) /\
  chained G t1 (crng (i_ctx st)) (gev_pre ev) /\
  crng (i_ctx st1) = gev_post G ev /\
  grows (gev_pre ev) (crng (i_ctx st1)) /\
  grows (if trace_resets t1 then [] else crng (i_ctx st)) (gev_pre ev)).
Proof. exact error_items_before_the_call_draw_what_was_evaluated. Qed.

(* an answer refused for its order evaluates no declared signal of a bound test (they come after all device outputs) *)
Theorem C17_wrong_order_draws_nothing :
  forall (G : gen) (DE : Type) (D : driver DE) (w_default : bool) (p : parsed) 
  (sigs0 : list signal) (tc : testcase) (fuel : nat) (st st' : istate),
  with_signals p sigs0 = Ok tc ->
  Forall (fun s : signal => is_virtual s = false) sigs0 ->
  reachable G DE D w_default tc st ->
  inext G DE D w_default tc fuel st = ItErr DE (IE_Runtime RT_WrongOutputOrder) st' ->
  exists (er : evaluated_row) (st1 : istate),
  get_row G tc fuel st = GRRow er st1 /\ crng (i_ctx st') = crng (i_ctx st1).
Proof. exact wrong_order_draws_nothing_when_bound. Qed.



Check C17_in_range.
Example C17_example : gen_in_range (fun _ r => fst r) /\
  eval (fun _ r => fst r) (ctx_new []) (EFunc name_random [ENum 10]) [] = (Ok 1, [(1, 10)]).
Proof. split; [intros h lo hi H; simpl; lia | reflexivity]. Qed.
Print Assumptions C17_in_range.
Print Assumptions C17_history_only_grows.
Print Assumptions C17_as_if_literals.
Print Assumptions C17_replay_after_reset.
Print Assumptions C17_row_as_if_literals.
Print Assumptions C17_history_of_every_call.
Print Assumptions C17_every_draw_of_every_run_in_range.
Print Assumptions C17_run_replays_after_reset.
Print Assumptions C17_error_items_keep_their_draws.
