(* C19 - Each row reports the source line it came from.
   Lexer half (proved here): the Eol tokens of the statement lexer are exactly the '\n' characters
   of the text, in order, and no other token or skipped region contains one (CR is blank space, so
   CRLF needs no case); the header parser's line counter is 1 + the number of '\n' it consumed,
   blank lines before the header included.  Iterator half: every expansion of a row carries the
   line of its source row (C05 spec_rows keeps de_line; C02: dr_line row = er_line).
   Parser half (proofs/ParserLinesProof.v): the line recorded for a data row = the line counter at
   the row = header line + Eol tokens consumed; combined with the lexer half: C19_row_line.
   Property theorems only; proofs in proofs/LexerProof.v, ExpandProof.v, IterLogProof.v. *)
From DTR Require Import Prelude I64 Ast FramedMap Lexer Parser Bind Eval Stmt Iter ExpandSpec Dig.
From DTR.proofs Require Import LexerProof ParserProof ParserLinesProof ExpandProof IterLogProof DigLinesProof.
Local Open Scope N_scope.

(* the number of Eol tokens before any token = the number of newlines before it in the text *)
Theorem C19_eol_tokens_are_newlines : forall pos s ts, lex_body pos s = Some ts ->
  forall pre t post, ts = pre ++ t :: post ->
    exists u v, s = u ++ ttext t ++ v /\ fst (tspan t) = pos + text_bytes u /\ count_eol pre = count_nl u.
Proof. exact eol_tokens_are_newlines. Qed.

Theorem C19_only_eol_tokens_contain_newlines : forall pos s ts t, lex_body pos s = Some ts -> In t ts ->
  (tkind t = TEol -> ttext t = [10]) /\ (tkind t <> TEol -> count_nl (ttext t) = 0%nat).
Proof. exact eol_token_iff. Qed.

Theorem C19_eol_count : forall pos s ts, lex_body pos s = Some ts -> count_eol ts = count_nl s.
Proof. exact count_eol_count_nl. Qed.

(* the header: line counter after it = 1 + newlines consumed (blank lines before it included) *)
Theorem C19_header_lines : forall s h, parse_header s = Ok h ->
  exists u, s = u ++ h_rest h /\ h_pos h = text_bytes u /\ h_line h = N.of_nat (1 + count_nl u).
Proof. exact header_lines. Qed.

(* every X / C expansion of a source row carries that row's line *)
Theorem C19_expansions_keep_line : forall tc row r, In r (spec_rows tc row) -> de_line r = de_line row.
Proof.
  intros tc row r H. unfold spec_rows in H. apply in_map_iff in H. destruct H as [p [<- _]]. reflexivity.
Qed.

(* THE property: for every text that parses, the line recorded for every data row (at any depth, the row of a repeat included) is 1 + the number of newline characters before the row's first token *)
Theorem C19_row_line :
  forall (s : text) (p : parsed),
  parse s = Ok p ->
  Forall
  (fun line : N =>
  exists u v : list N, s = u ++ v /\ line = N.of_nat (1 + count_nl u) /\ row_starts_here v)
  (row_lines (p_stmts p)).
Proof. exact C19_row_line. Qed.

(* ... and rows are recorded in source order *)
Theorem C19_row_line_ordered :
  forall (s : text) (p : parsed),
  parse s = Ok p ->
  exists us : list text,
  Forall2
  (fun (line : N) (u : list N) =>
  exists v : list N, s = u ++ v /\ line = N.of_nat (1 + count_nl u) /\ row_starts_here v)
  (row_lines (p_stmts p)) us /\ Sorted.StronglySorted strict_prefix us.
Proof. exact C19_row_line_ordered. Qed.


(* "for tests loaded from a .dig file the count is relative to the start of that test's own source text": load_test(n) is the
   n-th test's source parsed and bound, binding keeps the statements, so every row's line is 1 + the newlines before the row
   IN THAT SOURCE *)
Theorem C19_lines_of_a_loaded_test_are_relative_to_its_own_source :
  forall (f : dig_file) (n : nat) (tc : testcase),
  load_test f n = Ok tc ->
  exists (nm : name) (src : text), List.nth_error (df_tests f) n = Some (nm, src) /\
  Forall (fun line : N =>
            exists u v : list N, src = u ++ v /\ line = N.of_nat (1 + count_nl u) /\ row_starts_here v)
         (row_lines (tc_stmts tc)).
Proof. exact load_test_row_lines. Qed.


Check C19_row_line.
Check C19_eol_tokens_are_newlines.
Print Assumptions C19_eol_tokens_are_newlines.
Print Assumptions C19_header_lines.
Print Assumptions C19_row_line.
Print Assumptions C19_row_line_ordered.
Print Assumptions C19_lines_of_a_loaded_test_are_relative_to_its_own_source.
