(* C19 - Each row reports the source line it came from.
   Lexer half (proved here): the Eol tokens of the statement lexer are exactly the '\n' characters
   of the text, in order, and no other token or skipped region contains one (CR is blank space, so
   CRLF needs no case); the header parser's line counter is 1 + the number of '\n' it consumed,
   blank lines before the header included.  Iterator half: every expansion of a row carries the
   line of its source row (C05 spec_rows keeps de_line; C02: dr_line row = er_line).
   Parser half (proofs/ParserLinesProof.v): the line recorded for a data row = the line counter at
   the row = header line + Eol tokens consumed; combined with the lexer half: C19_row_line.
   Property theorems only; proofs in proofs/LexerProof.v, ExpandProof.v, IterLogProof.v. *)
From DTR Require Import Prelude I64 Ast FramedMap Lexer Parser Bind Eval Stmt Iter Static ExpandSpec Dig.
From DTR.proofs Require Import LexerProof ParserProof ParserLinesProof ExpandProof IterLogProof RunRefineE DigLinesProof OutputsRunProof LinesRunProof.
Local Open Scope N_scope.

(* the number of Eol tokens before any token = the number of newlines before it in the text *)
Theorem C19_eol_tokens_are_newlines : forall pos s ts, lex_body pos s = Some ts ->
  forall pre t post, ts = pre ++ t :: post ->
    exists u v, s = u ++ ttext t ++ v /\ fst (tspan t) = pos + text_bytes u /\ count_eol pre = count_nl u.
Proof. exact eol_tokens_are_newlines. Qed.

Theorem C19_only_eol_tokens_contain_newlines : forall pos s ts t, lex_body pos s = Some ts -> In t ts ->
  (tkind t = TEol -> ttext t = [10]) /\ (tkind t <> TEol -> count_nl (ttext t) = 0%nat).
Proof. exact eol_token_iff. Qed.

Theorem C19_eol_count : forall pos s ts, lex_body pos s = Some ts -> count_eol ts = count_nl s.
Proof. exact count_eol_count_nl. Qed.

(* the header: line counter after it = 1 + newlines consumed (blank lines before it included) *)
Theorem C19_header_lines : forall s h, parse_header s = Ok h ->
  exists u, s = u ++ h_rest h /\ h_pos h = text_bytes u /\ h_line h = N.of_nat (1 + count_nl u).
Proof. exact header_lines. Qed.

(* every X / C expansion of a source row carries that row's line *)
Theorem C19_expansions_keep_line : forall tc row r, In r (spec_rows tc row) -> de_line r = de_line row.
Proof.
  intros tc row r H. unfold spec_rows in H. apply in_map_iff in H. destruct H as [p [<- _]]. reflexivity.
Qed.

(* THE property: for every text that parses, the line recorded for every data row (at any depth, the row of a repeat included) is 1 + the number of newline characters before the row's first token *)
Theorem C19_row_line :
  forall (s : text) (p : parsed),
  parse s = Ok p ->
  Forall
  (fun line : N =>
  exists u v : list N, s = u ++ v /\ line = N.of_nat (1 + count_nl u) /\ row_starts_here v)
  (row_lines (p_stmts p)).
Proof. exact C19_row_line. Qed.

(* ... and rows are recorded in source order *)
Theorem C19_row_line_ordered :
  forall (s : text) (p : parsed),
  parse s = Ok p ->
  exists us : list text,
  Forall2
  (fun (line : N) (u : list N) =>
  exists v : list N, s = u ++ v /\ line = N.of_nat (1 + count_nl u) /\ row_starts_here v)
  (row_lines (p_stmts p)) us /\ Sorted.StronglySorted strict_prefix us.
Proof. exact C19_row_line_ordered. Qed.


(* "for tests loaded from a .dig file the count is relative to the start of that test's own source text": load_test(n) is the
   n-th test's source parsed and bound, binding keeps the statements, so every row's line is 1 + the newlines before the row
   IN THAT SOURCE *)
Theorem C19_lines_of_a_loaded_test_are_relative_to_its_own_source :
  forall (f : dig_file) (n : nat) (tc : testcase),
  load_test f n = Ok tc ->
  exists (nm : name) (src : text), List.nth_error (df_tests f) n = Some (nm, src) /\
  Forall (fun line : N =>
            exists u v : list N, src = u ++ v /\ line = N.of_nat (1 + count_nl u) /\ row_starts_here v)
         (row_lines (tc_stmts tc)).
Proof. exact load_test_row_lines. Qed.

(* RUN LEVEL, through error items: every row yielded by any run of an accepted, bound test reports as its line 1 + the number of newlines before the place in the source text where its data row starts *)
Theorem C19_every_row_of_every_run_reports_its_source_position :
  forall (G : gen) (DE : Type) (D : driver DE) (w_default : bool) (s : text) 
  (p : parsed) (sigs0 : list signal) (tc : testcase) (fuel n : nat) (st0 : istate),
  parse s = Ok p ->
  with_signals p sigs0 = Ok tc ->
  try_new DE D tc = NewOk DE st0 ->
  Forall
  (WidthProof.item_rows DE
  (fun row : data_row =>
  exists u v : list N, s = u ++ v /\ dr_line row = N.of_nat (1 + count_nl u) /\ row_starts_here v))
  (fst (collect_e G DE D w_default tc fuel n st0)).
Proof. exact row_line_is_its_source_position. Qed.

(* the same for the static iterator *)
Theorem C19_every_static_row_reports_its_source_position :
  forall (G : gen) (s : text) (p : parsed) (sigs0 : list signal) (tc : testcase) 
  (fuel n : nat) (st0 : istate),
  parse s = Ok p ->
  with_signals p sigs0 = Ok tc ->
  try_iter_static tc = StaticOk st0 ->
  Forall
  (static_rows
  (fun r : static_data_row =>
  exists u v : list N,
  s = u ++ v /\ static_line r = N.of_nat (1 + count_nl u) /\ row_starts_here v))
  (fst (static_collect G tc fuel n st0)).
Proof. exact static_row_line_is_its_source_position. Qed.

(* (the line of a yielded row is the line of a row statement of the program - whatever the driver, the generator, the errors before it) *)
Theorem C19_every_row_line_is_a_row_statement_line :
  forall (G : gen) (DE : Type) (D : driver DE) (w_default : bool) (tc : testcase) 
  (fuel n : nat) (st0 : istate),
  try_new DE D tc = NewOk DE st0 ->
  Forall (WidthProof.item_rows DE (fun row : data_row => In (dr_line row) (row_lines (tc_stmts tc))))
  (fst (collect_e G DE D w_default tc fuel n st0)).
Proof. exact every_row_line_is_a_source_row_line. Qed.

(* rows that come from the same evaluated source row (its C / X expansions) report the same line, also when one of them fails on the way *)
Theorem C19_expansions_and_passes_share_the_line :
  forall (G : gen) (DE : Type) (D : driver DE) (w_default : bool) (tc : testcase) 
  (fuel n : nat) (st0 : istate) (pre : list (bool * item_view DE)) (b : bool)
  (r1 : data_row) (mid : list (bool * item_view DE)) (r2 : data_row)
  (post : list (bool * item_view DE)),
  try_new DE D tc = NewOk DE st0 ->
  collect_e_tagged G DE D w_default tc fuel n st0 =
  pre ++ (b, VRow r1) :: mid ++ (false, VRow r2) :: post ->
  Forall (fun x : bool * item_view DE => fst x = false) mid -> dr_line r1 = dr_line r2.
Proof. exact expansions_and_passes_share_the_line. Qed.

(* for a test loaded from a .dig document the position is counted in that test's own source text, for every row of every run *)
Theorem C19_rows_of_a_loaded_test_report_positions_in_its_own_source :
  forall (G : gen) (DE : Type) (D : driver DE) (w_default : bool) (f : dig_file) 
  (k : nat) (tc : testcase) (fuel n : nat) (st0 : istate),
  load_test f k = Ok tc ->
  try_new DE D tc = NewOk DE st0 ->
  exists (nm : name) (src : text),
  nth_error (df_tests f) k = Some (nm, src) /\
  Forall
  (WidthProof.item_rows DE
  (fun row : data_row =>
  exists u v : list N,
  src = u ++ v /\ dr_line row = N.of_nat (1 + count_nl u) /\ row_starts_here v))
  (fst (collect_e G DE D w_default tc fuel n st0)).
Proof. exact loaded_test_row_line_is_its_source_position. Qed.




Check C19_row_line.
Check C19_eol_tokens_are_newlines.
Print Assumptions C19_eol_tokens_are_newlines.
Print Assumptions C19_header_lines.
Print Assumptions C19_row_line.
Print Assumptions C19_row_line_ordered.
Print Assumptions C19_lines_of_a_loaded_test_are_relative_to_its_own_source.
Print Assumptions C19_every_row_of_every_run_reports_its_source_position.
Print Assumptions C19_expansions_and_passes_share_the_line.
Print Assumptions C19_rows_of_a_loaded_test_report_positions_in_its_own_source.
