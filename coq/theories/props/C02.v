(* C02 - Driver protocol: defaults first, then exactly one call per row, passed verbatim.
   MODEL: Iter.try_new / Iter.inext with the ghost log i_log of all driver calls.
   Property theorems only; proofs in proofs/IterLogProof.v, ByNameProof.v. *)
From DTR Require Import Prelude I64 Ast FramedMap Parser Bind Eval Stmt Iter ByNameSpec.
From DTR.proofs Require Import IterLogProof ByNameProof RunRefine RunRefineE IterLogProofE.
Local Open Scope nat_scope.

(* the constructor: exactly one output-reading call, carrying the default vector; for EVERY driver *)
Theorem C02_constructor_call : forall (DE : Type) (D : driver DE) (tc : testcase),
  match try_new DE D tc with
  | NewOk _ st =>
      exists ins outs, generate_default_input_entries tc = Ok ins /\
        i_log st = [(RW, ins)] /\ D [] (RW, ins) = DrvOk outs /\
        couts (i_ctx st) = outs_map outs /\ i_cache st = [] /\ i_prev st = None
  | NewErr _ (IE_Driver e) log =>
      exists ins, generate_default_input_entries tc = Ok ins /\ log = [(RW, ins)] /\ D [] (RW, ins) = DrvErr e
  | NewErr _ (IE_Runtime _) log =>
      log = [] \/ (exists ins outs, log = [(RW, ins)] /\ D [] (RW, ins) = DrvOk outs)
  | NewPanic _ _ => True
  end.
Proof. exact try_new_calls. Qed.

(* ... and that vector has every input-capable signal, in order, at its default, unchanged *)
Theorem C02_constructor_vector_is_defaults : forall p sigs0 tc,
  with_signals p sigs0 = Ok tc ->
  exists l, generate_default_input_entries tc = Ok l /\ defaults_spec (tc_signals tc) = Some l.
Proof. exact ByNameProof.C06_defaults. Qed.

(* one next(): None -> no call; a row -> exactly one call whose input list IS the row's inputs
   (output-reading for a checked row, write-only - or its default forwarding - for a mid-clock
   row, whose outputs are empty); a driver error -> exactly the failing call; an evaluation error ->
   no call; an unusable answer -> exactly the call that produced it.  For EVERY driver. *)
Theorem C02_one_call_per_item : forall (G : gen) (DE : Type) (D : driver DE) (w_default : bool) (tc : testcase)
  (fuel : nat) (st : istate),
  match inext G DE D w_default tc fuel st with
  | ItNone _ st' => i_log st' = i_log st
  | ItRow _ row st' =>
      exists er st1, get_row G tc fuel st = GRRow er st1 /\
        dr_inputs row = er_inputs er /\ dr_line row = er_line er /\
        (let kind := if er_update_output er then RW else if w_default then RW else WO in
         i_log st' = i_log st ++ [(kind, dr_inputs row)] /\
         (exists outs, D (i_log st) (kind, dr_inputs row) = DrvOk outs) /\
         (er_update_output er = false -> dr_outputs row = []))
  | ItErr _ (IE_Driver e) st' =>
      exists er st1 kind, get_row G tc fuel st = GRRow er st1 /\
        i_log st' = i_log st ++ [(kind, er_inputs er)] /\ D (i_log st) (kind, er_inputs er) = DrvErr e
  | ItErr _ (IE_Runtime r) st' =>
      i_log st' = i_log st /\ (exists x, r = RT_Expr x) \/
      (exists er st1 outs, get_row G tc fuel st = GRRow er st1 /\ er_update_output er = true /\
         i_log st' = i_log st ++ [(RW, er_inputs er)] /\ D (i_log st) (RW, er_inputs er) = DrvOk outs)
  | _ => True
  end.
Proof. exact inext_calls. Qed.

(* any number of next() calls: the log is accounted for item by item *)
Theorem C02_call_accounting : forall (G : gen) (DE : Type) (D : driver DE) (w_default : bool) (tc : testcase)
  (fuel n : nat) (st : istate) (items : list (item_view DE)) (st' : istate),
  collect G DE D w_default tc fuel n st = (items, Some st') ->
  exists calls, i_log st' = i_log st ++ calls /\ trace DE D w_default (i_log st) items calls.
Proof. exact collect_log. Qed.

(* rows only: the calls' input lists are exactly the rows' inputs, in order (laziness: nothing
   is sent for a row before the next() that returns it) *)
Theorem C02_rows_verbatim : forall (G : gen) (DE : Type) (D : driver DE) (w_default : bool) (tc : testcase)
  (fuel n : nat) (st : istate) (rows : list data_row) (st' : istate),
  collect G DE D w_default tc fuel n st = (map VRow rows, Some st') ->
  exists calls, i_log st' = i_log st ++ calls /\ map snd calls = map dr_inputs rows.
Proof. exact collect_log_rows. Qed.

(* nothing is sent once next() has returned None *)
Theorem C02_nothing_after_none : forall (G : gen) (DE : Type) (D : driver DE) (w_default : bool) (tc : testcase)
  (fuel : nat) (st st' : istate),
  inext G DE D w_default tc fuel st = ItNone DE st' ->
  forall fuel', fuel' <> 0 -> inext G DE D w_default tc fuel' st' = ItNone DE st'.
Proof. exact next_after_none. Qed.

(* THROUGH ERRORS (a caller that keeps calling next() after error items, collect_e): the log is accounted for item by item - a row: its one call; a driver error: exactly the failing call; an unusable answer: the call that produced it; an evaluation error of the program: no call; None: no call, and it is the last item *)
Theorem C02_call_accounting_through_errors :
  forall (G : gen) (DE : Type) (D : driver DE) (w_default : bool) (tc : testcase) 
  (fuel n : nat) (st : istate) (items : list (item_view DE)) (st' : istate),
  collect_e G DE D w_default tc fuel n st = (items, Some st') ->
  exists calls : list call,
  i_log st' = i_log st ++ calls /\ trace_e DE D w_default (i_log st) items calls.
Proof. exact collect_e_log. Qed.

(* never more than one driver call per item *)
Theorem C02_at_most_one_call_per_item :
  forall (DE : Type) (D : driver DE) (w_default : bool) (lg : list call) (items : list (item_view DE))
  (calls : list call), trace_e DE D w_default lg items calls -> (length calls <= length items)%nat.
Proof. exact trace_e_calls_le_items. Qed.

(* item by item: which call (if any) belongs to it; a row's call carries exactly the row's inputs *)
Theorem C02_each_call_belongs_to_one_item :
  forall (DE : Type) (D : driver DE) (w_default : bool) (lg : list call) (items : list (item_view DE))
  (calls : list call),
  trace_e DE D w_default lg items calls ->
  exists per : list (option call), Forall2 (item_call DE) items per /\ calls = calls_of per.
Proof. exact trace_e_rows_verbatim. Qed.

(* a run of rows only: the calls' input lists are exactly the rows' inputs, in order *)
Theorem C02_rows_verbatim_through_errors :
  forall (G : gen) (DE : Type) (D : driver DE) (w_default : bool) (tc : testcase) 
  (fuel n : nat) (st : istate) (rows : list data_row) (st' : istate),
  collect_e G DE D w_default tc fuel n st = (map VRow rows, Some st') ->
  exists calls : list call, i_log st' = i_log st ++ calls /\ map snd calls = map dr_inputs rows.
Proof. exact collect_e_log_rows. Qed.

(* the caller stops at None: nothing is asked and nothing is sent after it *)
Theorem C02_none_is_the_last_item :
  forall (G : gen) (DE : Type) (D : driver DE) (w_default : bool) (tc : testcase) 
  (fuel n : nat) (st : istate) (items : list (item_view DE)) (st' : istate),
  collect_e G DE D w_default tc fuel n st = (items, Some st') ->
  forall i : nat, nth_error items i = Some VNone -> i = (length items - 1)%nat.
Proof. exact collect_e_nothing_after_none. Qed.


Check C02_one_call_per_item.
Print Assumptions C02_one_call_per_item.
Print Assumptions C02_call_accounting.
Print Assumptions C02_call_accounting_through_errors.
Print Assumptions C02_each_call_belongs_to_one_item.
