(* C05 - Clock (C) and don't-care (X) inputs expand into the documented row sequences.
   SPEC: ExpandSpec.expand_spec.  MODEL: Iter.expand_x / expand_c / prepare_cache + pop.
   Property theorems only; proofs in proofs/ExpandProof.v. *)
From DTR Require Import Prelude I64 Ast FramedMap Lexer Parser Bind Eval Stmt Iter Static ExpandSpec.
From DTR.proofs Require Import ExpandProof IterLogProof RunRefineE IterLogProofE VectorProof OutputsRunProof VarsRunProof LinesRunProof ExpansionRunProof.
Local Open Scope nat_scope.

(* For EVERY bound test and EVERY source row (any width, any number and position of X, C, Z,
   numbers): preparing the cache and popping, again and again until the cache is empty, yields
   exactly the rows of the specification, in order. *)
Theorem C05_expansion : forall (tc : testcase) (row : dentries),
  de_update_output row = true ->
  exists fuel, pops tc fuel [row] = Ok (spec_rows tc row).
Proof. exact ExpandProof.C05_expansion. Qed.

(* also with rows of an earlier expansion still on the stack (every call re-expands) *)
Theorem C05_expansion_any_stack : forall (tc : testcase) (f : nat) (stack : list dentries),
  f = S (length (flat_map (spec_rows_gen tc) stack)) ->
  pops tc f stack = Ok (flat_map (spec_rows_gen tc) stack).
Proof. exact pops_stack. Qed.

(* 2^k assignments, times 3 when there is a clock *)
Theorem C05_row_count : forall (tc : testcase) (row : dentries),
  length (spec_rows tc row) =
  2 ^ count_input_cols tc DX (de_entries row) * (if count_input_cols tc DC (de_entries row) =? 0 then 1 else 3).
Proof. exact ExpandProof.C05_row_count. Qed.

(* X / Z (and anything else) in columns that are not input columns is never expanded *)
Theorem C05_expected_never_expanded : forall (tc : testcase) (row r : dentries) (i : nat),
  In r (spec_rows tc row) -> entry_is_input tc i = false ->
  length (de_entries r) = length (de_entries row) /\
  (nth_error (de_entries r) i = nth_error (de_entries row) i \/
   de_update_output r = false /\ pure_expected_col tc i = true /\ i < length (de_entries row) /\
   nth_error (de_entries r) i = Some DX).
Proof. exact ExpandProof.C05_expected_never_expanded. Qed.

(* the fuel that the model of expand_x uses always suffices *)
Theorem C05_expand_x_terminates : forall (tc : testcase) (row : dentries) (rest : list dentries),
  expand_x tc (S (length (de_entries row))) (row :: rest) <> OOF.
Proof. exact expand_x_never_oof. Qed.

(* RUN LEVEL, through error items: the calls of next() that belong to one source row (the call that fetched it from the statement iterator and the calls served from the expansion cache after it) hand to the driver exactly the documented sequence for that row - spec_rows: every assignment of its X entries, leftmost fastest, 0 before 1, each with its clock triple - each vector once, in that order, WHATEVER becomes of the calls (a row, a failed call, a refused answer, a failing declared signal); a run that is cut short has sent a prefix *)
Theorem C05_group_is_the_expansion :
  forall (G : gen) (DE : Type) (D : driver DE) (w_default : bool) (tc : testcase) 
  (fuel n : nat) (st0 : istate) (pre : list (step DE)) (s : step DE) (mid post : list (step DE))
  (w : list dentry) (l : N) (it' : siter) (c' : ctx),
  try_new DE D tc = NewOk DE st0 ->
  steps_e G DE D w_default tc fuel n st0 = pre ++ s :: mid ++ post ->
  refill_call (step_pre DE s) = true ->
  Forall (fun x : step DE => refill_call (step_pre DE x) = false) mid ->
  snext G fuel (i_iter (step_pre DE s)) (i_ctx (step_pre DE s)) =
  NYield ctx xfail (list dentry) w l it' c' ->
  exists (ers : list evaluated_row) (rows rest : list dentries),
  spec_rows tc (source_row w l) = rows ++ rest /\
  map (fun x : step DE => handed G tc fuel (step_pre DE x)) (s :: mid) = map Some ers /\
  evaluated_seq tc (i_prev (step_pre DE s)) rows ers /\
  i_log (end_state DE (step_pre DE s) (s :: mid)) =
  i_log (step_pre DE s) ++ map (call_of w_default) ers /\
  pending tc (end_state DE (step_pre DE s) (s :: mid)) = rest /\
  (rest = [] <-> refill_call (end_state DE (step_pre DE s) (s :: mid)) = true) /\
  (forall (y : step DE) (post' : list (step DE)),
  post = y :: post' -> step_pre DE y = end_state DE (step_pre DE s) (s :: mid)).
Proof. exact group_is_the_expansion. Qed.

(* which of these calls read the outputs: exactly the third of each clock triple and every row without C (the first two of a triple are write-only), and every row of the group carries the source row's line *)
Theorem C05_calls_of_a_group :
  forall (G : gen) (DE : Type) (D : driver DE) (w_default : bool) (tc : testcase) 
  (fuel n : nat) (st0 : istate) (pre : list (step DE)) (s : step DE) (mid post : list (step DE))
  (w : list dentry) (l : N) (it' : siter) (c' : ctx),
  steps_e G DE D w_default tc fuel n st0 = pre ++ s :: mid ++ post ->
  refill_call (step_pre DE s) = true ->
  Forall (fun x : step DE => refill_call (step_pre DE x) = false) mid ->
  snext G fuel (i_iter (step_pre DE s)) (i_ctx (step_pre DE s)) =
  NYield ctx xfail (list dentry) w l it' c' ->
  exists (ers : list evaluated_row) (calls : list call),
  map (fun x : step DE => handed G tc fuel (step_pre DE x)) (s :: mid) = map Some ers /\
  i_log (end_state DE (step_pre DE s) (s :: mid)) = i_log (step_pre DE s) ++ calls /\
  length calls = length (s :: mid) /\
  map snd calls = map er_inputs ers /\
  map er_update_output ers = firstn (length (s :: mid)) (group_flags tc w) /\
  map fst calls = map (flag_kind w_default) (firstn (length (s :: mid)) (group_flags tc w)) /\
  Forall (fun er : evaluated_row => er_line er = l) ers.
Proof. exact calls_of_a_group. Qed.

Theorem C05_which_calls_read :
  forall (tc : testcase) (w : list dentry) (i : nat) (b : bool),
  nth_error (group_flags tc w) i = Some b ->
  b = (if (count_input_cols tc DC w =? 0)%nat then true else (i mod 3 =? 2)%nat).
Proof. exact group_flags_spec. Qed.

(* a complete group has 2^k items, times 3 with a clock *)
Theorem C05_number_of_items_of_a_group :
  forall (G : gen) (DE : Type) (D : driver DE) (w_default : bool) (tc : testcase) 
  (fuel n : nat) (st0 : istate) (pre : list (step DE)) (s : step DE) (mid post : list (step DE))
  (w : list dentry) (l : N) (it' : siter) (c' : ctx),
  steps_e G DE D w_default tc fuel n st0 = pre ++ s :: mid ++ post ->
  refill_call (step_pre DE s) = true ->
  Forall (fun x : step DE => refill_call (step_pre DE x) = false) mid ->
  snext G fuel (i_iter (step_pre DE s)) (i_ctx (step_pre DE s)) =
  NYield ctx xfail (list dentry) w l it' c' ->
  refill_call (end_state DE (step_pre DE s) (s :: mid)) = true ->
  length (s :: mid) = length (spec_rows tc (source_row w l)) /\
  length (s :: mid) =
  (2 ^ count_input_cols tc DX w * (if count_input_cols tc DC w =? 0 then 1 else 3))%nat.
Proof. exact number_of_items_of_a_group. Qed.

(* the same for the static iterator *)
Theorem C05_static_group_is_the_expansion :
  forall (G : gen) (tc : testcase) (fuel n : nat) (st0 : istate) (pre : list (step N)) 
  (s : step N) (mid post : list (step N)) (w : list dentry) (l : N) (it' : siter)
  (c' : ctx),
  try_iter_static tc = StaticOk st0 ->
  steps_e G N Script.static_driver true tc fuel n st0 = pre ++ s :: mid ++ post ->
  refill_call (step_pre N s) = true ->
  Forall (fun x : step N => refill_call (step_pre N x) = false) mid ->
  snext G fuel (i_iter (step_pre N s)) (i_ctx (step_pre N s)) =
  NYield ctx xfail (list dentry) w l it' c' ->
  exists (ers : list evaluated_row) (rows rest : list dentries),
  spec_rows tc (source_row w l) = rows ++ rest /\
  map (fun x : step N => handed G tc fuel (step_pre N x)) (s :: mid) = map Some ers /\
  evaluated_seq tc (i_prev (step_pre N s)) rows ers /\
  i_log (end_state N (step_pre N s) (s :: mid)) = i_log (step_pre N s) ++ map (call_of true) ers /\
  pending tc (end_state N (step_pre N s) (s :: mid)) = rest /\
  (rest = [] <-> refill_call (end_state N (step_pre N s) (s :: mid)) = true) /\
  (forall (y : step N) (post' : list (step N)),
  post = y :: post' -> step_pre N y = end_state N (step_pre N s) (s :: mid)).
Proof. exact static_group_is_the_expansion. Qed.



Check C05_expansion.
Print Assumptions C05_expansion.
Print Assumptions C05_expansion_any_stack.
Print Assumptions C05_group_is_the_expansion.
Print Assumptions C05_calls_of_a_group.
Print Assumptions C05_number_of_items_of_a_group.
