(* C05 - Clock (C) and don't-care (X) inputs expand into the documented row sequences.
   SPEC: ExpandSpec.expand_spec.  MODEL: Iter.expand_x / expand_c / prepare_cache + pop.
   Property theorems only; proofs in proofs/ExpandProof.v. *)
From DTR Require Import Prelude I64 Ast Parser Bind Eval Stmt Iter ExpandSpec.
From DTR.proofs Require Import ExpandProof.
Local Open Scope nat_scope.

(* For EVERY bound test and EVERY source row (any width, any number and position of X, C, Z,
   numbers): preparing the cache and popping, again and again until the cache is empty, yields
   exactly the rows of the specification, in order. *)
Theorem C05_expansion : forall (tc : testcase) (row : dentries),
  de_update_output row = true ->
  exists fuel, pops tc fuel [row] = Ok (spec_rows tc row).
Proof. exact ExpandProof.C05_expansion. Qed.

(* also with rows of an earlier expansion still on the stack (every call re-expands) *)
Theorem C05_expansion_any_stack : forall (tc : testcase) (f : nat) (stack : list dentries),
  f = S (length (flat_map (spec_rows_gen tc) stack)) ->
  pops tc f stack = Ok (flat_map (spec_rows_gen tc) stack).
Proof. exact pops_stack. Qed.

(* 2^k assignments, times 3 when there is a clock *)
Theorem C05_row_count : forall (tc : testcase) (row : dentries),
  length (spec_rows tc row) =
  2 ^ count_input_cols tc DX (de_entries row) * (if count_input_cols tc DC (de_entries row) =? 0 then 1 else 3).
Proof. exact ExpandProof.C05_row_count. Qed.

(* X / Z (and anything else) in columns that are not input columns is never expanded *)
Theorem C05_expected_never_expanded : forall (tc : testcase) (row r : dentries) (i : nat),
  In r (spec_rows tc row) -> entry_is_input tc i = false ->
  length (de_entries r) = length (de_entries row) /\
  (nth_error (de_entries r) i = nth_error (de_entries row) i \/
   de_update_output r = false /\ pure_expected_col tc i = true /\ i < length (de_entries row) /\
   nth_error (de_entries r) i = Some DX).
Proof. exact ExpandProof.C05_expected_never_expanded. Qed.

(* the fuel that the model of expand_x uses always suffices *)
Theorem C05_expand_x_terminates : forall (tc : testcase) (row : dentries) (rest : list dentries),
  expand_x tc (S (length (de_entries row))) (row :: rest) <> OOF.
Proof. exact expand_x_never_oof. Qed.

Check C05_expansion.
Print Assumptions C05_expansion.
Print Assumptions C05_expansion_any_stack.
