(* C12 - Malformed programs are rejected, never silently accepted.
   SPEC: Grammar.v - the test language as inductive relations over (kind, text) token lists; the only
   place where "well-formed" is defined.  MODEL: Parser.v.  Soundness: accepted => grammatical;
   then, from the grammar alone, each malformation of the property's list is excluded.
   Property theorems only; proofs in proofs/GrammarProof.v (and ParserProof.parse_wf). *)
From DTR Require Import Prelude I64 Ast FramedMap Lexer Parser Grammar.
From DTR.proofs Require Import RadixProof LexerProof ParserProof GrammarProof ExprRoundTrip GrammarComplete.
Local Open Scope nat_scope.

(* every accepted text is derivable in the grammar of Grammar.v (the only place where "well-formed" is defined): for EVERY string *)
Theorem C12_accepted_implies_grammatical :
  forall (s : text) (p : parsed) (h : header) (ts : list token),
  parse s = Ok p ->
  parse_header s = Ok h ->
  lex_body (h_pos h) (h_rest h) = Some ts -> G_program (length (h_names h)) (view ts).
Proof. exact C12_accepted_implies_grammatical. Qed.

(* ... together with what the header parser and the declare bookkeeping guarantee: header followed by a line break, header names distinct, declare names distinct *)
Theorem C12_accepted_text :
  forall (s : text) (p : parsed),
  parse s = Ok p ->
  exists (h : header) (ts : list token),
  parse_header s = Ok h /\
  lex_body (h_pos h) (h_rest h) = Some ts /\
  G_program (length (h_names h)) (view ts) /\
  blocks_ok (map tkind ts) = true /\
  (exists u : list N, s = u ++ 10%N :: h_rest h) /\
  NoDup (h_names h) /\ NoDup (map (fun v : name * expr * span => fst (fst v)) (p_virtuals p)).
Proof. exact C12_accepted_text. Qed.

(* an accepted text has its loop/while ... end loop/end while keywords properly nested and matched, and no end at top level *)
Theorem C12_unterminated_block_rejected :
  forall (s : text) (p : parsed) (h : header) (ts : list token),
  parse s = Ok p ->
  parse_header s = Ok h -> lex_body (h_pos h) (h_rest h) = Some ts -> blocks_ok (map tkind ts) = true.
Proof. exact C12_unterminated_block_rejected. Qed.

(* a text that ends inside a loop/while block (with or without a trailing newline) is never accepted *)
Theorem C12_truncated_text_rejected :
  forall (s : text) (h : header) (pre : list token) (eof : token),
  parse_header s = Ok h ->
  lex_body (h_pos h) (h_rest h) = Some (pre ++ [eof]) ->
  0 < depth_after (map tkind pre) -> forall p : parsed, parse s <> Ok p.
Proof. exact C12_truncated_text_rejected. Qed.

(* from the GRAMMAR alone: being grammatical excludes each malformation of the property's list ... *)
Theorem C12_blocks_matched :
  forall (w : nat) (l : list tok), G_program w l -> blocks_ok (map fst l) = true.
Proof. exact G_blocks_matched. Qed.

Theorem C12_truncation_rejected :
  forall (w : nat) (l : list (tk * name)) (x : name),
  depth_after (map fst l) > 0 -> ~ G_program w (l ++ [(TEof, x)]).
Proof. exact G_truncation_rejected. Qed.

Theorem C12_unbalanced_rejected :
  forall (w : nat) (l : list (tk * name)) (x : name),
  blocks_ok (map fst l) = false -> ~ G_program w (l ++ [(TEof, x)]).
Proof. exact G_unbalanced_rejected. Qed.

(* ... a data row has exactly as many entries as the header has columns (bits(k,..) counting k) *)
Theorem C12_row_width_exact :
  forall (w : nat) (r : list tok), G_row w r -> row_columns 0 r = w.
Proof. exact G_row_width_exact. Qed.

Theorem C12_statement_row_width :
  forall (w : nat) (t : tok) (l : list tok),
  G_stmt w (t :: l) -> is_row_start (fst t) = true -> row_columns 0 (t :: l) = w.
Proof. exact G_stmt_row_width. Qed.

(* ... a call names a function of the table and has its number of arguments *)
Theorem C12_calls_well_formed :
  forall (fn a : name) (rest : list (tk * name)),
  G_factor ((TIdent, fn) :: (TLParen, a) :: rest) ->
  exists (args : list (tk * name)) (b : name) (n : nat),
  rest = args ++ [(TRParen, b)] /\ func_arity fn = Some (N.of_nat n) /\ G_args n args.
Proof. exact G_calls_well_formed. Qed.

(* ... every integer literal fits in 64 bits *)
Theorem C12_literals_fit :
  forall (w : nat) (l : list tok),
  G_program w l ->
  forall t : tok, In t l -> is_number_kind (fst t) = true -> exists v : Z, number_value t = Some v.
Proof. exact G_literals_fit. Qed.

(* ... a bits width is at most 64 *)
Theorem C12_bits_width_le_64 :
  forall (k : nat) (a : name) (l : list (tk * name)),
  G_entry k ((TBits, a) :: l) ->
  exists (b : name) (t : tk * name) (v : Z) (c : name) (e : list (tk * name))
  (d : name),
  l = (TLParen, b) :: t :: (TComma, c) :: e ++ [(TRParen, d)] /\
  number_value t = Some v /\ (v <= 64)%Z /\ k = Z.to_nat v /\ G_expr e.
Proof. exact G_bits_width_le_64. Qed.

Theorem C12_header_followed_by_newline :
  forall (s : text) (h : header), parse_header s = Ok h -> exists u : list N, s = u ++ 10%N :: h_rest h.
Proof. exact C12_header_followed_by_newline. Qed.

(* COMPLETENESS (the converse of C12_accepted_implies_grammatical): a text whose body is a program of the grammar and whose declared names are distinct IS accepted - the grammar of Grammar.v is not stricter than the parser *)
Theorem C12_grammatical_implies_accepted :
  forall (s : text) (h : header) (ts : list token),
  parse_header s = Ok h ->
  lex_body (h_pos h) (h_rest h) = Some ts ->
  G_program (length (h_names h)) (view ts) ->
  NoDup (declared_names (view ts)) -> exists p : parsed, parse s = Ok p.
Proof. exact grammatical_text_accepted. Qed.

(* so the accepted texts are EXACTLY the grammatical ones with distinct declared names ... *)
Theorem C12_accepted_iff_grammatical :
  forall (s : text) (h : header) (ts : list token),
  parse_header s = Ok h ->
  lex_body (h_pos h) (h_rest h) = Some ts ->
  (exists p : parsed, parse s = Ok p) <->
  G_program (length (h_names h)) (view ts) /\ NoDup (declared_names (view ts)).
Proof. exact accepted_iff_grammatical. Qed.

(* ... for every string *)
Theorem C12_accepted_language :
  forall s : text,
  (exists p : parsed, parse s = Ok p) <->
  (exists (h : header) (ts : list token),
  parse_header s = Ok h /\
  lex_body (h_pos h) (h_rest h) = Some ts /\
  G_program (length (h_names h)) (view ts) /\ NoDup (declared_names (view ts))).
Proof. exact accepted_language. Qed.

(* a grammatical text is rejected only for a repeated declare, and then with that error *)
Theorem C12_grammatical_text_rejected_only_for_a_repeated_declare :
  forall (s : text) (h : header) (ts : list token),
  parse_header s = Ok h ->
  lex_body (h_pos h) (h_rest h) = Some ts ->
  G_program (length (h_names h)) (view ts) ->
  ~ NoDup (declared_names (view ts)) ->
  exists (e : perr) (n : name), parse s = Err e /\ pe_kind e = PE_DuplicateVirtualSignal n.
Proof. exact grammatical_text_rejected. Qed.

(* token level, any starting state: header width, distinct declared names (with those already declared) and enough fuel are the only side conditions *)
Theorem C12_grammatical_implies_accepted_tokens :
  forall (w : nat) (ts : list token) (input_len : N) (hdr : list name) (st : pstate) 
  (fuel : nat) (block : list stmt),
  G_program w (view ts) ->
  length hdr = w ->
  toks st = ts ->
  NoDup (map fst (pvirtuals st) ++ declared_names (view ts)) ->
  (2 + 4 * length ts <= fuel)%nat ->
  exists result : list stmt * pstate, parse_block_loop input_len hdr fuel None block st = Ok result.
Proof. exact grammatical_implies_accepted. Qed.

(* the side condition is necessary (closed example) *)
Theorem C12_repeated_declare_is_grammatical_but_rejected :
  exists (h : header) (ts : list token),
  parse_header ex_dup = Ok h /\
  lex_body (h_pos h) (h_rest h) = Some ts /\
  G_program (length (h_names h)) (view ts) /\
  declared_names (view ts) =
  [s2n (String.String (Ascii.Ascii false false false true true true true false) String.EmptyString);
  s2n (String.String (Ascii.Ascii false false false true true true true false) String.EmptyString)] /\
  (exists e : perr,
  parse ex_dup = Err e /\
  pe_kind e =
  PE_DuplicateVirtualSignal
  (s2n
  (String.String (Ascii.Ascii false false false true true true true false) String.EmptyString))).
Proof. exact duplicate_declare_grammatical_but_rejected. Qed.

(* every grammatical expression token list is a printing of some expression tree (so the round trip of C08 applies to it) *)
Theorem C12_every_grammatical_expression_is_a_printing :
  forall ts : list tok, G_expr ts -> exists e : expr, Prints e ts.
Proof. exact G_expr_Prints. Qed.


Check C12_accepted_implies_grammatical.
(* non-vacuity: the block checker on concrete keyword sequences *)
Example C12_example : blocks_ok [TLoop; TWhile; TEnd; TWhile; TEnd; TLoop; TEof] = true /\
  blocks_ok [TLoop; TEnd; TWhile; TEof] = false /\ blocks_ok [TEnd; TLoop; TEof] = false /\
  depth_after [TLoop; TIdent; TEol] = 1.
Proof. repeat split. Qed.
Print Assumptions C12_accepted_implies_grammatical.
Print Assumptions C12_truncated_text_rejected.
Print Assumptions C12_blocks_matched.
Print Assumptions C12_grammatical_implies_accepted.
Print Assumptions C12_accepted_iff_grammatical.
Print Assumptions C12_accepted_language.
Print Assumptions C12_grammatical_text_rejected_only_for_a_repeated_declare.
