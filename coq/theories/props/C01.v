(* C01 - Control flow and variables determine exactly which rows run, and in what order.
   SPEC: StmtSpec.exec (the sequential reading).  MODEL: Stmt.next (StmtIterator::next_with_context)
   driven to the end.  Property theorems only; proofs in proofs/StmtRefine.v, StmtCorollaries.v. *)
From DTR Require Import Prelude I64 Ast FramedMap Parser Bind Eval Stmt StmtSpec StmtSpecE Iter ExpandSpec WfSpec RunSpec RunSpecE.
From DTR.proofs Require Import FramedMapProof StmtRefine StmtRefineE StmtCorollaries AfterErrorProof IterLogProof NoPanicProof RunRefine RunRefineE.
Local Open Scope Z_scope.

(* For EVERY program, context, evaluation functions and row handler (the handler stands for all
   the iterator does between two rows: driver calls, set_outputs; it may change what later
   expressions read and it may stop after any number of rows, so every finite prefix of every
   run - also of a non-terminating program - is covered): whatever the sequential reading
   yields, the resumable iterator yields, and conversely. *)
Theorem C01_iterator_refines_sequential_reading :
  forall (C F W : Type)
         (eval : C -> expr -> C * (Z + F)) (row_eval : C -> list dentry -> C * (W + F))
         (setv : C -> name -> Z -> C) (getv : C -> name -> option Z) (push pop reset : C -> C)
         (H : Type) (handler : H -> W * N -> C -> (H * C) + H),
  forall prog c h fuel o,
    exec C F W eval row_eval setv getv push pop reset H handler fuel prog c h = o ->
    o <> OutOfFuel ->
    exists fuel',
      drain C F W eval row_eval setv getv push pop reset H handler fuel' (SI prog Iterate) c h = o.
Proof. exact iterator_refines_sequential_reading. Qed.

Theorem C01_sequential_reading_refines_iterator :
  forall (C F W : Type)
         (eval : C -> expr -> C * (Z + F)) (row_eval : C -> list dentry -> C * (W + F))
         (setv : C -> name -> Z -> C) (getv : C -> name -> option Z) (push pop reset : C -> C)
         (H : Type) (handler : H -> W * N -> C -> (H * C) + H),
  forall prog c h fuel o,
    drain C F W eval row_eval setv getv push pop reset H handler fuel (SI prog Iterate) c h = o ->
    o <> OutOfFuel ->
    exists fuel',
      exec C F W eval row_eval setv getv push pop reset H handler fuel' prog c h = o.
Proof. exact sequential_reading_refines_iterator. Qed.

(* the instance that the iterator model (Iter.get_row) really calls *)
Theorem C01_model_iterator_is_the_instance : forall G fuel it c,
  snext G fuel it c = next ctx xfail (list dentry) (lift_eval G) (lift_row_eval G) ctx_set loop_var_value
                           ctx_push_frame ctx_pop_frame ctx_reset_random_seed fuel it c.
Proof. exact snext_is_instance. Qed.

Theorem C01_concrete : forall (G : gen) (H : Type) (handler : H -> list dentry * N -> ctx -> H * ctx + H)
  prog c h fuel (o : outcome ctx xfail H),
  cexec G H handler fuel prog c h = o -> o <> OutOfFuel ->
  exists fuel', cdrain G H handler fuel' (SI prog Iterate) c h = o.
Proof. exact concrete_iterator_refines. Qed.

(* THEOREM T - the whole iterator (constructor state, get_row with its cache and re-expansion, the statement iterator, one driver call per next) against the sequential reading of RunSpec.v: whatever the first n calls of next() yield - rows with all entries, error items, the final None - and whatever calls the driver received, is what the sequential reading of the program yields with the row handler "expand per ExpandSpec, one call per expanded row, stop when the caller's n calls are used up". For every program, driver, generator, n. *)
Theorem C01_run_is_the_sequential_reading :
 forall (G : gen) (DE : Type) (D : driver DE) (w_default : bool) (tc : testcase) 
 (fuel n : nat) (st0 : istate) (items : list (item_view DE)) (st' : istate),
 try_new DE D tc = NewOk DE st0 ->
 (n >= 1)%nat ->
 collect G DE D w_default tc fuel n st0 = (items, Some st') ->
 exists (fuel' : nat) (sn : list (seen DE)) (lg : list call),
 seen_of DE (run_spec G DE D w_default tc fuel' n st0) = Some (sn, lg) /\
 items = map view_of_seen sn /\ i_log st' = lg.
Proof. exact T_run_refines_sequential_reading. Qed.

(* ... and conversely (wf_tc excludes model panics; it holds for every accepted test, C11) *)
Theorem C01_sequential_reading_is_the_run :
 forall (G : gen) (DE : Type) (D : driver DE) (w_default : bool) (tc : testcase) (width : nat),
 wf_tc tc width ->
 forall (fuel' n : nat) (st0 : istate) (sn : list (seen DE)) (lg : list call),
 try_new DE D tc = NewOk DE st0 ->
 (n >= 1)%nat ->
 seen_of DE (run_spec G DE D w_default tc fuel' n st0) = Some (sn, lg) ->
 exists (fuel : nat) (st' : istate),
 collect G DE D w_default tc fuel n st0 = (map view_of_seen sn, Some st') /\ i_log st' = lg.
Proof. exact T_sequential_reading_refines_run. Qed.

(* THEOREM T THROUGH ERRORS - the same for a caller that keeps calling next() after error items, until its n calls
   are used up or None comes (collect_e), against RunSpecE.run_spec_e: the sequential reading in which a driver error
   or an unusable answer costs one call and the run goes on with the REST of the row's expansion, and an evaluation
   error of the program costs one call, makes no driver call, and the reading goes on behind the failing statement
   (StmtSpecE.exec_e). *)
Theorem C01_run_through_errors_is_the_sequential_reading :
 forall (G : gen) (DE : Type) (D : driver DE) (w_default : bool) (tc : testcase)
 (fuel n : nat) (st0 : istate) (items : list (item_view DE)) (st' : istate),
 try_new DE D tc = NewOk DE st0 ->
 (n >= 1)%nat ->
 collect_e G DE D w_default tc fuel n st0 = (items, Some st') ->
 exists (fuel' : nat) (sn : list (seen DE)) (lg : list call),
 seen_of_e DE (run_spec_e G DE D w_default tc fuel' n st0) = Some (sn, lg) /\
 items = map view_of_seen sn /\ i_log st' = lg.
Proof. exact T_run_refines_sequential_reading_through_errors. Qed.

Theorem C01_sequential_reading_through_errors_is_the_run :
 forall (G : gen) (DE : Type) (D : driver DE) (w_default : bool) (tc : testcase) (width : nat),
 wf_tc tc width ->
 forall (fuel' n : nat) (st0 : istate) (sn : list (seen DE)) (lg : list call),
 try_new DE D tc = NewOk DE st0 ->
 (n >= 1)%nat ->
 seen_of_e DE (run_spec_e G DE D w_default tc fuel' n st0) = Some (sn, lg) ->
 exists (fuel : nat) (st' : istate),
 collect_e G DE D w_default tc fuel n st0 = (map view_of_seen sn, Some st') /\ i_log st' = lg.
Proof. exact T_sequential_reading_refines_run_through_errors. Qed.


(* not at all when n <= 0 *)
Theorem C01_loop_not_entered_when_bound_not_positive :
  forall G (H : Type) handler f v e body r c (h : H) c1 m,
  lift_eval G c e = (c1, inl m) -> m <= 0 ->
  cexec G H handler (S f) (SLoop v e body :: r) c h = cexec G H handler f r c1 h.
Proof. exact loop_not_entered. Qed.

(* while opens no scope and runs nothing when its condition is 0 *)
Theorem C01_while_not_entered : forall G (H : Type) handler f e body r c (h : H) c1,
  lift_eval G c e = (c1, inl 0) ->
  cexec G H handler (S (S f)) (SWhile e body :: r) c h = cexec G H handler (S f) r c1 h.
Proof. exact while_not_entered. Qed.

(* let binds / rebinds in the innermost scope *)
Theorem C01_let_binds_innermost : forall c x v, ctx_wf c ->
  ctx_wf (ctx_set c x v) /\ env (ctx_set c x v) = set_frames (env c) x v.
Proof. exact let_binds_innermost. Qed.

(* everything bound inside a loop, its counter included, disappears when the loop ends,
   uncovering any outer binding it shadowed *)
Theorem C01_loop_scope_is_dropped : forall c (binds : list (name * Z)), ctx_wf c ->
  env (ctx_pop_frame (fold_left (fun acc kv => ctx_set acc (fst kv) (snd kv)) binds (ctx_push_frame c))) = env c.
Proof. exact loop_scope_is_dropped. Qed.

Theorem C01_variable_lookup_innermost : forall c x, ctx_wf c -> fm_get (cvars c) x = lookup (env c) x.
Proof. exact variable_lookup_innermost. Qed.

(* bits(k,e): k one-bit entries, most significant first *)
Theorem C01_bits_msb_first : forall k v j, (j < k)%nat ->
  nth_error (bits_entries k v) j = Some (DNum (Z.land (Z.shiftr v (Z.of_nat (k - 1 - j))) 1)).
Proof. exact bits_msb_first. Qed.

(* THROUGH ERRORS. SPEC: StmtSpecE.exec_e, the sequential reading for a caller that keeps iterating after error items (a failing let / row / loop bound is skipped, a failing while condition is evaluated again; on_err is the caller's reaction to an error item, it may stop). MODEL: the resumable iterator driven by such a caller (drain_e). Both directions, every program, context, evaluator, row handler and error handler *)
Theorem C01_iterator_refines_sequential_reading_through_errors :
  forall (C F W : Type) (eval : C -> expr -> C * (Z + F)) (row_eval : C -> list dentry -> C * (W + F))
  (setv : C -> name -> Z -> C) (getv : C -> name -> option Z) (push pop reset : C -> C)
  (H : Type) (handler : H -> W * N -> C -> H * C + H) (on_err : H -> F -> C -> H * C + H)
  (prog : list stmt) (c : C) (h : H) (fuel : nat) (o : outcome C F H),
  exec_e C F W eval row_eval setv getv push pop reset H handler on_err fuel prog c h = o ->
  o <> OutOfFuel ->
  exists fuel' : nat,
  drain_e C F W eval row_eval setv getv push pop reset H handler on_err fuel' (SI prog Iterate) c h =
  o.
Proof. exact iterator_refines_sequential_reading_through_errors. Qed.

(* the converse *)
Theorem C01_sequential_reading_refines_iterator_through_errors :
  forall (C F W : Type) (eval : C -> expr -> C * (Z + F)) (row_eval : C -> list dentry -> C * (W + F))
  (setv : C -> name -> Z -> C) (getv : C -> name -> option Z) (push pop reset : C -> C)
  (H : Type) (handler : H -> W * N -> C -> H * C + H) (on_err : H -> F -> C -> H * C + H)
  (prog : list stmt) (c : C) (h : H) (fuel : nat) (o : outcome C F H),
  drain_e C F W eval row_eval setv getv push pop reset H handler on_err fuel (SI prog Iterate) c h = o ->
  o <> OutOfFuel ->
  exists fuel' : nat,
  exec_e C F W eval row_eval setv getv push pop reset H handler on_err fuel' prog c h = o.
Proof. exact sequential_reading_refines_iterator_through_errors. Qed.

(* the two readings agree on every run of the plain reading that does not end in an evaluation failure *)
Theorem C01_reading_through_errors_agrees_with_the_plain_reading :
  forall (C F W : Type) (eval : C -> expr -> C * (Z + F)) (row_eval : C -> list dentry -> C * (W + F))
  (setv : C -> name -> Z -> C) (getv : C -> name -> option Z) (push pop reset : C -> C)
  (H : Type) (handler : H -> W * N -> C -> H * C + H) (on_err : H -> F -> C -> H * C + H)
  (prog : list stmt) (c : C) (h : H) (fuel : nat) (o : outcome C F H),
  exec C F W eval row_eval setv getv push pop reset H handler fuel prog c h = o ->
  (forall (x : F) (c' : C) (h' : H), o <> Fail x c' h') ->
  o <> OutOfFuel ->
  exec_e C F W eval row_eval setv getv push pop reset H handler on_err fuel prog c h = o.
Proof. exact exec_e_agrees_unless_fail. Qed.


(* ---- the iterator after an error item (callers may keep calling next()) *)
(* after an error item the iterator can be called again (the Rust object was mutated before `?` returned): a failing `let` is consumed - the old binding stays - and the run goes on with the rest of the block *)
Theorem C01_after_failing_let :
  forall (C F W : Type) (eval : C -> expr -> C * (Z + F)) (row_eval : C -> list dentry -> C * (W + F))
  (setv : C -> name -> Z -> C) (getv : C -> name -> option Z) (push pop reset : C -> C)
  (f : nat) (n : name) (e : expr) (r : list stmt) (c c1 : C) (x : F),
  eval c e = (c1, inr x) ->
  next C F W eval row_eval setv getv push pop reset (S f) (SI (SLet n e :: r) Iterate) c =
  NErr C F W x (SI r Iterate) c1.
Proof. exact next_err_let. Qed.

(* a data row with a failing entry is consumed (skipped) *)
Theorem C01_after_failing_row :
  forall (C F W : Type) (eval : C -> expr -> C * (Z + F)) (row_eval : C -> list dentry -> C * (W + F))
  (setv : C -> name -> Z -> C) (getv : C -> name -> option Z) (push pop reset : C -> C)
  (f : nat) (d : list dentry) (l : N) (r : list stmt) (c c1 : C) (x : F),
  row_eval c d = (c1, inr x) ->
  next C F W eval row_eval setv getv push pop reset (S f) (SI (Ast.SRow d l :: r) Iterate) c =
  NErr C F W x (SI r Iterate) c1.
Proof. exact next_err_row. Qed.

(* a loop whose bound fails is skipped as a whole: no frame is opened *)
Theorem C01_after_failing_loop_bound :
  forall (C F W : Type) (eval : C -> expr -> C * (Z + F)) (row_eval : C -> list dentry -> C * (W + F))
  (setv : C -> name -> Z -> C) (getv : C -> name -> option Z) (push pop reset : C -> C)
  (f : nat) (v : name) (e : expr) (body r : list stmt) (c c1 : C) (x : F),
  eval c e = (c1, inr x) ->
  next C F W eval row_eval setv getv push pop reset (S f) (SI (SLoop v e body :: r) Iterate) c =
  NErr C F W x (SI r Iterate) c1.
Proof. exact next_err_loop_bound. Qed.

(* a failing `while` condition leaves the iterator AT the condition: the next call evaluates it again *)
Theorem C01_after_failing_while_condition :
  forall (C F W : Type) (eval : C -> expr -> C * (Z + F)) (row_eval : C -> list dentry -> C * (W + F))
  (setv : C -> name -> Z -> C) (getv : C -> name -> option Z) (push pop reset : C -> C)
  (f : nat) (rest : list stmt) (ws : wstate) (c c1 : C) (x : F),
  eval c (wcond ws) = (c1, inr x) ->
  next C F W eval row_eval setv getv push pop reset (S f) (SI rest (StartWhile ws)) c =
  NErr C F W x (SI rest (StartWhile ws)) c1.
Proof. exact next_err_while_cond. Qed.

(* an error inside a loop body leaves the loop (its frame, its counter) as it is, with the body's iterator after the failing statement *)
Theorem C01_error_inside_loop_keeps_the_loop_open :
  forall (C F W : Type) (eval : C -> expr -> C * (Z + F)) (row_eval : C -> list dentry -> C * (W + F))
  (setv : C -> name -> Z -> C) (getv : C -> name -> option Z) (push pop reset : C -> C)
  (f : nat) (rest : list stmt) (inner : siter) (ls : lstate) (c : C) (x : F)
  (inner' : siter) (c' : C),
  next C F W eval row_eval setv getv push pop reset f inner c = NErr C F W x inner' c' ->
  next C F W eval row_eval setv getv push pop reset (S f) (SI rest (IterInner inner ls)) c =
  NErr C F W x (SI rest (IterInner inner' ls)) c'.
Proof. exact next_err_inner. Qed.

(* the same inside a while body *)
Theorem C01_error_inside_while_keeps_it_open :
  forall (C F W : Type) (eval : C -> expr -> C * (Z + F)) (row_eval : C -> list dentry -> C * (W + F))
  (setv : C -> name -> Z -> C) (getv : C -> name -> option Z) (push pop reset : C -> C)
  (f : nat) (rest : list stmt) (inner : siter) (ws : wstate) (c : C) (x : F)
  (inner' : siter) (c' : C),
  next C F W eval row_eval setv getv push pop reset f inner c = NErr C F W x inner' c' ->
  next C F W eval row_eval setv getv push pop reset (S f) (SI rest (WhileInner inner ws)) c =
  NErr C F W x (SI rest (WhileInner inner' ws)) c'.
Proof. exact next_err_while_inner. Qed.


Check C01_iterator_refines_sequential_reading.

(* non-vacuity: a loop with a row, a zero-bound loop that must not run, a shadowing let *)
Definition ex_prog : list stmt :=
  [ SLet [120%N] (ENum 7);
    SLoop [105%N] (ENum 2) [ SLet [120%N] (EVar [105%N]); Ast.SRow [DExpr (EVar [120%N])] 3 ];
    SLoop [106%N] (ENum 0) [ Ast.SRow [DNum 99] 5 ];
    Ast.SRow [DExpr (EVar [120%N])] 7 ].
Definition ex_handler (h : list (list dentry * N)) (r : list dentry * N) (c : ctx) : (list (list dentry * N) * ctx) + list (list dentry * N) :=
  inl (h ++ [r], c).
Example C01_example :
  exists c', cexec (fun _ _ => 0) _ ex_handler 20 ex_prog (ctx_new []) [] =
             Fin c' [([DNum 0], 3%N); ([DNum 1], 3%N); ([DNum 7], 7%N)].
Proof. eexists. vm_compute. reflexivity. Qed.

Print Assumptions C01_iterator_refines_sequential_reading.
Print Assumptions C01_sequential_reading_refines_iterator.
Print Assumptions C01_run_is_the_sequential_reading.
Print Assumptions C01_sequential_reading_is_the_run.
Print Assumptions C01_after_failing_while_condition.
Print Assumptions C01_error_inside_loop_keeps_the_loop_open.
Print Assumptions C01_iterator_refines_sequential_reading_through_errors.
Print Assumptions C01_sequential_reading_refines_iterator_through_errors.
Print Assumptions C01_run_through_errors_is_the_sequential_reading.
Print Assumptions C01_sequential_reading_through_errors_is_the_run.
