(* Abstract syntax: src/expr.rs (BinOp, UnaryOp, Expr), src/stmt.rs (Stmt, DataEntry),
   src/lexer/token.rs (TokenKind, Token). *)
From DTR Require Import Prelude.
From Coq Require Import String Ascii.

Definition s2n (s : string) : name := map N_of_ascii (list_ascii_of_string s).

Inductive binop :=
| Equal | NotEqual | GreaterThan | LessThan | GreaterThanOrEqual | LessThanOrEqual
| Or | Xor | And | ShiftLeft | ShiftRight | Plus | Minus | Times | Divide | Reminder.

Inductive unop := UMinus | ULogicalNot | UBinaryNot.

Inductive expr :=
| ENum (n : Z)
| EVar (x : name)
| EBin (op : binop) (l r : expr)
| EUn (op : unop) (e : expr)
| EFunc (f : name) (args : list expr).

Inductive dentry :=
| DNum (n : Z)
| DExpr (e : expr)
| DBits (k : N) (e : expr)
| DX | DZ | DC.

Inductive stmt :=
| SLet (x : name) (e : expr)
| SRow (data : list dentry) (line : N)
| SLoop (v : name) (max : expr) (body : list stmt)
| SWhile (cond : expr) (body : list stmt)
| SReset.

Scheme Equality for binop.
Scheme Equality for unop.

(* structural equality on expressions (derive(PartialEq) on Expr) *)
Fixpoint expr_eqb (a b : expr) {struct a} : bool :=
  match a, b with
  | ENum n, ENum m => Z.eqb n m
  | EVar x, EVar y => name_eqb x y
  | EBin o l r, EBin o' l' r' => binop_beq o o' && expr_eqb l l' && expr_eqb r r'
  | EUn o e, EUn o' e' => unop_beq o o' && expr_eqb e e'
  | EFunc f args, EFunc f' args' =>
      name_eqb f f' &&
      (fix go (l : list expr) (l' : list expr) {struct l} : bool :=
         match l, l' with
         | [], [] => true
         | x :: r, y :: r' => expr_eqb x y && go r r'
         | _, _ => false
         end) args args'
  | _, _ => false
  end.

Definition dentry_eqb (a b : dentry) : bool :=
  match a, b with
  | DNum n, DNum m => Z.eqb n m
  | DExpr e, DExpr e' => expr_eqb e e'
  | DBits k e, DBits k' e' => N.eqb k k' && expr_eqb e e'
  | DX, DX | DZ, DZ | DC, DC => true
  | _, _ => false
  end.

(* token kinds; WS and Comment are skipped by the lexer and never reach the parser *)
Inductive tk :=
| TComma | TSemi | TPlus | TMinus | TTimes | TDivide | TReminder | TLogicalNot | TBinaryNot
| TXor | TAnd | TOr | TShiftLeft | TShiftRight | TEqual | TNotEqual | TLessThanOrEqual
| TGreaterThanOrEqual | TLessThan | TGreaterThan | TLParen | TRParen
| TEnd | TLoop | TRepeat | TBits | TLet | TResetRandom | TWhile | TDeclare
| TProgram | TInit | TMemory | TDef | TCall
| TIdent | TDecInt | THexInt | TBinInt | TOctInt
| TEol | TEof | TError.

Scheme Equality for tk.

(* byte span start..end *)
Definition span := (N * N)%type.

Record token := { tkind : tk; tspan : span; ttext : name }.

(* value types: src/value.rs *)
Inductive inval := IVal (n : Z) | IZ.
Inductive outval := OVal (n : Z) | OZ | OX.
Inductive expval := XVal (n : Z) | XZ | XX.

Definition inval_eqb (a b : inval) : bool :=
  match a, b with IVal n, IVal m => Z.eqb n m | IZ, IZ => true | _, _ => false end.
Definition outval_eqb (a b : outval) : bool :=
  match a, b with OVal n, OVal m => Z.eqb n m | OZ, OZ | OX, OX => true | _, _ => false end.
Definition expval_eqb (a b : expval) : bool :=
  match a, b with XVal n, XVal m => Z.eqb n m | XZ, XZ | XX, XX => true | _, _ => false end.

(* ExpectedValue::check *)
Definition expected_check (e : expval) (o : outval) : bool :=
  match e with
  | XVal n => match o with OVal m => Z.eqb n m | _ => false end
  | XZ => match o with OZ => true | _ => false end
  | XX => true
  end.

(* signals: src/lib.rs *)
Inductive sigtype :=
| TyInput (default : inval)
| TyOutput
| TyBidir (default : inval)
| TyVirtual (e : expr).

Record signal := { sname : name; sbits : N; styp : sigtype }.

Definition sigtype_eqb (a b : sigtype) : bool :=
  match a, b with
  | TyInput d, TyInput d' => inval_eqb d d'
  | TyOutput, TyOutput => true
  | TyBidir d, TyBidir d' => inval_eqb d d'
  | TyVirtual e, TyVirtual e' => expr_eqb e e'
  | _, _ => false
  end.

Definition signal_eqb (a b : signal) : bool :=
  name_eqb (sname a) (sname b) && N.eqb (sbits a) (sbits b) && sigtype_eqb (styp a) (styp b).

Definition is_input (s : signal) : bool :=
  match styp s with TyInput _ | TyBidir _ => true | _ => false end.
Definition is_output (s : signal) : bool :=
  match styp s with TyOutput | TyBidir _ => true | _ => false end.
Definition is_virtual (s : signal) : bool :=
  match styp s with TyVirtual _ => true | _ => false end.
Definition default_value (s : signal) : option inval :=
  match styp s with TyInput d | TyBidir d => Some d | _ => None end.
