(* Expression evaluation and the evaluation context: src/expr.rs, src/eval_context.rs.
   Panic sites: 10 function not in FUNC_TABLE, 11 wrong number of arguments
   (both excluded at parse time). *)
From DTR Require Import Prelude I64 Ast FramedMap Parser.
From Coq Require Import String.
Open Scope Z_scope.

Inductive xerr :=
| XE_UnexpectedValueForSignal (n : name) (v : outval)
| XE_UnknownVariable (n : name)
| XE_FunctionNotImplemented (n : name)
| XE_DivisionByZero
| XE_EmptyRandomRange (max : Z).

(* The generator: the value of a draw is a function of the ranges (lo, hi) drawn
   since the last (re)seed, most recent first, and of the range now asked for. *)
Definition rng_state := list (Z * Z).
Definition gen := rng_state -> Z * Z -> Z.

Record ctx := {
  cvars : fmap Z;
  calt : fmap Z;
  couts : list (name * outval);   (* HashMap built by collect(): a later entry overrides *)
  crng : rng_state
}.

Definition ctx_new (outs : list (name * outval)) : ctx :=
  {| cvars := fm_new; calt := fm_new; couts := outs; crng := [] |}.

Definition ctx_with_vars (c : ctx) (v : fmap Z) : ctx :=
  {| cvars := v; calt := calt c; couts := couts c; crng := crng c |}.
Definition ctx_with_rng (c : ctx) (r : rng_state) : ctx :=
  {| cvars := cvars c; calt := calt c; couts := couts c; crng := r |}.

Definition ctx_push_frame (c : ctx) : ctx := ctx_with_vars c (fm_push_frame (cvars c)).
Definition ctx_pop_frame (c : ctx) : ctx := ctx_with_vars c (fm_pop_frame (cvars c)).
Definition ctx_set (c : ctx) (x : name) (v : Z) : ctx := ctx_with_vars c (fm_set (cvars c) x v).
Definition ctx_set_outputs (c : ctx) (outs : list (name * outval)) : ctx :=
  {| cvars := cvars c; calt := calt c; couts := outs; crng := crng c |}.
Definition ctx_reset_random_seed (c : ctx) : ctx := ctx_with_rng c [].
Definition ctx_swap_vars (c : ctx) : ctx :=
  {| cvars := calt c; calt := cvars c; couts := couts c; crng := crng c |}.
Definition ctx_vars (c : ctx) : list (name * Z) := fm_flatten (cvars c).

(* EvalContext::get: variables first, then the outputs map *)
Definition ctx_get (c : ctx) (x : name) : option outval :=
  match fm_get (cvars c) x with
  | Some n => Some (OVal n)
  | None => option_map snd (find_last (fun kv => name_eqb (fst kv) x) (couts c))
  end.

Definition binop_eval (op : binop) (l r : Z) : R xerr Z :=
  if (r =? 0) && (match op with Divide | Reminder => true | _ => false end)
  then Err XE_DivisionByZero
  else Ok (match op with
           | Equal => b2z (l =? r)
           | NotEqual => b2z (negb (l =? r))
           | GreaterThan => b2z (l >? r)
           | LessThan => b2z (l <? r)
           | GreaterThanOrEqual => b2z (l >=? r)
           | LessThanOrEqual => b2z (l <=? r)
           | Or => Z.lor l r
           | Xor => Z.lxor l r
           | And => Z.land l r
           | ShiftLeft => wshl l r
           | ShiftRight => wshr l r
           | Plus => wadd l r
           | Minus => wsub l r
           | Times => wmul l r
           | Divide => wdiv l r
           | Reminder => wrem l r
           end).

Definition unop_eval (op : unop) (v : Z) : Z :=
  match op with
  | UMinus => wneg v
  | ULogicalNot => b2z (v =? 0)
  | UBinaryNot => Z.lnot v
  end.

Definition name_random : name := s2n "random".
Definition name_ite : name := s2n "ite".
Definition name_signExt : name := s2n "signExt".

Section EVAL.
Variable G : gen.

(* Expr::eval takes &EvalContext; the only thing it can change is the generator
   (RefCell<StdRng>), so the model threads the generator state. *)
Fixpoint eval (c : ctx) (e : expr) (rng : rng_state) {struct e} : R xerr Z * rng_state :=
  match e with
  | ENum n => (Ok n, rng)
  | EVar x =>
      match ctx_get c x with
      | None => (Err (XE_UnknownVariable x), rng)
      | Some (OVal n) => (Ok n, rng)
      | Some v => (Err (XE_UnexpectedValueForSignal x v), rng)
      end
  | EUn op a =>
      match eval c a rng with
      | (Ok v, rng1) => (Ok (unop_eval op v), rng1)
      | other => other
      end
  | EBin op l r =>
      match eval c l rng with
      | (Ok lv, rng1) =>
          match eval c r rng1 with
          | (Ok rv, rng2) => (binop_eval op lv rv, rng2)
          | other => other
          end
      | other => other
      end
  | EFunc f args =>
      match func_arity f with
      | None => (Panic 10%N, rng)
      | Some arity =>
          if negb (Nlen args =? arity)%N then (Panic 11%N, rng)
          else if name_eqb f name_random then
            match args with
            | [a] =>
                match eval c a rng with
                | (Ok max, rng1) =>
                    if max <=? 1 then (Err (XE_EmptyRandomRange max), rng1)
                    else (Ok (G rng1 (1, max)), (1, max) :: rng1)
                | other => other
                end
            | _ => (Panic 11%N, rng)
            end
          else if name_eqb f name_ite then
            match args with
            | [t; a; b] =>
                match eval c t rng with
                | (Ok tv, rng1) => if tv =? 0 then eval c b rng1 else eval c a rng1
                | other => other
                end
            | _ => (Panic 11%N, rng)
            end
          else (Err (XE_FunctionNotImplemented f), rng)
      end
  end.

(* evaluation against a context, updating the context's generator *)
Definition ctx_eval (c : ctx) (e : expr) : ctx * R xerr Z :=
  let (r, rng') := eval c e (crng c) in (ctx_with_rng c rng', r).

(* DataEntry::eval and the loop in the DataRow arm of next_with_context *)
Fixpoint bits_entries (k : nat) (v : Z) : list dentry :=
  match k with
  | O => []
  | S k' => DNum (Z.land (Z.shiftr v (Z.of_nat k')) 1) :: bits_entries k' v
  end.

Definition entry_eval (c : ctx) (d : dentry) : ctx * R xerr (list dentry) :=
  match d with
  | DExpr e => let (c1, r) := ctx_eval c e in
               (c1, match r with Ok v => Ok [DNum v] | Err x => Err x | Panic s => Panic s | OOF => OOF end)
  | DBits k e => let (c1, r) := ctx_eval c e in
               (c1, match r with Ok v => Ok (bits_entries (N.to_nat k) v)
                            | Err x => Err x | Panic s => Panic s | OOF => OOF end)
  | DX | DZ | DC | DNum _ => (c, Ok [d])
  end.

Fixpoint row_eval (c : ctx) (data : list dentry) : ctx * R xerr (list dentry) :=
  match data with
  | [] => (c, Ok [])
  | d :: r =>
      match entry_eval c d with
      | (c1, Ok es) =>
          match row_eval c1 r with
          | (c2, Ok es') => (c2, Ok (es ++ es'))
          | other => other
          end
      | (c1, Err x) => (c1, Err x)
      | (c1, Panic s) => (c1, Panic s)
      | (c1, OOF) => (c1, OOF)
      end
  end.

End EVAL.

(* what the parser guarantees about every expression it builds: every call names a function
   of FUNC_TABLE with the right number of arguments (so panic sites 10 and 11 are unreachable) *)
Fixpoint wf_expr (e : expr) : Prop :=
  match e with
  | ENum _ | EVar _ => True
  | EBin _ l r => wf_expr l /\ wf_expr r
  | EUn _ a => wf_expr a
  | EFunc f args =>
      func_arity f = Some (Nlen args) /\
      (fix go (l : list expr) : Prop := match l with [] => True | x :: r => wf_expr x /\ go r end) args
  end.
