(* Lexer model: a hand-written maximal-munch scanner standing for the automata that
   logos generates from src/lexer/token.rs (HeaderTokenKind and TokenKind), plus
   TokenIter (src/lexer/mod.rs), which turns lexer errors into Error tokens and
   appends one Eof token.  Compared token by token with the real lexers through the
   verif-hooks functions lex_body / lex_header. *)
From DTR Require Import Prelude Ast Generated.
From Coq Require Import String.
Open Scope N_scope.

Definition utf8_len (c : N) : N :=
  if c <? 128 then 1 else if c <? 2048 then 2 else if c <? 65536 then 3 else 4.

Fixpoint text_bytes (s : text) : N :=
  match s with [] => 0 | c :: r => utf8_len c + text_bytes r end.

(* character classes *)
Definition in_range (lo hi c : N) : bool := (lo <=? c) && (c <=? hi).
(* [ \t\r\f] *)
Definition is_ws (c : N) : bool := (c =? 32) || (c =? 9) || (c =? 13) || (c =? 12).
Definition is_nl (c : N) : bool := c =? 10.
(* [A-Za-z_] *)
Definition is_ident_start (c : N) : bool := in_range 65 90 c || in_range 97 122 c || (c =? 95).
(* \d : Unicode Nd *)
Definition is_unicode_digit (c : N) : bool :=
  existsb (fun r => in_range (fst r) (snd r) c) unicode_nd.
(* [A-Za-z]|_|\d *)
Definition is_ident_cont (c : N) : bool := is_ident_start c || is_unicode_digit c.
Definition is_dec_digit (c : N) : bool := in_range 48 57 c.
Definition is_dec_start (c : N) : bool := in_range 49 57 c.
Definition is_oct_digit (c : N) : bool := in_range 48 55 c.
Definition is_bin_digit (c : N) : bool := in_range 48 49 c.
Definition is_hex_digit (c : N) : bool := in_range 48 57 c || in_range 97 102 c || in_range 65 70 c.

(* longest prefix whose characters satisfy p, and the rest *)
Fixpoint span_while (p : N -> bool) (s : text) : text * text :=
  match s with
  | [] => ([], [])
  | c :: r => if p c then let (a, b) := span_while p r in (c :: a, b) else ([], s)
  end.

Definition keywords : list (name * tk) :=
  [ (s2n "end", TEnd); (s2n "loop", TLoop); (s2n "repeat", TRepeat); (s2n "bits", TBits);
    (s2n "let", TLet); (s2n "resetRandom", TResetRandom); (s2n "while", TWhile);
    (s2n "declare", TDeclare); (s2n "program", TProgram); (s2n "init", TInit);
    (s2n "memory", TMemory); (s2n "def", TDef); (s2n "call", TCall) ]%string.

Definition keyword_or_ident (w : name) : tk :=
  match find (fun kw => name_eqb (fst kw) w) keywords with
  | Some (_, k) => k
  | None => TIdent
  end.

(* first byte of the UTF-8 encoding of a scalar value *)
Definition utf8_lead (c : N) : N :=
  if c <? 128 then c
  else if c <? 2048 then 192 + c / 64
  else if c <? 65536 then 224 + c / 4096
  else 240 + c / 262144.

(* A quirk of the automaton logos 0.14 generates for TokenKind (observed through the verif-hooks
   lexer function, see DESIGN.md section 9): the Ident regex ends in `\d`, which has multi-byte
   members.  When a keyword is immediately followed by a character that is NOT an identifier
   character but whose first UTF-8 byte is also the first byte of some Unicode decimal digit, the
   automaton has already left the keyword's path for the identifier's when it finds out, and falls
   back to `Ident` instead of the keyword (e.g. `loop` directly followed by U+1F600, U+0E4F, U+FF0F,
   U+065F).  Such a text is rejected by the parser either way (the next token is Error). *)
Definition is_nd_lead (b : N) : bool :=
  existsb (fun r => (utf8_lead (fst r) =? b) || (utf8_lead (snd r) =? b)) unicode_nd.

Definition ident_kind (w : name) (rest : text) : tk :=
  match rest with
  | d :: _ => if (128 <=? d) && is_nd_lead (utf8_lead d) then TIdent else keyword_or_ident w
  | [] => keyword_or_ident w
  end.

(* single-character tokens *)
Definition punct1 (c : N) : option tk :=
  if c =? 44 then Some TComma else if c =? 59 then Some TSemi
  else if c =? 43 then Some TPlus else if c =? 45 then Some TMinus
  else if c =? 42 then Some TTimes else if c =? 47 then Some TDivide
  else if c =? 37 then Some TReminder else if c =? 33 then Some TLogicalNot
  else if c =? 126 then Some TBinaryNot else if c =? 94 then Some TXor
  else if c =? 38 then Some TAnd else if c =? 124 then Some TOr
  else if c =? 61 then Some TEqual else if c =? 60 then Some TLessThan
  else if c =? 62 then Some TGreaterThan else if c =? 40 then Some TLParen
  else if c =? 41 then Some TRParen else None.

(* two-character tokens: << >> != <= >= *)
Definition punct2 (c d : N) : option tk :=
  if (c =? 60) && (d =? 60) then Some TShiftLeft
  else if (c =? 62) && (d =? 62) then Some TShiftRight
  else if (c =? 33) && (d =? 61) then Some TNotEqual
  else if (c =? 60) && (d =? 61) then Some TLessThanOrEqual
  else if (c =? 62) && (d =? 61) then Some TGreaterThanOrEqual
  else None.

(* One step of the statement lexer on a non-empty text: (kind, lexeme, rest);
   kind None = skipped (WS / Comment). *)
Definition lex_one (s : text) : option (option tk * text * text) :=
  match s with
  | [] => None
  | c :: r =>
    if is_ws c then
      let (w, r') := span_while is_ws r in Some (None, c :: w, r')
    else if c =? 35 then
      let (w, r') := span_while (fun x => negb (is_nl x)) r in Some (None, c :: w, r')
    else if is_nl c then Some (Some TEol, [c], r)
    else if is_ident_start c then
      let (w, r') := span_while is_ident_cont r in
      Some (Some (ident_kind (c :: w) r'), c :: w, r')
    else if is_dec_start c then
      let (w, r') := span_while is_dec_digit r in Some (Some TDecInt, c :: w, r')
    else if c =? 48 then
      let oct := let (w, r') := span_while is_oct_digit r in Some (Some TOctInt, c :: w, r') in
      match r with
      | x :: r1 =>
        if (x =? 120) || (x =? 88) then
          let (h, r2) := span_while is_hex_digit r1 in
          match h with [] => oct | _ => Some (Some THexInt, c :: x :: h, r2) end
        else if (x =? 98) || (x =? 66) then
          let (h, r2) := span_while is_bin_digit r1 in
          match h with [] => oct | _ => Some (Some TBinInt, c :: x :: h, r2) end
        else oct
      | [] => oct
      end
    else
      match r with
      | d :: r1 =>
        match punct2 c d with
        | Some k => Some (Some k, [c; d], r1)
        | None => match punct1 c with
                  | Some k => Some (Some k, [c], r)
                  | None => Some (Some TError, [c], r)
                  end
        end
      | [] => match punct1 c with
              | Some k => Some (Some k, [c], r)
              | None => Some (Some TError, [c], r)
              end
      end
  end.

(* TokenIter: all tokens of the statement lexer from byte offset pos, then Eof.
   None = out of fuel (never happens with fuel > length s, see Lexer lemmas). *)
Fixpoint lex_body_from (fuel : nat) (pos : N) (s : text) : option (list token) :=
  match fuel with
  | O => None
  | S f =>
    match lex_one s with
    | None => Some [ {| tkind := TEof; tspan := (pos, pos); ttext := [] |} ]
    | Some (k, w, r) =>
      let pos' := pos + text_bytes w in
      match lex_body_from f pos' r with
      | None => None
      | Some ts =>
        match k with
        | None => Some ts
        | Some kind => Some ({| tkind := kind; tspan := (pos, pos'); ttext := w |} :: ts)
        end
      end
    end
  end.

Definition lex_body (pos : N) (s : text) : option (list token) :=
  lex_body_from (S (List.length s)) pos s.

(* Header lexer: SignalName = [^ \t\r\f\n]+ , WS skipped, Eol *)
Inductive htk := HName | HEol.
Definition is_name_char (c : N) : bool := negb (is_ws c || is_nl c).

Definition hlex_one (s : text) : option (option htk * text * text) :=
  match s with
  | [] => None
  | c :: r =>
    if is_ws c then let (w, r') := span_while is_ws r in Some (None, c :: w, r')
    else if is_nl c then Some (Some HEol, [c], r)
    else let (w, r') := span_while is_name_char r in Some (Some HName, c :: w, r')
  end.
