(* Specification side of property C16: what loading a .dig document means.
   A circuit description [descr] lists the pins and the test cases of a document,
   [tree_of] is the element structure Digital writes for it, and [file_of] says directly
   which file (or error) loading it gives.  Definitions only; proofs are in proofs/DigProof.v. *)
From DTR Require Import Prelude Ast Lexer Parser Bind Xml Dig.
From Coq Require Import String.

(* ------------------------------------------------------------------ circuit descriptions *)

Inductive pin_kind := PIn | PClock | POut.

Record pin := {
  pk : pin_kind;
  plabel : name;               (* [] = no label: such a pin is not a signal *)
  pbits : option N;            (* None = attribute absent *)
  pdefault : option inval      (* None = attribute absent *)
}.

(* pins and tests in document order *)
Record descr := { d_pins : list pin; d_tests : list (name * text) }.

(* what [tree_of] can represent faithfully: numbers that fit the Rust types *)
Definition wf_pin (p : pin) : Prop :=
  (forall n, pbits p = Some n -> (n < two64)%N) /\
  (forall z, pdefault p = Some (IVal z) -> (- Z.of_N two63 <= z < Z.of_N two63)%Z).

Definition wf_descr (d : descr) : Prop := Forall wf_pin (d_pins d).

(* ------------------------------------------------------------------ the tree Digital writes *)

(* decimal digits of n in front of acc; fuel bounds the number of digits *)
Fixpoint digits_fuel (fuel : nat) (n : N) (acc : text) : text :=
  match fuel with
  | O => acc
  | S f =>
      let acc' := (48 + n mod 10)%N :: acc in
      if (n <? 10)%N then acc' else digits_fuel f (n / 10)%N acc'
  end.

Definition render_N (n : N) : text := digits_fuel (S (N.to_nat (N.log2 n))) n [].

Definition render_Z (z : Z) : text :=
  if (z <? 0)%Z then 45%N :: render_N (Z.to_N (- z)) else render_N (Z.to_N z).

(* an element holding the text t; the empty text gives an element without children *)
Definition text_children (t : text) : list xnode :=
  match t with [] => [] | _ => [XText t] end.

Definition string_node (t : text) : xnode := XElem (s2n "string") [] (text_children t).

(* <entry><string>KEY</string>VALUE</entry> *)
Definition entry_node (e : name * xnode) : xnode :=
  XElem (s2n "entry") [] [XElem (s2n "string") [] [XText (fst e)]; snd e].

(* <visualElement><elementName>KIND</elementName><elementAttributes>ENTRIES</elementAttributes>
   <pos x="0" y="0"/></visualElement> *)
Definition ve_node (kind : name) (entries : list (name * xnode)) : xnode :=
  XElem (s2n "visualElement") []
    [ XElem (s2n "elementName") [] [XText kind];
      XElem (s2n "elementAttributes") [] (map entry_node entries);
      XElem (s2n "pos") [(s2n "x", s2n "0"); (s2n "y", s2n "0")] [] ].

Definition kind_name (k : pin_kind) : name :=
  match k with PIn => s2n "In" | PClock => s2n "Clock" | POut => s2n "Out" end.

(* <value v="3" z="false"/> *)
Definition value_node (v : inval) : xnode :=
  match v with
  | IVal z => XElem (s2n "value") [(s2n "v", render_Z z); (s2n "z", s2n "false")] []
  | IZ => XElem (s2n "value") [(s2n "v", s2n "0"); (s2n "z", s2n "true")] []
  end.

Definition pin_entries (p : pin) : list (name * xnode) :=
  [(s2n "Label", string_node (plabel p))]
  ++ match pbits p with
     | Some n => [(s2n "Bits", XElem (s2n "int") [] [XText (render_N n)])]
     | None => []
     end
  ++ match pdefault p with
     | Some v => [(s2n "InDefault", value_node v)]
     | None => []
     end.

Definition pin_node (p : pin) : xnode := ve_node (kind_name (pk p)) (pin_entries p).

Definition test_entries (t : name * text) : list (name * xnode) :=
  [ (s2n "Label", string_node (fst t));
    (s2n "Testdata",
     XElem (s2n "testData") [] [XElem (s2n "dataString") [] (text_children (snd t))]) ].

Definition test_node (t : name * text) : xnode := ve_node (s2n "Testcase") (test_entries t).

Definition tree_of (d : descr) : xdoc :=
  [ XElem (s2n "circuit") []
      [ XElem (s2n "version") [] [XText (s2n "2")];
        XElem (s2n "attributes") [] [];
        XElem (s2n "visualElements") [] (map pin_node (d_pins d) ++ map test_node (d_tests d));
        XElem (s2n "wires") [] [];
        XElem (s2n "measurementOrdering") [] [] ] ].

(* ------------------------------------------------------------------ test headers against pins *)

(* all column names of all test headers; None when some header does not parse *)
Fixpoint header_names (tests : list (name * text)) : option (list name) :=
  match tests with
  | [] => Some []
  | t :: r =>
      match parse_header (snd t), header_names r with
      | Ok h, Some l => Some (h_names h ++ l)
      | _, _ => None
      end
  end.

(* first occurrences of the names not in seen *)
Fixpoint dedup (seen : list name) (l : list name) : list name :=
  match l with
  | [] => []
  | x :: r => if mem x seen then dedup seen r else x :: dedup (x :: seen) r
  end.

Section Resolve.
  Variable sigs : list signal.   (* the pins: inputs, then outputs *)
  Variable used : list name.     (* the column names of the test headers *)

  Definition pin_named (n : name) : bool := mem n (map sname sigs).

  (* the column n stands for the output side of the input x *)
  Definition out_side (n x : name) : bool :=
    name_eqb n (x ++ out_suffix) && negb (pin_named n) && input_named sigs x.

  Definition bidirectional (x : name) : bool := existsb (fun n => out_side n x) used.

  Definition known (n : name) : bool :=
    pin_named n || existsb (fun s => out_side n (sname s)) sigs.

  Definition missing : list name := dedup [] (filter (fun n => negb (known n)) used).

  (* an input whose output side is used becomes bidirectional (when several pins carry
     the same label: the first of them) *)
  Fixpoint mark (seen : list name) (l : list signal) : list signal :=
    match l with
    | [] => []
    | s :: r =>
        match styp s with
        | TyInput d =>
            if bidirectional (sname s) && negb (mem (sname s) seen)
            then {| sname := sname s; sbits := sbits s; styp := TyBidir d |}
            else s
        | _ => s
        end :: mark (sname s :: seen) r
    end.
End Resolve.

Definition resolve (sigs : list signal) (tests : list (name * text)) : R dig_err dig_file :=
  match header_names tests with
  | None => Err DE_EmptyTest
  | Some used =>
      match missing sigs used with
      | [] => Ok {| df_signals := mark sigs used [] sigs; df_tests := tests |}
      | m => Err (DE_MissingSignals m)
      end
  end.

(* ------------------------------------------------------------------ the file of a description *)

Definition labelled (p : pin) : bool := match plabel p with [] => false | _ => true end.
Definition is_input_pin (p : pin) : bool := match pk p with PIn | PClock => true | POut => false end.
Definition is_output_pin (p : pin) : bool := match pk p with POut => true | _ => false end.

Definition width (p : pin) : N := match pbits p with Some n => n | None => 1%N end.
Definition default_of (p : pin) : inval := match pdefault p with Some v => v | None => IVal 0 end.

Definition input_signal (p : pin) : signal :=
  {| sname := plabel p; sbits := width p; styp := TyInput (default_of p) |}.
Definition output_signal (p : pin) : signal :=
  {| sname := plabel p; sbits := width p; styp := TyOutput |}.

(* labelled In / Clock pins in document order, then labelled Out pins *)
Definition pin_signals (d : descr) : list signal :=
  map input_signal (filter (fun p => is_input_pin p && labelled p) (d_pins d)) ++
  map output_signal (filter (fun p => is_output_pin p && labelled p) (d_pins d)).

Definition file_of (d : descr) : R dig_err dig_file := resolve (pin_signals d) (d_tests d).
