(* The scripted driver used by the correspondence check, as an instance of Iter.driver.
   The Rust harness implements the same script (harness/src/main.rs); both are glue of
   the tie, not part of the model of the crate. *)
From DTR Require Import Prelude I64 Ast Bind Eval Iter.
Open Scope Z_scope.

Inductive fault :=
| FErr (code : N)                 (* the call fails with this error code *)
| FDrop (i : nat)                 (* the i-th output is left out *)
| FAdd (sig : nat)                (* signals[sig] is appended with value 7 *)
| FDup (i : nat)                  (* the i-th output is listed again at the end *)
| FSwap (i j : nat)               (* outputs i and j change places *)
| FSubst (i sig : nat)            (* the i-th output is attributed to signals[sig] *)
| FWiden (i : nat)                (* the i-th output is reported for a signal of the same name and type with one more bit *)
| FAddW (sig : nat)
| FSwapSig (i j : nat).           (* from this call on the driver's OWN table has signals i and j exchanged (in place): every entry it
                                     builds for position i of its table now describes signal j and vice versa *)              (* an entry for a signal the test does not have (signals[sig] with one more bit) is appended, value 7 *)

Record script := {
  sc_layout : list nat;              (* indices into the bound signal list, in answer order *)
  sc_table : list (list outval);     (* row (k mod length) answers call number k *)
  sc_echo : bool;                    (* numeric answers also depend on the inputs received *)
  sc_faults : list (nat * fault)     (* (call number, fault) *)
}.

Definition input_sum (ins : list in_entry) : Z :=
  fold_left (fun acc p => acc + Z.of_nat (S (fst p)) * match ie_val (snd p) with IVal v => v | IZ => 0 end)
            (combine (seq 0 (length ins)) ins) 0.

Definition base_value (sc : script) (k j : nat) : outval :=
  match sc_table sc with
  | [] => OVal 0
  | t => nth j (nth (Nat.modulo k (length t)) t []) (OVal 0)
  end.

Definition answer_value (sc : script) (k j : nat) (ins : list in_entry) : outval :=
  match base_value sc k j with
  | OVal v => if sc_echo sc then OVal (wrap64 (v + input_sum ins)) else OVal v
  | other => other
  end.

Fixpoint remove_nth {A} (i : nat) (l : list A) : list A :=
  match l, i with
  | [], _ => []
  | _ :: r, O => r
  | x :: r, S i' => x :: remove_nth i' r
  end.

Definition apply_fault (sigs : list signal) (f : fault) (outs : list out_entry) : list out_entry :=
  match f with
  | FErr _ => outs
  | FDrop i => remove_nth i outs
  | FAdd s => match nth_error sigs s with
              | Some sg => outs ++ [ {| oe_sig := sg; oe_val := OVal 7 |} ]
              | None => outs
              end
  | FDup i => match nth_error outs i with Some o => outs ++ [o] | None => outs end
  | FSwap i j => match nth_error outs i, nth_error outs j with
                 | Some a, Some b => list_set (list_set outs i b) j a
                 | _, _ => outs
                 end
  | FSubst i s => match nth_error outs i, nth_error sigs s with
                  | Some o, Some sg => list_set outs i {| oe_sig := sg; oe_val := oe_val o |}
                  | _, _ => outs
                  end
  | FAddW sg => match nth_error sigs sg with
                | Some g => outs ++ [ {| oe_sig := {| sname := sname g; sbits := N.succ (sbits g); styp := styp g |}; oe_val := OVal 7 |} ]
                | None => outs
                end
  | FSwapSig _ _ => outs
  | FWiden i => match nth_error outs i with
                | Some o => list_set outs i {| oe_sig := {| sname := sname (oe_sig o); sbits := N.succ (sbits (oe_sig o)); styp := styp (oe_sig o) |};
                                               oe_val := oe_val o |}
                | None => outs
                end
  end.

Definition fault_at (sc : script) (k : nat) : option fault :=
  option_map snd (find (fun p => Nat.eqb (fst p) k) (sc_faults sc)).

(* the driver's own signal table at call k: the test's list with every FSwapSig of a call <= k applied, in order *)
Definition swap_nth (l : list signal) (i j : nat) : list signal :=
  match nth_error l i, nth_error l j with
  | Some a, Some b => list_set (list_set l i b) j a
  | _, _ => l
  end.

Definition table_at (sigs : list signal) (sc : script) (k : nat) : list signal :=
  fold_left (fun t p => match snd p with
                        | FSwapSig i j => if Nat.leb (fst p) k then swap_nth t i j else t
                        | _ => t
                        end) (sc_faults sc) sigs.

Definition script_driver (sigs0 : list signal) (sc : script) : driver N :=
  fun log c =>
    let k := length log in
    let sigs := table_at sigs0 sc k in
    match fault_at sc k with
    | Some (FErr code) => DrvErr code
    | fo =>
        match fst c with
        | WO => DrvOk []
        | RW =>
            let outs :=
              flat_map (fun x => x)
                (mapi (fun j si => match nth_error sigs si with
                                   | Some sg => [ {| oe_sig := sg; oe_val := answer_value sc k j (snd c) |} ]
                                   | None => []
                                   end) (sc_layout sc)) in
            DrvOk (match fo with Some f => apply_fault sigs f outs | None => outs end)
        end
    end.

(* static_test::Driver: always Ok(vec![]) *)
Definition static_driver : driver N := fun _ _ => DrvOk [].
