(* The XML tree that roxmltree hands to src/dig.rs, and the navigation primitives of
   roxmltree::Node that dig.rs uses, written out.  The step text -> tree (the third-party
   crate roxmltree) is NOT modelled: the model's input is the tree.

   Conventions for whoever converts a roxmltree document into an [xdoc]:
   - tag and attribute names are LOCAL names (dig.rs compares `tag_name().name()`, which
     ignores the namespace; `attribute("z")` only matches an attribute without namespace,
     so a namespaced attribute must be given a name that cannot clash, or be dropped);
   - text and CDATA are [XText] (roxmltree already merges adjacent text/CDATA);
   - comments and processing instructions are [XOther]. *)
From DTR Require Import Prelude.

Inductive xnode :=
| XElem (tag : name) (attrs : list (name * name)) (children : list xnode)
| XText (t : text)
| XOther.                      (* comment / processing instruction *)

(* a document is the list of children of roxmltree's Root node *)
Definition xdoc := list xnode.

(* ------------------------------------------------------------------ induction principle *)

Section XnodeInd.
  Variable P : xnode -> Prop.
  Hypothesis HE : forall tag attrs children, Forall P children -> P (XElem tag attrs children).
  Hypothesis HT : forall t, P (XText t).
  Hypothesis HO : P XOther.

  Fixpoint xnode_ind2 (n : xnode) : P n :=
    match n with
    | XElem tag attrs children =>
        HE tag attrs children
           ((fix go (l : list xnode) : Forall P l :=
               match l with
               | [] => Forall_nil P
               | c :: r => Forall_cons c (xnode_ind2 c) (go r)
               end) children)
    | XText t => HT t
    | XOther => HO
    end.
End XnodeInd.

(* ------------------------------------------------------------------ navigation *)

(* Node::tag_name().name(): the local name of an element, "" for every other node *)
Definition tag_name (n : xnode) : name :=
  match n with XElem t _ _ => t | _ => [] end.

Definition is_element (n : xnode) : bool :=
  match n with XElem _ _ _ => true | _ => false end.

Definition children (n : xnode) : list xnode :=
  match n with XElem _ _ c => c | _ => [] end.

(* Node::descendants(): the node ITSELF, then all its descendants in document order *)
Fixpoint descendants (n : xnode) : list xnode :=
  n :: match n with
       | XElem _ _ cs =>
           (fix go (l : list xnode) : list xnode :=
              match l with
              | [] => []
              | c :: r => descendants c ++ go r
              end) cs
       | _ => []
       end.

(* roxmltree's Root node: not an element, its tag name is "".  It is represented by a
   pseudo element with the empty tag name (no real element has an empty name), so that
   [doc_descendants] starts with it exactly as Document::descendants() does. *)
Definition xroot (d : xdoc) : xnode := XElem [] [] d.

(* Document::descendants() = root().descendants() *)
Definition doc_descendants (d : xdoc) : list xnode := descendants (xroot d).

(* Node::text(): for an element the text of its FIRST child when that child is a text node;
   for a text node its own text.  (roxmltree also returns the body of a comment node;
   dig.rs calls text() on elements only, and [XOther] carries no body.) *)
Definition node_text (n : xnode) : option text :=
  match n with
  | XElem _ _ (XText t :: _) => Some t
  | XElem _ _ _ => None
  | XText t => Some t
  | XOther => None
  end.

(* children().find(is_element) *)
Definition first_element_child (n : xnode) : option xnode := find is_element (children n).
(* children().filter(is_element).last() *)
Definition last_element_child (n : xnode) : option xnode := find_last is_element (children n).

(* Node::attribute(key): value of the first attribute with that name; only elements have attributes *)
Definition attribute (n : xnode) (key : name) : option text :=
  match n with
  | XElem _ attrs _ => option_map snd (find (fun a => name_eqb (fst a) key) attrs)
  | _ => None
  end.

(* ------------------------------------------------------------------ unfolding lemmas *)

Lemma descendants_eq : forall n, descendants n = n :: flat_map descendants (children n).
Proof.
  destruct n as [t a cs| |]; reflexivity.
Qed.

Lemma descendants_elem : forall t a cs,
  descendants (XElem t a cs) = XElem t a cs :: flat_map descendants cs.
Proof. intros. apply descendants_eq. Qed.

Lemma descendants_text : forall t, descendants (XText t) = [XText t].
Proof. reflexivity. Qed.

Lemma descendants_other : descendants XOther = [XOther].
Proof. reflexivity. Qed.

Lemma doc_descendants_eq : forall d, doc_descendants d = xroot d :: flat_map descendants d.
Proof. intros. apply descendants_eq. Qed.

Lemma tag_name_root : forall d, tag_name (xroot d) = [].
Proof. reflexivity. Qed.

Lemma descendants_self : forall n, In n (descendants n).
Proof. intros. rewrite descendants_eq. left. reflexivity. Qed.

Lemma find_last_true : forall A (p : A -> bool) l y, find_last p l = Some y -> p y = true.
Proof.
  induction l as [|x r IH]; simpl; intros y H; [discriminate|].
  destruct (find_last p r) eqn:F.
  - inversion H; subst. apply IH. reflexivity.
  - destruct (p x) eqn:E; [|discriminate]. inversion H; subst. exact E.
Qed.
