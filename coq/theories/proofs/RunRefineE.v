(* Theorem T through errors: the iterator model IS the sequential reading, also for a caller
   that KEEPS CALLING next() after error items.
   Whatever the first n calls of next() on the model of DataRowIterator (Iter.inext) yield when
   the caller goes on after every `Err` item (collect_e: it stops only when its n calls are used
   up or None comes), and whatever calls the driver receives, is exactly what
   RunSpecE.run_spec_e says: the sequential reading of the program through errors
   (StmtSpecE.exec_e) with the row handler RunSpecE.run_handler_e and the error consumer
   RunSpecE.run_on_err.
     T_run_refines_sequential_reading_through_errors : iterator  ==> reading (no hypothesis on tc);
     T_sequential_reading_refines_run_through_errors : reading ==> iterator (under wf_tc, which
                                                       excludes the panics of the model).
   Route: the one of RunRefine.v, whose abstraction (h_of, remaining) and lemmas about the
   cache are reused.  Stmt.next is drained by a caller that hands every yielded row to
   run_handler_e and every error item to run_on_err (StmtRefineE.drain_e); `resume_e` is that
   caller in the middle of a source row; one next() with a non-empty cache is one
   RunSpecE.io_row_e, and it leaves the REST of the cache in place also when it returns an error
   item (inext_io_row_e); one next() with an empty cache whose statement iterator fails is one
   run_on_err (on_err_h_of); drain_e <=> exec_e is StmtRefineE's refinement theorem. *)
From DTR Require Import Prelude I64 Ast FramedMap Parser Bind Eval Stmt StmtSpec StmtSpecE Iter ExpandSpec WfSpec RunSpec RunSpecE Script.
From DTR.proofs Require Import StmtRefine StmtRefineE StmtCorollaries ExpandProof IterLogProof NoPanicProof RunRefine.
Local Open Scope nat_scope.

Local Arguments NYield {C F W} w line it c.
Local Arguments NDone {C F W} it c.
Local Arguments NErr {C F W} f it c.
Local Arguments NPanic {C F W} site.
Local Arguments NOOF {C F W}.
Local Arguments ItNone {DE} st.
Local Arguments ItRow {DE} row st.
Local Arguments ItErr {DE} e st.
Local Arguments ItPanic {DE} s.
Local Arguments ItOOF {DE}.
Local Arguments SRow {DE} row.
Local Arguments SErr {DE} e.
Local Arguments SNone {DE}.

Section RUNREFINE_E.
Variable G : gen.
Variable DE : Type.
Variable D : driver DE.
Variable w_default : bool.
Variable tc : testcase.

Local Notation snext := (Iter.snext G).
Local Notation inext := (Iter.inext G DE D w_default tc).
Local Notation rstate := (RunSpec.rstate DE).
Local Notation io_row_e := (RunSpecE.io_row_e G DE D w_default tc).
Local Notation io_rows_e := (RunSpecE.io_rows_e G DE D w_default tc).
Local Notation handler_e := (RunSpecE.run_handler_e G DE D w_default tc).
Local Notation on_err := (RunSpecE.run_on_err DE).
Local Notation outcome := (StmtSpec.outcome ctx xfail rstate).
Local Notation seen_of_e := (RunSpecE.seen_of_e DE).
Local Notation h_of := (RunRefine.h_of DE).
Local Notation remaining := (RunRefine.remaining tc).
Local Notation next_mono :=
  (StmtRefine.next_mono ctx xfail (list dentry) (lift_eval G) (lift_row_eval G) ctx_set loop_var_value
                        ctx_push_frame ctx_pop_frame ctx_reset_random_seed).

(* ------------------------------------------------------------------ the caller *)

(* the first n calls of next() of a caller that goes on after error items; it stops when None
   comes; the state is None when the model panicked or ran out of fuel *)
Fixpoint collect_e (fuel n : nat) (st : istate) : list (item_view DE) * option istate :=
  match n with
  | O => ([], Some st)
  | S n' =>
      match inext fuel st with
      | ItRow row st' => let (l, s) := collect_e fuel n' st' in (VRow row :: l, s)
      | ItErr e st' => let (l, s) := collect_e fuel n' st' in (VErr e :: l, s)
      | ItNone st' => ([VNone], Some st')
      | ItPanic _ | ItOOF => ([], None)
      end
  end.

Lemma collect_e_S : forall fuel n st, collect_e fuel (S n) st =
  match inext fuel st with
  | ItRow row st' => let (l, s) := collect_e fuel n st' in (VRow row :: l, s)
  | ItErr e st' => let (l, s) := collect_e fuel n st' in (VErr e :: l, s)
  | ItNone st' => ([VNone], Some st')
  | ItPanic _ | ItOOF => ([], None)
  end.
Proof. reflexivity. Qed.

(* the sequential reading through errors over the real evaluation context, and the model of
   StmtIterator::next_with_context driven by a caller that goes on after error items *)
Definition cexec_e :=
  exec_e ctx xfail (list dentry) (lift_eval G) (lift_row_eval G) ctx_set loop_var_value
         ctx_push_frame ctx_pop_frame ctx_reset_random_seed rstate handler_e on_err.
Definition cdrain_e :=
  drain_e ctx xfail (list dentry) (lift_eval G) (lift_row_eval G) ctx_set loop_var_value
          ctx_push_frame ctx_pop_frame ctx_reset_random_seed rstate handler_e on_err.

Lemma cdrain_e_S : forall f it c h, cdrain_e (S f) it c h =
  match snext f it c with
  | NYield w l it' c' =>
      match handler_e h (w, l) c' with
      | inl (h2, c2) => cdrain_e f it' c2 h2
      | inr h2 => Stop h2
      end
  | NDone _ c' => Fin c' h
  | NErr x it' c' =>
      match on_err h x c' with
      | inl (h2, c2) => cdrain_e f it' c2 h2
      | inr h2 => Stop h2
      end
  | NPanic s => Crash s
  | NOOF => OutOfFuel
  end.
Proof. reflexivity. Qed.

(* RunSpecE.io_rows_e over rows that carry their own line and flag *)
Fixpoint io_rows_d_e (h : rstate) (c : ctx) (rows : list dentries) : option ((rstate * ctx) + rstate) :=
  match rows with
  | [] => Some (inl (h, c))
  | d :: rest =>
      match io_row_e h c (de_entries d) (de_line d) (de_update_output d) with
      | Some (inl (h', c')) => io_rows_d_e h' c' rest
      | other => other
      end
  end.

Lemma io_rows_e_as_d : forall es l h c,
  io_rows_e h c es l =
  io_rows_d_e h c (map (fun p => {| de_entries := fst p; de_line := l; de_update_output := snd p |}) es).
Proof.
  induction es as [|[e b] es IH]; intros l h c; [reflexivity|].
  cbn [RunSpecE.io_rows_e io_rows_d_e map fst snd de_entries de_line de_update_output].
  destruct (io_row_e h c e l b) as [[[h' c']|h']|]; [apply IH|reflexivity|reflexivity].
Qed.

(* the caller of the statement iterator in the middle of a source row: first the rows that are
   left of it, then go on draining.  h0 = the handler state when the source row was yielded. *)
Definition resume_e (f : nat) (h0 : rstate) (rows : list dentries) (it : siter) (c : ctx) (h : rstate)
  : outcome :=
  match io_rows_d_e h c rows with
  | Some (inl (h', c')) => cdrain_e f it c' h'
  | Some (inr h') => Stop h'
  | None => Stop (crashed DE h0)
  end.

Lemma handler_e_resume : forall h w l c,
  handler_e h (w, l) c =
  match io_rows_d_e h c (remaining [source_row w l]) with
  | Some r => r
  | None => inr (crashed DE h)
  end.
Proof.
  intros h w l c. unfold RunSpecE.run_handler_e. cbn [fst snd]. rewrite io_rows_e_as_d.
  unfold RunRefine.remaining. cbn [flat_map]. rewrite app_nil_r.
  rewrite (spec_rows_gen_checked tc (source_row w l) eq_refl). reflexivity.
Qed.

Lemma drain_e_yield : forall f it c h w l it' c',
  snext f it c = NYield w l it' c' ->
  cdrain_e (S f) it c h = resume_e f h (remaining [source_row w l]) it' c' h.
Proof.
  intros f it c h w l it' c' Hn.
  rewrite cdrain_e_S, Hn, handler_e_resume. unfold resume_e.
  destruct (io_rows_d_e h c' (remaining [source_row w l])) as [[[h2 c2]|h2]|]; reflexivity.
Qed.

Lemma resume_e_nil : forall f h0 it c h, resume_e f h0 [] it c h = cdrain_e f it c h.
Proof. reflexivity. Qed.

Lemma seen_of_e_not_oof : forall (o : outcome) x, seen_of_e o = Some x -> o <> OutOfFuel.
Proof. intros o x H E. subst o. discriminate H. Qed.

Lemma cdrain_e_mono : forall f it c h x, seen_of_e (cdrain_e f it c h) = Some x ->
  forall f', f <= f' -> cdrain_e f' it c h = cdrain_e f it c h.
Proof.
  intros f it c h x H f' Hle. unfold cdrain_e in *.
  eapply drain_e_mono; [reflexivity| |exact Hle]. eapply seen_of_e_not_oof; exact H.
Qed.

Lemma resume_e_mono : forall f h0 rows it c h x, seen_of_e (resume_e f h0 rows it c h) = Some x ->
  forall f', f <= f' -> resume_e f' h0 rows it c h = resume_e f h0 rows it c h.
Proof.
  intros f h0 rows it c h x H f' Hle. unfold resume_e in *.
  destruct (io_rows_d_e h c rows) as [[[h2 c2]|h2]|]; try reflexivity.
  eapply cdrain_e_mono; [exact H|exact Hle].
Qed.

(* ------------------------------------------------------------------ one next() = one step of the reading *)

(* with a non-empty cache, next() pops the first of the remaining rows and does with it exactly
   what RunSpecE.io_row_e says; when the item is an error the rest of the cache and the statement
   iterator are where they would be after a row *)
Lemma inext_io_row_e : forall fuel st top cache' sn n,
  i_cache st <> [] -> prepare_cache tc (i_cache st) = Ok (top :: cache') ->
  let r := io_row_e (h_of st sn (S n)) (i_ctx st) (de_entries top) (de_line top) (de_update_output top) in
  match inext fuel st with
  | ItRow row st1 =>
      r = Some (if Nat.eqb n 0 then inr (h_of st1 (sn ++ [SRow row]) n)
                else inl (h_of st1 (sn ++ [SRow row]) n, i_ctx st1)) /\
      i_cache st1 = cache' /\ i_iter st1 = i_iter st
  | ItErr e st1 =>
      r = Some (if Nat.eqb n 0 then inr (h_of st1 (sn ++ [SErr e]) n)
                else inl (h_of st1 (sn ++ [SErr e]) n, i_ctx st1)) /\
      i_cache st1 = cache' /\ i_iter st1 = i_iter st
  | ItNone _ => False
  | ItPanic _ | ItOOF => r = None
  end.
Proof.
  intros fuel st top cache' sn n Hne Hprep. cbv zeta.
  unfold Iter.inext. rewrite IterLogProof.get_row_unfold.
  destruct (i_cache st) as [|d0 rest0] eqn:Hc; [contradiction|].
  unfold finish_row. rewrite Hc, Hprep. cbv zeta.
  unfold RunSpecE.io_row_e. cbn [RunRefine.h_of r_prev r_log r_outidx r_nout r_budget r_seen].
  destruct (generate_input_entries tc (de_entries top)
              (check_changed_entries (i_prev st) (de_entries top))) as [inputs|e|s|];
    try reflexivity.
  destruct (generate_expected_entries tc (de_entries top)) as [expected|e|s|]; try reflexivity.
  cbn [er_update_output er_inputs i_log i_ctx i_nout i_outidx].
  destruct (de_update_output top).
  - destruct (D (i_log st) (RW, inputs)) as [e|outs].
    { cbn. destruct n; cbn; auto. }
    destruct (extract_output_values G tc (i_nout st) (i_outidx st) outs
                (ctx_set_outputs (i_ctx st) (outs_map outs))) as [c2 [vals|r|s|]];
      try reflexivity.
    + cbn. destruct n; cbn; auto.
    + cbn. destruct n; cbn; auto.
  - destruct (D (i_log st) (if w_default then RW else WO, inputs)) as [e|outs].
    + cbn. destruct n; cbn; auto.
    + cbn. destruct n; cbn; auto.
Qed.

(* an error item of the statement iterator: the caller's reaction is run_on_err, and the state
   that comes with the item is the one the reading goes on from *)
Lemma on_err_h_of : forall st sn n x it' c',
  let st1 := with_iter_ctx st it' c' [] in
  on_err (h_of st sn (S n)) (XFErr x) c' =
  if Nat.eqb n 0 then inr (h_of st1 (sn ++ [SErr (IE_Runtime (RT_Expr x))]) n)
  else inl (h_of st1 (sn ++ [SErr (IE_Runtime (RT_Expr x))]) n, c').
Proof. intros st sn n x it' c'. destruct n; reflexivity. Qed.

Lemma inext_stmt_err : forall fuel st x it' c',
  i_cache st = [] -> snext fuel (i_iter st) (i_ctx st) = NErr (XFErr x) it' c' ->
  inext fuel st = ItErr (IE_Runtime (RT_Expr x)) (with_iter_ctx st it' c' []).
Proof.
  intros fuel st x it' c' Hc Hn. unfold Iter.inext.
  rewrite IterLogProof.get_row_unfold, Hc, Hn. reflexivity.
Qed.

(* ------------------------------------------------------------------ iterator ==> reading *)

Definition fwd_at (fuel n : nat) (st : istate) : Prop :=
  forall sn items st',
  collect_e fuel (S n) st = (items, Some st') ->
  exists f sn', items = map view_of_seen sn' /\
    forall h0, seen_of_e (resume_e f h0 (remaining (i_cache st)) (i_iter st) (i_ctx st) (h_of st sn (S n)))
               = Some (sn ++ sn', i_log st').

(* what follows an item that left the caller in state st1 with n calls to go *)
Lemma fwd_step : forall fuel n,
  (forall m, n = S m -> forall st, fwd_at fuel m st) ->
  forall (st st1 : istate) (sn : list (seen DE)) (s : seen DE) (v : item_view DE) top items st' l so,
  v = view_of_seen s ->
  collect_e fuel n st1 = (l, so) -> (v :: l, so) = (items, Some st') ->
  io_row_e (h_of st sn (S n)) (i_ctx st) (de_entries top) (de_line top) (de_update_output top)
    = Some (if Nat.eqb n 0 then inr (h_of st1 (sn ++ [s]) n) else inl (h_of st1 (sn ++ [s]) n, i_ctx st1)) ->
  exists f sn', items = map view_of_seen sn' /\
    forall h0, seen_of_e (resume_e f h0 (top :: remaining (i_cache st1)) (i_iter st1) (i_ctx st) (h_of st sn (S n)))
               = Some (sn ++ sn', i_log st').
Proof.
  intros fuel n IH st st1 sn s v top items st' l so Hv Hcol1 Hcol Hk. subst v.
  destruct n as [|m].
  - (* the budget is used up *)
    cbn [collect_e] in Hcol1. inversion Hcol1; subst l so. inversion Hcol; subst items st'.
    exists 0, [s]. split; [reflexivity|]. intro h0.
    unfold resume_e. cbn [io_rows_d_e]. rewrite Hk. reflexivity.
  - inversion Hcol; subst items so.
    destruct (IH m eq_refl st1 (sn ++ [s]) l st' Hcol1) as (f & sn' & Hl & Hs).
    exists f, (s :: sn'). split; [cbn [map]; rewrite Hl; reflexivity|]. intro h0.
    specialize (Hs h0). rewrite <- app_assoc in Hs. cbn [app] in Hs.
    unfold resume_e in *. cbn [io_rows_d_e]. rewrite Hk. cbn [Nat.eqb]. exact Hs.
Qed.

(* a state with a non-empty cache: one io_row_e, then what follows *)
Lemma fwd_nonempty : forall fuel n,
  (forall m, n = S m -> forall st, fwd_at fuel m st) ->
  forall st, i_cache st <> [] -> fwd_at fuel n st.
Proof.
  intros fuel n IH st Hne sn items st' Hcol.
  destruct (i_cache st) as [|row rest] eqn:Hc; [contradiction|].
  destruct (prepare_step tc row rest) as (top & mid & Hp & Hg). rewrite <- Hc in Hp.
  assert (Hne' : i_cache st <> []) by (rewrite Hc; discriminate).
  pose proof (inext_io_row_e fuel st top (mid ++ rest) sn n Hne' Hp) as Hk. cbv zeta in Hk.
  assert (Hrem : remaining (row :: rest) = top :: remaining (mid ++ rest)).
  { unfold RunRefine.remaining. cbn [flat_map]. rewrite Hg, flat_map_app. reflexivity. }
  rewrite Hrem. rewrite collect_e_S in Hcol.
  destruct (inext fuel st) as [st1|r st1|e st1|s|]; try contradiction; try discriminate Hcol.
  - destruct Hk as (Hk & Hc1 & Hi1).
    destruct (collect_e fuel n st1) as [l so] eqn:Hcol1.
    rewrite <- Hc1, <- Hi1.
    exact (fwd_step fuel n IH st st1 sn (SRow r) (VRow r) top items st' l so eq_refl Hcol1 Hcol Hk).
  - destruct Hk as (Hk & Hc1 & Hi1).
    destruct (collect_e fuel n st1) as [l so] eqn:Hcol1.
    rewrite <- Hc1, <- Hi1.
    exact (fwd_step fuel n IH st st1 sn (SErr e) (VErr e) top items st' l so eq_refl Hcol1 Hcol Hk).
Qed.

(* any state: with an empty cache the statement iterator is asked first *)
Lemma fwd_any : forall fuel n,
  (forall m, n = S m -> forall st, fwd_at fuel m st) ->
  (forall st, i_cache st <> [] -> fwd_at fuel n st) -> forall st, fwd_at fuel n st.
Proof.
  intros fuel n IH HA st.
  destruct (i_cache st) as [|row rest] eqn:Hc; [|apply HA; rewrite Hc; discriminate].
  intros sn items st' Hcol. rewrite Hc. cbn [RunRefine.remaining flat_map].
  destruct (snext fuel (i_iter st) (i_ctx st)) as [w l it' c'|it' c'|[x|s] it' c'|s|] eqn:Hn.
  - rewrite collect_e_S, (inext_refill G DE D w_default tc fuel st w l it' c' Hc Hn), <- collect_e_S in Hcol.
    destruct (HA (with_iter_ctx st it' c' [source_row w l]) ltac:(cbn; discriminate) sn _ _ Hcol)
      as (f & sn' & Hl & Hs).
    cbn [with_iter_ctx i_cache i_iter i_ctx] in Hs.
    change (RunRefine.h_of DE _ sn (S n)) with (h_of st sn (S n)) in Hs.
    exists (S (Nat.max f fuel)), sn'. split; [exact Hl|]. intro h0. rewrite resume_e_nil.
    assert (Hn' : snext (Nat.max f fuel) (i_iter st) (i_ctx st) = NYield w l it' c').
    { unfold Iter.snext in *. eapply next_mono; [exact Hn|discriminate|lia]. }
    rewrite (drain_e_yield _ _ _ _ _ _ _ _ Hn').
    specialize (Hs (h_of st sn (S n))).
    rewrite (resume_e_mono _ _ _ _ _ _ _ Hs (Nat.max f fuel) ltac:(lia)). exact Hs.
  - rewrite collect_e_S in Hcol. unfold Iter.inext in Hcol.
    rewrite IterLogProof.get_row_unfold, Hc, Hn in Hcol. inversion Hcol; subst items st'.
    exists (S fuel), [SNone]. split; [reflexivity|]. intro h0. rewrite resume_e_nil.
    rewrite cdrain_e_S, Hn. reflexivity.
  - (* an error item of the program: run_on_err, then what follows *)
    rewrite collect_e_S, (inext_stmt_err fuel st x it' c' Hc Hn) in Hcol.
    pose proof (on_err_h_of st sn n x it' c') as Hoe. cbv zeta in Hoe.
    set (st1 := with_iter_ctx st it' c' []) in *.
    destruct n as [|m].
    + cbn [collect_e] in Hcol. inversion Hcol; subst items st'.
      exists (S fuel), [SErr (IE_Runtime (RT_Expr x))]. split; [reflexivity|]. intro h0.
      rewrite resume_e_nil, cdrain_e_S, Hn, Hoe. reflexivity.
    + destruct (collect_e fuel (S m) st1) as [l so] eqn:Hcol1. inversion Hcol; subst items so.
      destruct (IH m eq_refl st1 (sn ++ [SErr (IE_Runtime (RT_Expr x))]) l st' Hcol1) as (f & sn' & Hl & Hs).
      exists (S (Nat.max f fuel)), (SErr (IE_Runtime (RT_Expr x)) :: sn').
      split; [cbn [map view_of_seen]; rewrite Hl; reflexivity|]. intro h0.
      specialize (Hs h0). rewrite <- app_assoc in Hs. cbn [app] in Hs.
      unfold st1 in Hs at 1 2 3. cbn [with_iter_ctx i_cache i_iter i_ctx RunRefine.remaining flat_map] in Hs.
      rewrite resume_e_nil in Hs. fold st1 in Hs.
      assert (Hn' : snext (Nat.max f fuel) (i_iter st) (i_ctx st) = NErr (XFErr x) it' c').
      { unfold Iter.snext in *. eapply next_mono; [exact Hn|discriminate|lia]. }
      rewrite resume_e_nil, cdrain_e_S, Hn', Hoe. cbn [Nat.eqb].
      rewrite (cdrain_e_mono _ _ _ _ _ Hs (Nat.max f fuel) ltac:(lia)). exact Hs.
  - rewrite collect_e_S in Hcol. unfold Iter.inext in Hcol.
    rewrite IterLogProof.get_row_unfold, Hc, Hn in Hcol. discriminate Hcol.
  - rewrite collect_e_S in Hcol. unfold Iter.inext in Hcol.
    rewrite IterLogProof.get_row_unfold, Hc, Hn in Hcol. discriminate Hcol.
  - rewrite collect_e_S in Hcol. unfold Iter.inext in Hcol.
    rewrite IterLogProof.get_row_unfold, Hc, Hn in Hcol. discriminate Hcol.
Qed.

Lemma collect_e_resume : forall fuel n st, fwd_at fuel n st.
Proof.
  intros fuel n. induction n as [|n IH].
  - assert (I0 : forall m, 0 = S m -> forall st, fwd_at fuel m st) by (intros m Hm; discriminate Hm).
    apply fwd_any; [exact I0|]. apply fwd_nonempty. exact I0.
  - assert (I1 : forall m, S n = S m -> forall st, fwd_at fuel m st)
      by (intros m Hm; inversion Hm; subst m; exact IH).
    apply fwd_any; [exact I1|]. apply fwd_nonempty. exact I1.
Qed.

Lemma run_spec_e_is_cexec_e : forall fuel n st0, i_prev st0 = None ->
  run_spec_e G DE D w_default tc fuel n st0 = cexec_e fuel (tc_stmts tc) (i_ctx st0) (h_of st0 [] n).
Proof. intros fuel n st0 Hp. unfold run_spec_e, cexec_e, RunRefine.h_of. rewrite Hp. reflexivity. Qed.

Theorem T_run_refines_sequential_reading_through_errors_fresh : forall fuel n st0 items st',
  fresh tc st0 -> n >= 1 ->
  collect_e fuel n st0 = (items, Some st') ->
  exists fuel' sn lg,
    seen_of_e (run_spec_e G DE D w_default tc fuel' n st0) = Some (sn, lg) /\
    items = map view_of_seen sn /\ i_log st' = lg.
Proof.
  intros fuel n st0 items st' (Hc & Hp & Hi) Hn Hcol.
  destruct n as [|n]; [lia|].
  destruct (collect_e_resume fuel n st0 [] items st' Hcol) as (f & sn & Hl & Hs).
  specialize (Hs (h_of st0 [] (S n))). rewrite Hc, Hi in Hs.
  cbn [RunRefine.remaining flat_map app] in Hs. rewrite resume_e_nil in Hs.
  destruct (sequential_reading_refines_iterator_through_errors _ _ _ _ _ _ _ _ _ _ _ _ _ _ _ _ _ _
              eq_refl (seen_of_e_not_oof _ _ Hs)) as [fuel' He].
  exists fuel', sn, (i_log st'). rewrite (run_spec_e_is_cexec_e _ _ _ Hp). unfold cexec_e.
  rewrite He. auto.
Qed.

Theorem T_run_refines_sequential_reading_through_errors : forall fuel n st0 items st',
  try_new DE D tc = NewOk DE st0 -> n >= 1 ->
  collect_e fuel n st0 = (items, Some st') ->
  exists fuel' sn lg,
    seen_of_e (run_spec_e G DE D w_default tc fuel' n st0) = Some (sn, lg) /\
    items = map view_of_seen sn /\ i_log st' = lg.
Proof.
  intros fuel n st0 items st' Hnew. apply T_run_refines_sequential_reading_through_errors_fresh.
  exact (try_new_fresh DE D tc st0 Hnew).
Qed.

(* ------------------------------------------------------------------ reading ==> iterator *)

Section CONVERSE_E.
Variable width : nat.
Hypothesis Hwf : wf_tc tc width.

Local Notation Inv := (NoPanicProof.Inv tc width).

Definition bwd_at (n : nat) (st : istate) : Prop :=
  forall f h0 sn x lg,
  seen_of_e (resume_e f h0 (remaining (i_cache st)) (i_iter st) (i_ctx st) (h_of st sn (S n))) = Some (x, lg) ->
  exists sn' st', x = sn ++ sn' /\ i_log st' = lg /\
    forall F, f <= F -> collect_e F (S n) st = (map view_of_seen sn', Some st').

(* what follows an item that left the caller in state st1 with n calls to go *)
Lemma bwd_step : forall n,
  (forall m, n = S m -> forall st, Inv st -> bwd_at m st) ->
  forall (st st1 : istate) (sn : list (seen DE)) (s : seen DE) top f h0 x lg,
  Inv st1 ->
  io_row_e (h_of st sn (S n)) (i_ctx st) (de_entries top) (de_line top) (de_update_output top)
    = Some (if Nat.eqb n 0 then inr (h_of st1 (sn ++ [s]) n) else inl (h_of st1 (sn ++ [s]) n, i_ctx st1)) ->
  seen_of_e (resume_e f h0 (top :: remaining (i_cache st1)) (i_iter st1) (i_ctx st) (h_of st sn (S n))) = Some (x, lg) ->
  exists sn' st', x = sn ++ s :: sn' /\ i_log st' = lg /\
    forall F, f <= F -> collect_e F n st1 = (map view_of_seen sn', Some st').
Proof.
  intros n IH st st1 sn s top f h0 x lg HI1 Hk Hs.
  unfold resume_e in Hs. cbn [io_rows_d_e] in Hs. rewrite Hk in Hs.
  destruct n as [|m]; cbn [Nat.eqb] in Hs.
  - cbn in Hs. inversion Hs; subst x lg. exists [], st1. split; [reflexivity|].
    split; [reflexivity|]. intros F _. reflexivity.
  - destruct (IH m eq_refl st1 HI1 f h0 (sn ++ [s]) x lg Hs) as (sn' & st' & Hx & Hl & Hcol).
    exists sn', st'. split; [rewrite Hx, <- app_assoc; reflexivity|].
    split; [exact Hl|]. exact Hcol.
Qed.

Lemma bwd_nonempty : forall n,
  (forall m, n = S m -> forall st, Inv st -> bwd_at m st) ->
  forall st, Inv st -> i_cache st <> [] -> bwd_at n st.
Proof.
  intros n IH st HI Hne f h0 sn x lg Hs.
  destruct (i_cache st) as [|row rest] eqn:Hc; [contradiction|].
  destruct (prepare_step tc row rest) as (top & mid & Hp & Hg). rewrite <- Hc in Hp.
  assert (Hne' : i_cache st <> []) by (rewrite Hc; discriminate).
  pose proof (inext_io_row_e 0 st top (mid ++ rest) sn n Hne' Hp) as Hk. cbv zeta in Hk.
  assert (Hrem : remaining (row :: rest) = top :: remaining (mid ++ rest)).
  { unfold RunRefine.remaining. cbn [flat_map]. rewrite Hg, flat_map_app. reflexivity. }
  rewrite Hrem in Hs.
  pose proof (inext_no_panic tc width Hwf G DE D w_default st HI 0) as Hnp.
  pose proof (inext_nonempty_no_oof G DE D w_default tc width Hwf 0 st HI Hne') as Hno.
  pose proof (NoPanicProof.inext_inv_all tc width Hwf G DE D w_default st 0 HI) as HI1.
  assert (Hfuel : forall F, inext F st = inext 0 st)
    by (intro F; apply inext_nonempty_fuel; exact Hne').
  destruct (inext 0 st) as [st1|r st1|e st1|s|] eqn:Hi;
    [contradiction| | |exfalso; exact (Hnp s eq_refl)|exfalso; exact (Hno eq_refl)].
  - destruct Hk as (Hk & Hc1 & Hi1). rewrite <- Hc1, <- Hi1 in Hs.
    destruct (bwd_step n IH st st1 sn (SRow r) top f h0 x lg HI1 Hk Hs) as (sn' & st' & Hx & Hl & Hcol).
    exists (SRow r :: sn'), st'. split; [exact Hx|]. split; [exact Hl|].
    intros F HF. rewrite collect_e_S, Hfuel, (Hcol F HF). reflexivity.
  - destruct Hk as (Hk & Hc1 & Hi1). rewrite <- Hc1, <- Hi1 in Hs.
    destruct (bwd_step n IH st st1 sn (SErr e) top f h0 x lg HI1 Hk Hs) as (sn' & st' & Hx & Hl & Hcol).
    exists (SErr e :: sn'), st'. split; [exact Hx|]. split; [exact Hl|].
    intros F HF. rewrite collect_e_S, Hfuel, (Hcol F HF). reflexivity.
Qed.

Lemma bwd_any : forall n,
  (forall m, n = S m -> forall st, Inv st -> bwd_at m st) ->
  (forall st, Inv st -> i_cache st <> [] -> bwd_at n st) -> forall st, Inv st -> bwd_at n st.
Proof.
  intros n IH HA st HI.
  destruct (i_cache st) as [|row rest] eqn:Hc; [|apply HA; [exact HI|rewrite Hc; discriminate]].
  intros f h0 sn x lg Hs. rewrite Hc in Hs. cbn [RunRefine.remaining flat_map] in Hs.
  rewrite resume_e_nil in Hs.
  destruct f as [|f]; [discriminate Hs|].
  assert (Hmono : forall r, snext f (i_iter st) (i_ctx st) = r -> r <> NOOF ->
                  forall F, S f <= F -> snext F (i_iter st) (i_ctx st) = r).
  { intros r Hr Hno F HF. unfold Iter.snext in *. eapply next_mono; [exact Hr|exact Hno|lia]. }
  destruct (snext f (i_iter st) (i_ctx st)) as [w l it' c'|it' c'|[e|s] it' c'|s|] eqn:Hn.
  - rewrite (drain_e_yield _ _ _ _ _ _ _ _ Hn) in Hs.
    pose proof (Inv_refill G tc width f st w l it' c' HI Hn) as HI1.
    destruct (HA _ HI1 ltac:(cbn; discriminate) f (h_of st sn (S n)) sn x lg Hs)
      as (sn' & st' & Hx & Hl & Hcol).
    exists sn', st'. split; [exact Hx|]. split; [exact Hl|]. intros F HF.
    rewrite collect_e_S,
      (inext_refill G DE D w_default tc F st w l it' c' Hc (Hmono _ eq_refl ltac:(discriminate) F HF)),
      <- collect_e_S.
    apply Hcol. lia.
  - rewrite cdrain_e_S, Hn in Hs. cbn in Hs. inversion Hs; subst x lg. exists [SNone], (with_iter_ctx st it' c' []).
    split; [reflexivity|]. split; [reflexivity|]. intros F HF.
    rewrite collect_e_S. unfold Iter.inext.
    rewrite IterLogProof.get_row_unfold, Hc, (Hmono _ eq_refl ltac:(discriminate) F HF). reflexivity.
  - (* an error item of the program *)
    pose proof (on_err_h_of st sn n e it' c') as Hoe. cbv zeta in Hoe.
    pose proof (NoPanicProof.inext_inv_all tc width Hwf G DE D w_default st f HI) as HI1.
    rewrite (inext_stmt_err f st e it' c' Hc Hn) in HI1.
    set (st1 := with_iter_ctx st it' c' []) in *.
    assert (Hin : forall F, S f <= F -> inext F st = ItErr (IE_Runtime (RT_Expr e)) st1).
    { intros F HF. apply inext_stmt_err; [exact Hc|]. apply Hmono; [reflexivity|discriminate|exact HF]. }
    rewrite cdrain_e_S, Hn, Hoe in Hs. destruct n as [|m]; cbn [Nat.eqb] in Hs.
    + cbn in Hs. inversion Hs; subst x lg.
      exists [SErr (IE_Runtime (RT_Expr e))], st1.
      split; [reflexivity|]. split; [reflexivity|]. intros F HF.
      rewrite collect_e_S, (Hin F HF). reflexivity.
    + destruct (IH m eq_refl st1 HI1 f h0 (sn ++ [SErr (IE_Runtime (RT_Expr e))]) x lg)
        as (sn' & st' & Hx & Hl & Hcol).
      { unfold st1 at 1 2 3. cbn [with_iter_ctx i_cache i_iter i_ctx RunRefine.remaining flat_map].
        rewrite resume_e_nil. exact Hs. }
      exists (SErr (IE_Runtime (RT_Expr e)) :: sn'), st'.
      split; [rewrite Hx, <- app_assoc; reflexivity|]. split; [exact Hl|]. intros F HF.
      rewrite collect_e_S, (Hin F HF), (Hcol F ltac:(lia)). reflexivity.
  - (* a panic inside an evaluation: excluded by the invariant *)
    exfalso. apply (inext_no_panic tc width Hwf G DE D w_default st HI f s).
    unfold Iter.inext. rewrite IterLogProof.get_row_unfold, Hc, Hn. reflexivity.
  - rewrite cdrain_e_S, Hn in Hs. discriminate Hs.
  - rewrite cdrain_e_S, Hn in Hs. discriminate Hs.
Qed.

Lemma resume_e_collect : forall n st, Inv st -> bwd_at n st.
Proof.
  induction n as [|n IH].
  - assert (I0 : forall m, 0 = S m -> forall st, Inv st -> bwd_at m st) by (intros m Hm; discriminate Hm).
    apply bwd_any; [exact I0|]. apply bwd_nonempty. exact I0.
  - assert (I1 : forall m, S n = S m -> forall st, Inv st -> bwd_at m st)
      by (intros m Hm; inversion Hm; subst m; exact IH).
    apply bwd_any; [exact I1|]. apply bwd_nonempty. exact I1.
Qed.

Theorem T_sequential_reading_refines_run_through_errors : forall fuel' n st0 sn lg,
  try_new DE D tc = NewOk DE st0 -> n >= 1 ->
  seen_of_e (run_spec_e G DE D w_default tc fuel' n st0) = Some (sn, lg) ->
  exists fuel st',
    collect_e fuel n st0 = (map view_of_seen sn, Some st') /\ i_log st' = lg.
Proof.
  intros fuel' n st0 sn lg Hnew Hn Hs.
  destruct (try_new_fresh DE D tc st0 Hnew) as (Hc & Hp & Hi).
  pose proof (try_new_inv tc width Hwf DE D st0 Hnew) as HI.
  destruct n as [|n]; [lia|].
  rewrite (run_spec_e_is_cexec_e _ _ _ Hp) in Hs. unfold cexec_e in Hs.
  destruct (iterator_refines_sequential_reading_through_errors _ _ _ _ _ _ _ _ _ _ _ _ _ _ _ _ _ _
              eq_refl (seen_of_e_not_oof _ _ Hs)) as [f Hd].
  rewrite <- Hd, <- Hi in Hs.
  destruct (resume_e_collect n st0 HI f (h_of st0 [] (S n)) [] sn lg) as (sn' & st' & Hx & Hl & Hcol).
  { rewrite Hc. exact Hs. }
  cbn [app] in Hx. subst sn'. exists f, st'. split; [apply Hcol; lia|exact Hl].
Qed.

(* the same with "every sufficiently large fuel" for the iterator *)
Theorem T_sequential_reading_refines_run_through_errors_any_fuel : forall fuel' n st0 sn lg,
  try_new DE D tc = NewOk DE st0 -> n >= 1 ->
  seen_of_e (run_spec_e G DE D w_default tc fuel' n st0) = Some (sn, lg) ->
  exists fuel st', i_log st' = lg /\
    forall F, fuel <= F -> collect_e F n st0 = (map view_of_seen sn, Some st').
Proof.
  intros fuel' n st0 sn lg Hnew Hn Hs.
  destruct (try_new_fresh DE D tc st0 Hnew) as (Hc & Hp & Hi).
  pose proof (try_new_inv tc width Hwf DE D st0 Hnew) as HI.
  destruct n as [|n]; [lia|].
  rewrite (run_spec_e_is_cexec_e _ _ _ Hp) in Hs. unfold cexec_e in Hs.
  destruct (iterator_refines_sequential_reading_through_errors _ _ _ _ _ _ _ _ _ _ _ _ _ _ _ _ _ _
              eq_refl (seen_of_e_not_oof _ _ Hs)) as [f Hd].
  rewrite <- Hd, <- Hi in Hs.
  destruct (resume_e_collect n st0 HI f (h_of st0 [] (S n)) [] sn lg) as (sn' & st' & Hx & Hl & Hcol).
  { rewrite Hc. exact Hs. }
  cbn [app] in Hx. subst sn'. exists f, st'. split; [exact Hl|exact Hcol].
Qed.

End CONVERSE_E.

End RUNREFINE_E.

(* ------------------------------------------------------------------ non-vacuity *)

(* the test case of RunRefine.Example_run (a let, a loop whose row holds an X and a C in input
   columns: 2 passes x 2 assignments x clock triple = 12 rows, and a plain row) with a driver
   that fails once, and a program with a let that fails; the scripted driver of Script.v *)
Module Example_run_e.
  Import Coq.Strings.String.
  Import RunRefine.Example_run.

  (* a let that fails (a division by zero) between a plain row and a row with a clock *)
  Definition src_let : string :=
    ("A B CK Y" ++ nl ++ "let a = 1;" ++ nl ++ "1 (a) 0 1" ++ nl ++ "let b = a/0;" ++ nl ++
     "0 (a+1) C X" ++ nl)%string.

  (* a while whose condition fails: the caller gets the error again and again *)
  Definition src_while : string :=
    ("A B CK Y" ++ nl ++ "1 1 0 1" ++ nl ++ "while(1/0)" ++ nl ++ "0 0 0 0" ++ nl ++ "end while" ++ nl ++
     "1 0 0 1" ++ nl)%string.

  Fixpoint err_positions {DE} (i : nat) (items : list (item_view DE)) : list nat :=
    match items with
    | [] => []
    | VErr _ :: r => i :: err_positions (S i) r
    | _ :: r => err_positions (S i) r
    end.

  (* the first n calls of next() of a caller that goes on after errors yield k items, the error
     items are at the positions errs (0-based), the driver has been called calls times (the
     constructor's call included), and the items and the driver log are those of run_spec_e *)
  Definition agrees_e (src : string) (faults : list (nat * Script.fault)) (wd : bool)
                      (fuel n k : nat) (errs : list nat) (calls : nat) : Prop :=
    match Parser.parse (s2n src) with
    | Ok p =>
        match with_signals p sigs with
        | Ok tc =>
            let D := Script.script_driver sigs (sc faults) in
            match try_new N D tc with
            | NewOk _ st0 =>
                match collect_e G N D wd tc fuel n st0,
                      RunSpecE.seen_of_e N (run_spec_e G N D wd tc fuel n st0) with
                | (items, Some st'), Some (sn, lg) =>
                    items = map view_of_seen sn /\ i_log st' = lg /\ List.length items = k /\
                    err_positions 0 items = errs /\ List.length lg = calls
                | _, _ => False
                end
            | _ => False
            end
        | _ => False
        end
    | _ => False
    end.

  (* no error: 12 + 1 rows and the final None, as in RunRefine.Example_run.run_20 *)
  Example run_e_20 : agrees_e src [] false 50 20 14 [] 14.
  Proof. vm_compute. repeat split. Qed.
  (* the driver fails at its call number 5 (the constructor's call is number 0): the write-only
     call in the middle of the second clock triple of the first pass.  The caller gets the error
     as its item number 4, and then the LAST row of that triple and the 7 + 1 rows that follow
     and None: 14 items, 14 driver calls, as without the fault *)
  Example run_e_driver_error_mid_triple : agrees_e src [(5, Script.FErr 7%N)] false 50 20 14 [4] 14.
  Proof. vm_compute. repeat split. Qed.
  (* ... and at call number 3, the last (checked) row of the first triple, that is between the
     two X assignments of the first pass *)
  Example run_e_driver_error_mid_x : agrees_e src [(3, Script.FErr 7%N)] true 50 20 14 [2] 14.
  Proof. vm_compute. repeat split. Qed.
  (* an unusable answer (its output is missing) at call number 6, a checked row *)
  Example run_e_bad_answer : agrees_e src [(6, Script.FDrop 0)] false 50 20 14 [5] 14.
  Proof. vm_compute. repeat split. Qed.
  (* the budget ends right at the error item / one item behind it *)
  Example run_e_budget_at_error : agrees_e src [(5, Script.FErr 7%N)] false 50 5 5 [4] 6.
  Proof. vm_compute. repeat split. Qed.
  Example run_e_budget_after_error : agrees_e src [(5, Script.FErr 7%N)] false 50 6 6 [4] 7.
  Proof. vm_compute. repeat split. Qed.
  (* a failing let: row, error item (no driver call), the three rows of the clock triple, None *)
  Example run_e_let_fails : agrees_e src_let [] false 50 20 6 [1] 5.
  Proof. vm_compute. repeat split. Qed.
  (* a failing let and a failing driver (call number 3: the middle of the triple) *)
  Example run_e_let_and_driver_fail : agrees_e src_let [(3, Script.FErr 7%N)] false 50 20 6 [1; 3] 5.
  Proof. vm_compute. repeat split. Qed.
  (* a failing while condition is evaluated again at every next(): the caller's budget ends it *)
  Example run_e_while_fails : agrees_e src_while [] false 50 7 7 [1; 2; 3; 4; 5; 6] 2.
  Proof. vm_compute. repeat split. Qed.
End Example_run_e.

Print Assumptions T_sequential_reading_refines_run_through_errors.
Print Assumptions T_sequential_reading_refines_run_through_errors_any_fuel.
Print Assumptions T_run_refines_sequential_reading_through_errors.
