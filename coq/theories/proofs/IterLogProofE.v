(* The ghost log of driver calls kept by Iter.v -- call accounting for a caller that KEEPS
   CALLING next() after error items (RunRefineE.collect_e), the companion of IterLogProof.v
   (whose caller stops at the first error item).
     trace_e                      : the protocol of the continuing caller: like IterLogProof.trace,
                                    but every error item is followed by more items;
     collect_e_log                : n calls of next() by the continuing caller obey trace_e;
     trace_e_calls_le_items       : never more than one driver call per item;
     trace_e_rows_verbatim        : the calls, item by item: one per row (that row's inputs), one
                                    per driver error (the failing call), one read-write call per
                                    unusable answer, none per evaluation error, none for None;
     trace_e_calls_bounds         : the two-sided count that follows (see the remark there: an
                                    exact count from the items alone is impossible);
     trace_e_rows_inputs          : the inputs of the rows are, in order, a subsequence of the
                                    inputs sent;
     collect_e_nothing_after_none : None is always the last item.
   As in IterLogProof.v there is no well-formedness hypothesis anywhere: all theorems hold for
   every generator, driver, test case, fuel and state. *)
From DTR Require Import Prelude I64 Ast FramedMap Parser Bind Eval Stmt Iter Script.
From DTR.proofs Require Import StmtRefine IterLogProof RunRefine RunRefineE.
Local Open Scope nat_scope.

Local Arguments ItNone {DE} st.
Local Arguments ItRow {DE} row st.
Local Arguments ItErr {DE} e st.
Local Arguments ItPanic {DE} s.
Local Arguments ItOOF {DE}.

(* ------------------------------------------------------------------ *)
(* subsequences, and counting *)

Inductive subseq {A : Type} : list A -> list A -> Prop :=
| SsNil : subseq [] []
| SsTake : forall x s l, subseq s l -> subseq (x :: s) (x :: l)
| SsSkip : forall x s l, subseq s l -> subseq s (x :: l).

Lemma subseq_refl : forall A (l : list A), subseq l l.
Proof. induction l; constructor; assumption. Qed.

Lemma subseq_length : forall A (s l : list A), subseq s l -> length s <= length l.
Proof. intros A s l H. induction H; cbn; lia. Qed.

Definition count_if {A : Type} (p : A -> bool) (l : list A) : nat := length (filter p l).

Lemma count_if_cons : forall A (p : A -> bool) x l,
  count_if p (x :: l) = (if p x then 1 else 0) + count_if p l.
Proof. intros A p x l. unfold count_if. cbn [filter]. destruct (p x); reflexivity. Qed.

(* the kinds of items *)
Definition is_row {DE} (v : item_view DE) : bool :=
  match v with VRow _ => true | _ => false end.
Definition is_none {DE} (v : item_view DE) : bool :=
  match v with VNone => true | _ => false end.
Definition is_driver_err {DE} (v : item_view DE) : bool :=
  match v with VErr (IE_Driver _) => true | _ => false end.
(* a runtime error that is not an evaluation error: it can only come from an unusable answer *)
Definition is_answer_err {DE} (v : item_view DE) : bool :=
  match v with
  | VErr (IE_Runtime (RT_Expr _)) => false
  | VErr (IE_Runtime _) => true
  | _ => false
  end.

Lemma view_rows_count : forall DE (items : list (item_view DE)),
  length (view_rows items) = count_if is_row items.
Proof.
  intros DE items. induction items as [|v items IH]; [reflexivity|].
  rewrite count_if_cons. unfold view_rows in *. cbn [flat_map]. rewrite app_length, IH.
  destruct v; reflexivity.
Qed.

Definition calls_of (per : list (option call)) : list call :=
  flat_map (fun oc => match oc with Some c => [c] | None => [] end) per.

Section ITERLOG_E.
Variable G : gen.
Variable DE : Type.
Variable D : driver DE.
Variable w_default : bool.
Variable tc : testcase.

Local Notation inext := (Iter.inext G DE D w_default tc).
Local Notation collect_e := (RunRefineE.collect_e G DE D w_default tc).

(* [trace_e lg items calls]: starting with the driver history lg, the items were handed to a
   caller that goes on after error items, while exactly calls were sent to the driver *)
Inductive trace_e : list call -> list (item_view DE) -> list call -> Prop :=
| TeNil : forall lg, trace_e lg [] []
| TeRow : forall lg row kind outs items calls,
    D lg (kind, dr_inputs row) = DrvOk outs ->
    (kind = WO -> w_default = false /\ dr_outputs row = []) ->
    trace_e (lg ++ [(kind, dr_inputs row)]) items calls ->
    trace_e lg (VRow row :: items) ((kind, dr_inputs row) :: calls)
| TeNone : forall lg, trace_e lg [VNone] []
| TeDriverErr : forall lg c e items calls,
    D lg c = DrvErr e ->
    trace_e (lg ++ [c]) items calls ->
    trace_e lg (VErr (IE_Driver e) :: items) (c :: calls)
| TeEvalErr : forall lg x items calls,
    trace_e lg items calls ->
    trace_e lg (VErr (IE_Runtime (RT_Expr x)) :: items) calls
| TeAnswerErr : forall lg ins outs r items calls,
    D lg (RW, ins) = DrvOk outs ->
    trace_e (lg ++ [(RW, ins)]) items calls ->
    trace_e lg (VErr (IE_Runtime r) :: items) ((RW, ins) :: calls).

(* ---------------------------------------------------------------- n calls of next() *)

Theorem collect_e_log : forall fuel n st items st',
  collect_e fuel n st = (items, Some st') ->
  exists calls, i_log st' = i_log st ++ calls /\ trace_e (i_log st) items calls.
Proof.
  intros fuel n. induction n as [|n IH]; intros st items st' H; cbn [RunRefineE.collect_e] in H.
  - inversion H; subst. exists []. rewrite app_nil_r. split; [reflexivity|constructor].
  - pose proof (inext_calls G DE D w_default tc fuel st) as Hc.
    destruct (inext fuel st) as [st1|row st1|e st1|s|]; try discriminate H.
    + inversion H; subst. exists []. rewrite app_nil_r. split; [exact Hc|constructor].
    + destruct (collect_e fuel n st1) as [l s] eqn:Hcol. inversion H; subst.
      destruct Hc as [er [st0 [Hg [Hin [Hline Hk]]]]]. cbv zeta in Hk.
      destruct Hk as [Hlog [[outs HD] Hout]].
      destruct (IH _ _ _ Hcol) as [calls [Hl Ht]].
      exists ((if er_update_output er then RW else if w_default then RW else WO, dr_inputs row)
              :: calls).
      split; [rewrite Hl, Hlog, <- app_assoc; reflexivity|].
      rewrite Hlog in Ht. eapply TeRow; eauto.
      destruct (er_update_output er); [discriminate|].
      destruct w_default; [discriminate|]. auto.
    + destruct (collect_e fuel n st1) as [l s] eqn:Hcol. inversion H; subst.
      destruct (IH _ _ _ Hcol) as [calls [Hl Ht]].
      destruct e as [e|r].
      * destruct Hc as [er [st0 [kind [Hg [Hlog HD]]]]].
        exists ((kind, er_inputs er) :: calls).
        split; [rewrite Hl, Hlog, <- app_assoc; reflexivity|].
        rewrite Hlog in Ht. eapply TeDriverErr; eauto.
      * destruct Hc as [[Hlog [x Hr]]|[er [st0 [outs [Hg [Hu [Hlog HD]]]]]]].
        -- subst r. exists calls. split; [rewrite Hl, Hlog; reflexivity|].
           rewrite Hlog in Ht. apply TeEvalErr. exact Ht.
        -- exists ((RW, er_inputs er) :: calls).
           split; [rewrite Hl, Hlog, <- app_assoc; reflexivity|].
           rewrite Hlog in Ht. eapply TeAnswerErr; eauto.
Qed.

(* ---------------------------------------------------------------- what trace_e says *)

(* never more than one call per item *)
Theorem trace_e_calls_le_items : forall lg items calls,
  trace_e lg items calls -> length calls <= length items.
Proof. intros lg items calls H. induction H; cbn [length]; lia. Qed.

(* the call that goes with one item, if any *)
Definition item_call (v : item_view DE) (oc : option call) : Prop :=
  match v with
  | VRow row =>
      match oc with
      | Some (kind, ins) => ins = dr_inputs row /\ (kind = WO -> dr_outputs row = [])
      | None => False
      end
  | VErr (IE_Driver _) => oc <> None
  | VErr (IE_Runtime r) =>
      match oc with
      | Some (kind, _) => kind = RW
      | None => exists x, r = RT_Expr x
      end
  | VNone => oc = None
  end.

(* The calls are exactly, item by item and in order: one per row item, with that row's inputs
   verbatim; one per driver-error item (the call that failed); one read-write call per
   unusable-answer item; none per evaluation-error item; none for None.  per = the call of each
   item. *)
Theorem trace_e_rows_verbatim : forall lg items calls,
  trace_e lg items calls ->
  exists per : list (option call), Forall2 item_call items per /\ calls = calls_of per.
Proof.
  intros lg items calls H. induction H as
    [lg|lg row kind outs items calls HD Hk Ht IH|lg|lg c e items calls HD Ht IH
    |lg x items calls Ht IH|lg ins outs r items calls HD Ht IH].
  - exists []. split; [constructor|reflexivity].
  - destruct IH as [per [HF Hc]]. exists (Some (kind, dr_inputs row) :: per).
    split; [constructor; [cbn; split; [reflexivity|intro Hw; apply Hk; exact Hw]|exact HF]|].
    cbn. rewrite Hc. reflexivity.
  - exists [None]. split; [repeat constructor|reflexivity].
  - destruct IH as [per [HF Hc]]. exists (Some c :: per).
    split; [constructor; [cbn; discriminate|exact HF]|]. cbn. rewrite Hc. reflexivity.
  - destruct IH as [per [HF Hc]]. exists (None :: per).
    split; [constructor; [cbn; eauto|exact HF]|]. cbn. exact Hc.
  - destruct IH as [per [HF Hc]]. exists (Some (RW, ins) :: per).
    split; [constructor; [cbn; reflexivity|exact HF]|]. cbn. rewrite Hc. reflexivity.
Qed.

(* The count.  An EXACT number of calls cannot be read off the items alone: an item
   `VErr (IE_Runtime (RT_Expr x))` is either an evaluation error of the program (no call) or an
   unusable answer -- an expression for a virtual signal that fails after the call (one call);
   see the disjunction in IterLogProof.inext_calls.  Hence the two-sided bound: every row,
   every driver error and every runtime error other than RT_Expr is a call; None never is. *)
Theorem trace_e_calls_bounds : forall lg items calls,
  trace_e lg items calls ->
  length (view_rows items) + count_if is_driver_err items + count_if is_answer_err items
    <= length calls /\
  length calls + count_if is_none items <= length items.
Proof.
  intros lg items calls H. induction H as
    [lg|lg row kind outs items calls HD Hk Ht IH|lg|lg c e items calls HD Ht IH
    |lg x items calls Ht IH|lg ins outs r items calls HD Ht IH];
    rewrite ?view_rows_count in *; rewrite ?count_if_cons; cbn [length is_row is_none
      is_driver_err is_answer_err]; try (cbn; lia).
  destruct r; cbn; lia.
Qed.

(* ... and it is exact when no item is an evaluation-shaped runtime error *)
Corollary trace_e_calls_exact : forall lg items calls,
  trace_e lg items calls ->
  (forall x, ~ In (VErr (IE_Runtime (RT_Expr x))) items) ->
  length calls = length items - count_if is_none items.
Proof.
  intros lg items calls H. induction H as
    [lg|lg row kind outs items calls HD Hk Ht IH|lg|lg c e items calls HD Ht IH
    |lg x items calls Ht IH|lg ins outs r items calls HD Ht IH]; intro Hno;
    rewrite ?count_if_cons; cbn [length is_none].
  - reflexivity.
  - pose proof (trace_e_calls_bounds _ _ _ Ht) as [_ Hb].
    rewrite IH; [lia|]. intros x Hx. apply (Hno x). right. exact Hx.
  - reflexivity.
  - pose proof (trace_e_calls_bounds _ _ _ Ht) as [_ Hb].
    rewrite IH; [lia|]. intros x Hx. apply (Hno x). right. exact Hx.
  - exfalso. apply (Hno x). left. reflexivity.
  - pose proof (trace_e_calls_bounds _ _ _ Ht) as [_ Hb].
    rewrite IH; [lia|]. intros x Hx. apply (Hno x). right. exact Hx.
Qed.

(* the inputs of the rows are, in order, among the inputs sent *)
Theorem trace_e_rows_inputs : forall lg items calls,
  trace_e lg items calls ->
  exists sub, subseq sub (map snd calls) /\ sub = map dr_inputs (view_rows items).
Proof.
  intros lg items calls H. eexists. split; [|reflexivity]. induction H as
    [lg|lg row kind outs items calls HD Hk Ht IH|lg|lg c e items calls HD Ht IH
    |lg x items calls Ht IH|lg ins outs r items calls HD Ht IH]; cbn.
  - constructor.
  - apply SsTake. exact IH.
  - constructor.
  - apply SsSkip. exact IH.
  - exact IH.
  - apply SsSkip. exact IH.
Qed.

(* None comes at most once, as the last item *)
Lemma trace_e_none_last : forall lg items calls,
  trace_e lg items calls ->
  forall i, nth_error items i = Some VNone -> i = length items - 1.
Proof.
  intros lg items calls H. induction H as
    [lg|lg row kind outs items calls HD Hk Ht IH|lg|lg c e items calls HD Ht IH
    |lg x items calls Ht IH|lg ins outs r items calls HD Ht IH]; intros i Hi.
  - destruct i; discriminate Hi.
  - destruct i as [|i]; [discriminate Hi|]. cbn in Hi. pose proof (IH i Hi) as K.
    assert (i < length items) by (apply nth_error_Some; congruence). cbn [length]. lia.
  - destruct i as [|i]; [reflexivity|]. destruct i; discriminate Hi.
  - destruct i as [|i]; [discriminate Hi|]. cbn in Hi. pose proof (IH i Hi) as K.
    assert (i < length items) by (apply nth_error_Some; congruence). cbn [length]. lia.
  - destruct i as [|i]; [discriminate Hi|]. cbn in Hi. pose proof (IH i Hi) as K.
    assert (i < length items) by (apply nth_error_Some; congruence). cbn [length]. lia.
  - destruct i as [|i]; [discriminate Hi|]. cbn in Hi. pose proof (IH i Hi) as K.
    assert (i < length items) by (apply nth_error_Some; congruence). cbn [length]. lia.
Qed.

(* ---------------------------------------------------------------- corollaries for collect_e *)

(* None is always the last item: the caller stops there *)
Theorem collect_e_nothing_after_none : forall fuel n st items st',
  collect_e fuel n st = (items, Some st') ->
  forall i, nth_error items i = Some VNone -> i = length items - 1.
Proof.
  intros fuel n st items st' H. destruct (collect_e_log _ _ _ _ _ H) as [calls [_ Ht]].
  eapply trace_e_none_last; exact Ht.
Qed.

(* the log grows by at most one call per item, and by at least one per row, driver error and
   runtime error other than RT_Expr *)
Corollary collect_e_log_length : forall fuel n st items st',
  collect_e fuel n st = (items, Some st') ->
  length (i_log st) + length (view_rows items) + count_if is_driver_err items
    + count_if is_answer_err items <= length (i_log st') /\
  length (i_log st') + count_if is_none items <= length (i_log st) + length items.
Proof.
  intros fuel n st items st' H. destruct (collect_e_log _ _ _ _ _ H) as [calls [Hl Ht]].
  destruct (trace_e_calls_bounds _ _ _ Ht) as [H1 H2]. rewrite Hl, app_length. lia.
Qed.

(* every row's inputs are sent verbatim, in order *)
Corollary collect_e_log_inputs : forall fuel n st items st',
  collect_e fuel n st = (items, Some st') ->
  exists calls, i_log st' = i_log st ++ calls /\
    subseq (map dr_inputs (view_rows items)) (map snd calls).
Proof.
  intros fuel n st items st' H. destruct (collect_e_log _ _ _ _ _ H) as [calls [Hl Ht]].
  destruct (trace_e_rows_inputs _ _ _ Ht) as [sub [Hs He]]. subst sub. exists calls. auto.
Qed.

(* if all the items are rows (the usual run), the calls are exactly the rows: the continuing
   caller and the stopping caller of IterLogProof.collect_log_rows see the same thing *)
Corollary collect_e_log_rows : forall fuel n st rows st',
  collect_e fuel n st = (map VRow rows, Some st') ->
  exists calls, i_log st' = i_log st ++ calls /\ map snd calls = map dr_inputs rows.
Proof.
  intros fuel n st rows st' H. destruct (collect_e_log _ _ _ _ _ H) as [calls [Hl Ht]].
  exists calls. split; [exact Hl|]. clear - Ht. remember (map VRow rows) as items eqn:E.
  revert rows E. induction Ht as
    [lg|lg row kind outs items calls HD Hk Ht IH|lg|lg c e items calls HD Ht IH
    |lg x items calls Ht IH|lg ins outs r items calls HD Ht IH]; intros rows E;
    destruct rows as [|r0 rows]; try discriminate E; [reflexivity|].
  cbn [map] in E. inversion E; subst. cbn. f_equal. apply IH. reflexivity.
Qed.

End ITERLOG_E.

(* ------------------------------------------------------------------ non-vacuity *)

(* collect_e_log on the runs of RunRefineE.Example_run_e (the scripted driver of Script.v) *)
Module Example_log_e.
  Import Coq.Strings.String.
  Import RunRefine.Example_run.
  Import RunRefineE.Example_run_e.

  (* leaf holds of the first n calls of next() by the continuing caller *)
  Definition on_run (src : string) (faults : list (nat * Script.fault)) (wd : bool) (fuel n : nat)
      (leaf : driver N -> testcase -> istate -> list (item_view N) -> istate -> Prop) : Prop :=
    match Parser.parse (s2n src) with
    | Ok p =>
        match with_signals p sigs with
        | Ok tc =>
            let D := Script.script_driver sigs (sc faults) in
            match try_new N D tc with
            | NewOk _ st0 =>
                match collect_e G N D wd tc fuel n st0 with
                | (items, Some st') => leaf D tc st0 items st'
                | _ => False
                end
            | _ => False
            end
        | _ => False
        end
    | _ => False
    end.

  Lemma on_run_mono : forall src faults wd fuel n (P Q : driver N -> testcase -> istate ->
                                                     list (item_view N) -> istate -> Prop),
    (forall D tc st0 items st',
       collect_e G N D wd tc fuel n st0 = (items, Some st') ->
       P D tc st0 items st' -> Q D tc st0 items st') ->
    on_run src faults wd fuel n P -> on_run src faults wd fuel n Q.
  Proof.
    intros src faults wd fuel n P Q HPQ. unfold on_run.
    destruct (Parser.parse (s2n src)) as [p|e|s|]; try (intro K; exact K).
    destruct (with_signals p sigs) as [tc|e|s|]; try (intro K; exact K).
    cbv zeta.
    destruct (try_new N (Script.script_driver sigs (sc faults)) tc) as [st0|e lg|s];
      try (intro K; exact K).
    destruct (collect_e G N (Script.script_driver sigs (sc faults)) wd tc fuel n st0)
      as [items [st'|]] eqn:Hc; try (intro K; exact K).
    apply HPQ. exact Hc.
  Qed.

  (* the conclusion of collect_e_log, with the numbers: k items, the error items at the
     positions errs, m calls after the constructor's *)
  Definition accounted (wd : bool) (k : nat) (errs : list nat) (m : nat)
      (D : driver N) (tc : testcase) (st0 : istate) (items : list (item_view N)) (st' : istate) : Prop :=
    exists calls, i_log st' = i_log st0 ++ calls /\ trace_e N D wd (i_log st0) items calls /\
      List.length items = k /\ err_positions 0 items = errs /\ List.length calls = m /\
      nth_error items (k - 1) = Some VNone.

  (* the part of it that is a computation *)
  Definition numbers (k : nat) (errs : list nat) (m : nat)
      (D : driver N) (tc : testcase) (st0 : istate) (items : list (item_view N)) (st' : istate) : Prop :=
    List.length items = k /\ err_positions 0 items = errs /\
    List.length (i_log st') = List.length (i_log st0) + m /\
    nth_error items (k - 1) = Some VNone.

  Lemma accounted_of_numbers : forall src faults wd fuel n k errs m,
    on_run src faults wd fuel n (numbers k errs m) ->
    on_run src faults wd fuel n (accounted wd k errs m).
  Proof.
    intros src faults wd fuel n k errs m. apply on_run_mono.
    intros D tc st0 items st' Hc (H1 & H2 & H3 & H4).
    destruct (collect_e_log G N D wd tc fuel n st0 items st' Hc) as [calls [Hl Ht]].
    exists calls. repeat split; auto.
    rewrite Hl, app_length in H3. lia.
  Qed.

  (* no fault: 13 rows and None; 13 calls = one per item but the final None *)
  Example log_e_20 : on_run src [] false 50 20 (accounted false 14 [] 13).
  Proof. apply accounted_of_numbers. vm_compute. repeat split. Qed.

  (* the driver fails in the middle of the second clock triple of the first pass: the error
     item (number 4) is one call, the failing one, and every later row is one call again:
     14 items, 13 calls = one per item but the final None *)
  Example log_e_driver_error_mid_triple :
    on_run src [(5, Script.FErr 7%N)] false 50 20 (accounted false 14 [4] 13).
  Proof. apply accounted_of_numbers. vm_compute. repeat split. Qed.

  (* an unusable answer is one call as well *)
  Example log_e_bad_answer :
    on_run src [(6, Script.FDrop 0)] false 50 20 (accounted false 14 [5] 13).
  Proof. apply accounted_of_numbers. vm_compute. repeat split. Qed.

  (* a let that fails is an item without a call: 6 items, 4 calls (the 4 rows) *)
  Example log_e_let_fails : on_run src_let [] false 50 20 (accounted false 6 [1] 4).
  Proof. apply accounted_of_numbers. vm_compute. repeat split. Qed.

  (* ... and with a failing driver in the middle of the triple: still 4 calls, one of them
     the failing one *)
  Example log_e_let_and_driver_fail :
    on_run src_let [(3, Script.FErr 7%N)] false 50 20 (accounted false 6 [1; 3] 4).
  Proof. apply accounted_of_numbers. vm_compute. repeat split. Qed.
End Example_log_e.

Print Assumptions collect_e_log.
Print Assumptions trace_e_calls_le_items.
Print Assumptions trace_e_rows_verbatim.
Print Assumptions trace_e_calls_bounds.
Print Assumptions trace_e_calls_exact.
Print Assumptions trace_e_rows_inputs.
Print Assumptions collect_e_nothing_after_none.
Print Assumptions collect_e_log_length.
Print Assumptions collect_e_log_inputs.
Print Assumptions collect_e_log_rows.
Print Assumptions Example_log_e.log_e_driver_error_mid_triple.
Print Assumptions Example_log_e.log_e_let_fails.
