(* C06: row values are bound to signals by header NAME, not by position; every row is a
   complete vector; defaults are never flagged as changed.
   The index vectors built by with_signals (Bind.v) and consumed by generate_*_entries
   (Iter.v) are eliminated: the generated vectors are exactly those of ByNameSpec.v. *)
From DTR Require Import Prelude I64 Ast Parser Bind Eval Stmt Iter ByNameSpec.
Local Open Scope nat_scope.

(* ------------------------------------------------------------------ R vs option *)

(* r is Ok exactly when o is Some (with the same value); otherwise r is a panic *)
Definition agrees {A} (r : R rterr A) (o : option A) : Prop :=
  match o with
  | Some a => r = Ok a
  | None => exists site, r = Panic site
  end.

Lemma agrees_iff : forall A (r : R rterr A) o, agrees r o -> forall a, r = Ok a <-> o = Some a.
Proof.
  intros A r o H a. destruct o as [b|]; cbn [agrees] in H.
  - subst r. split; intro E; inversion E; reflexivity.
  - destruct H as [site H]. subst r. split; intro E; discriminate.
Qed.

Lemma agrees_no_err : forall A (r : R rterr A) o, agrees r o -> (forall e, r <> Err e) /\ r <> OOF.
Proof.
  intros A r o H. destruct o as [b|]; cbn [agrees] in H.
  - subst r. split; [intros e E|intro E]; discriminate.
  - destruct H as [site H]. subst r. split; [intros e E|intro E]; discriminate.
Qed.

Lemma agrees_map_r_cons : forall A B (f : A -> R rterr B) x r ob ol,
  agrees (f x) ob -> agrees (map_r f r) ol ->
  agrees (map_r f (x :: r))
         (match ob, ol with Some e, Some es => Some (e :: es) | _, _ => None end).
Proof.
  intros A B f x r ob ol Hx Hr. cbn [map_r].
  destruct ob as [b|]; cbn [agrees] in Hx.
  - rewrite Hx. cbn [rbind]. destruct ol as [l|]; cbn [agrees] in Hr.
    + rewrite Hr. cbn [rbind agrees]. reflexivity.
    + destruct Hr as [site Hr]. rewrite Hr. cbn [rbind agrees]. exists site. reflexivity.
  - destruct Hx as [site Hx]. rewrite Hx. cbn [rbind agrees]. exists site. reflexivity.
Qed.

(* ------------------------------------------------------------------ the per-index functions *)

Definition in_of (tc : testcase) (entries : list dentry) (changed : list bool) (idx : entry_index)
  : R rterr in_entry :=
  match idx with
  | EIEntry entry_index signal_index =>
      rbind (get_signal tc signal_index) (fun s =>
      match nth_error entries entry_index with
      | None => Panic 32%N
      | Some d =>
          rbind (match d with
                 | DNum n => Ok (IVal (mask_value (sbits s) n))
                 | DZ => Ok IZ
                 | _ => Panic 33%N
                 end) (fun v =>
          match nth_error changed entry_index with
          | None => Panic 34%N
          | Some ch => Ok {| ie_sig := s; ie_val := v; ie_changed := ch |}
          end)
      end)
  | EIDefault signal_index => default_entry tc signal_index
  end.

Definition exp_of (tc : testcase) (entries : list dentry) (idx : entry_index) : R rterr exp_entry :=
  match idx with
  | EIEntry entry_index signal_index =>
      rbind (get_signal tc signal_index) (fun s =>
      match nth_error entries entry_index with
      | None => Panic 32%N
      | Some d =>
          match d with
          | DNum n => Ok {| xe_sig := s; xe_val := XVal (mask_value (sbits s) n) |}
          | DZ => Ok {| xe_sig := s; xe_val := XZ |}
          | DX => Ok {| xe_sig := s; xe_val := XX |}
          | _ => Panic 35%N
          end
      end)
  | EIDefault signal_index =>
      rbind (get_signal tc signal_index) (fun s => Ok {| xe_sig := s; xe_val := XX |})
  end.

Lemma generate_input_entries_eq : forall tc entries changed,
  generate_input_entries tc entries changed = map_r (in_of tc entries changed) (tc_input_indices tc).
Proof. reflexivity. Qed.

Lemma generate_expected_entries_eq : forall tc entries,
  generate_expected_entries tc entries = map_r (exp_of tc entries) (tc_expected_indices tc).
Proof. reflexivity. Qed.

Lemma generate_default_input_entries_eq : forall tc,
  generate_default_input_entries tc
  = map_r (fun idx => default_entry tc (ei_signal_index idx)) (tc_input_indices tc).
Proof. reflexivity. Qed.

(* ------------------------------------------------------------------ one index, one signal *)

Lemma header_pos_column_named : forall p n, header_pos p n = column_named (p_signals p) n.
Proof. reflexivity. Qed.

Lemma ei_signal_index_mk_index : forall pos i, ei_signal_index (mk_index pos i) = i.
Proof. intros [j|] i; reflexivity. Qed.

Lemma is_input_default : forall s, is_input s = true -> exists v, default_value s = Some v.
Proof.
  intros s H. unfold is_input in H. unfold default_value.
  destruct (styp s) as [d| |d|e]; try discriminate; exists d; reflexivity.
Qed.

Lemma in_of_agrees : forall p tc entries changed i s,
  get_signal tc i = Ok s -> is_input s = true ->
  agrees (in_of tc entries changed (mk_index (header_pos p (sname s)) i))
         (input_entry_spec (p_signals p) entries changed s).
Proof.
  intros p tc entries changed i s Hget Hin.
  unfold input_entry_spec. rewrite <- header_pos_column_named.
  destruct (header_pos p (sname s)) as [j|]; cbn [mk_index in_of].
  - rewrite Hget. cbn [rbind].
    destruct (nth_error entries j) as [d|]; [|cbn [agrees]; eexists; reflexivity].
    destruct d as [n|e|k e| | |]; cbn [rbind input_value_of];
      destruct (nth_error changed j) as [ch|]; cbn [agrees];
      try reflexivity; eexists; reflexivity.
  - unfold default_entry. rewrite Hget. cbn [rbind].
    destruct (is_input_default s Hin) as [v Hv]. rewrite Hv. cbn [agrees]. reflexivity.
Qed.

Lemma exp_of_agrees : forall p tc entries i s n,
  get_signal tc i = Ok s ->
  agrees (exp_of tc entries (mk_index (header_pos p n) i))
         (expected_entry_spec (p_signals p) entries s n).
Proof.
  intros p tc entries i s n Hget.
  unfold expected_entry_spec. rewrite <- header_pos_column_named.
  destruct (header_pos p n) as [j|]; cbn [mk_index exp_of]; rewrite Hget; cbn [rbind].
  - destruct (nth_error entries j) as [d|]; [|cbn [agrees]; eexists; reflexivity].
    destruct d as [m|e|k e| | |]; cbn [expected_value_of agrees];
      try reflexivity; eexists; reflexivity.
  - cbn [agrees]. reflexivity.
Qed.

(* ------------------------------------------------------------------ the index vectors *)

Lemma get_signal_app : forall tc pre s r,
  tc_signals tc = pre ++ s :: r -> get_signal tc (length pre) = Ok s.
Proof.
  intros tc pre s r Htc. unfold get_signal, signals. rewrite Htc.
  rewrite nth_error_app2 by lia. rewrite Nat.sub_diag. reflexivity.
Qed.

(* key lemma: the index vectors of a suffix `sigs` of the signal list, built with the
   counter standing at the length of the prefix, generate exactly the spec's vectors *)
Lemma build_indices_from_agrees : forall p tc entries changed sigs pre i ins exps,
  length pre = i ->
  tc_signals tc = pre ++ sigs ->
  build_indices_from p i sigs = (ins, exps) ->
  agrees (map_r (in_of tc entries changed) ins) (inputs_spec (p_signals p) entries changed sigs)
  /\ agrees (map_r (exp_of tc entries) exps) (expected_spec (p_signals p) entries sigs)
  /\ agrees (map_r (fun idx => default_entry tc (ei_signal_index idx)) ins) (defaults_spec sigs).
Proof.
  intros p tc entries changed.
  induction sigs as [|s r IH]; intros pre i ins exps Hlen Htc Hb.
  - cbn [build_indices_from] in Hb. inversion Hb; subst ins exps.
    cbn [map_r inputs_spec expected_spec defaults_spec agrees]. auto.
  - cbn [build_indices_from] in Hb.
    destruct (build_indices_from p (S i) r) as [ins' exps'] eqn:Hb'.
    assert (Hget : get_signal tc i = Ok s) by (subst i; eapply get_signal_app; eassumption).
    destruct (IH (pre ++ [s]) (S i) ins' exps') as [IHi [IHx IHd]].
    { rewrite app_length. cbn [length]. lia. }
    { rewrite <- app_assoc. exact Htc. }
    { exact Hb'. }
    cbn [inputs_spec expected_spec defaults_spec].
    unfold expected_column_name, is_input, default_value.
    assert (Hdef : forall d, default_value s = Some d ->
              agrees (default_entry tc (ei_signal_index (mk_index (header_pos p (sname s)) i)))
                     (Some {| ie_sig := s; ie_val := d; ie_changed := false |})).
    { intros d Hd. rewrite ei_signal_index_mk_index. unfold default_entry.
      rewrite Hget. cbn [rbind]. rewrite Hd. reflexivity. }
    unfold default_value in Hdef.
    destruct (styp s) as [d| |d|e] eqn:Ty; inversion Hb; subst ins exps; clear Hb.
    + (* input *)
      split; [|split].
      * apply agrees_map_r_cons; [|exact IHi].
        apply in_of_agrees; [exact Hget|]. unfold is_input. rewrite Ty. reflexivity.
      * exact IHx.
      * pose proof (agrees_map_r_cons _ _
            (fun idx => default_entry tc (ei_signal_index idx))
            (mk_index (header_pos p (sname s)) i) ins' (Some _) (defaults_spec r)
            (Hdef d eq_refl) IHd) as Hd'.
        destruct (defaults_spec r); exact Hd'.
    + (* output *)
      split; [exact IHi|split; [|exact IHd]].
      apply agrees_map_r_cons; [|exact IHx]. apply exp_of_agrees. exact Hget.
    + (* bidirectional *)
      split; [|split].
      * apply agrees_map_r_cons; [|exact IHi].
        apply in_of_agrees; [exact Hget|]. unfold is_input. rewrite Ty. reflexivity.
      * apply agrees_map_r_cons; [|exact IHx]. apply exp_of_agrees. exact Hget.
      * pose proof (agrees_map_r_cons _ _
            (fun idx => default_entry tc (ei_signal_index idx))
            (mk_index (header_pos p (sname s)) i) ins' (Some _) (defaults_spec r)
            (Hdef d eq_refl) IHd) as Hd'.
        destruct (defaults_spec r); exact Hd'.
    + (* virtual *)
      split; [exact IHi|split; [|exact IHd]].
      apply agrees_map_r_cons; [|exact IHx]. apply exp_of_agrees. exact Hget.
Qed.

(* ------------------------------------------------------------------ with_signals *)

Lemma with_signals_inv : forall p sigs0 tc,
  with_signals p sigs0 = Ok tc ->
  tc_signals tc = sigs0 ++ map virtual_signal (p_virtuals p)
  /\ tc_stmts tc = p_stmts p
  /\ build_indices_from p 0 (tc_signals tc) = (tc_input_indices tc, tc_expected_indices tc).
Proof.
  intros p sigs0 tc H. unfold with_signals in H.
  destruct (check_duplicate_signals p sigs0) as [u|e|site|]; cbn [rbind] in H; try discriminate.
  unfold build_indices in H.
  destruct (build_indices_from p 0 (sigs0 ++ map virtual_signal (p_virtuals p)))
    as [ins exps] eqn:Hb.
  destruct (check_missing_signals p ins exps) as [u1|e|site|]; cbn [rbind] in H; try discriminate.
  destruct (check_expected_inputs p (sigs0 ++ map virtual_signal (p_virtuals p)) (p_expected_inputs p))
    as [u2|e|site|]; cbn [rbind] in H; try discriminate.
  destruct (build_read_outputs p (sigs0 ++ map virtual_signal (p_virtuals p)) (p_read_outputs p))
    as [reads|e|site|]; cbn [rbind] in H; try discriminate.
  inversion H; subst tc; clear H.
  cbn [tc_signals tc_stmts tc_input_indices tc_expected_indices].
  auto.
Qed.

Theorem bound_signals : forall p sigs0 tc,
  with_signals p sigs0 = Ok tc ->
  tc_signals tc = sigs0 ++ map virtual_signal (p_virtuals p) /\ tc_stmts tc = p_stmts p.
Proof.
  intros p sigs0 tc H. destruct (with_signals_inv p sigs0 tc H) as [H1 [H2 _]]. auto.
Qed.

Lemma with_signals_agrees : forall p sigs0 tc entries changed,
  with_signals p sigs0 = Ok tc ->
  agrees (generate_input_entries tc entries changed)
         (inputs_spec (p_signals p) entries changed (tc_signals tc))
  /\ agrees (generate_expected_entries tc entries)
            (expected_spec (p_signals p) entries (tc_signals tc))
  /\ agrees (generate_default_input_entries tc) (defaults_spec (tc_signals tc)).
Proof.
  intros p sigs0 tc entries changed H.
  destruct (with_signals_inv p sigs0 tc H) as [_ [_ Hb]].
  rewrite generate_input_entries_eq, generate_expected_entries_eq,
    generate_default_input_entries_eq.
  apply (build_indices_from_agrees p tc entries changed (tc_signals tc) [] 0); auto.
Qed.

(* ------------------------------------------------------------------ C06: refinement *)

Theorem C06_inputs_by_name : forall p sigs0 tc entries changed l,
  with_signals p sigs0 = Ok tc ->
  (generate_input_entries tc entries changed = Ok l
   <-> inputs_spec (p_signals p) entries changed (tc_signals tc) = Some l).
Proof.
  intros p sigs0 tc entries changed l H.
  destruct (with_signals_agrees p sigs0 tc entries changed H) as [Hi _].
  apply agrees_iff. exact Hi.
Qed.

Theorem C06_inputs_never_err : forall p sigs0 tc entries changed,
  with_signals p sigs0 = Ok tc ->
  (forall e, generate_input_entries tc entries changed <> Err e)
  /\ generate_input_entries tc entries changed <> OOF.
Proof.
  intros p sigs0 tc entries changed H.
  destruct (with_signals_agrees p sigs0 tc entries changed H) as [Hi _].
  eapply agrees_no_err. exact Hi.
Qed.

Theorem C06_expected_by_name : forall p sigs0 tc entries l,
  with_signals p sigs0 = Ok tc ->
  (generate_expected_entries tc entries = Ok l
   <-> expected_spec (p_signals p) entries (tc_signals tc) = Some l).
Proof.
  intros p sigs0 tc entries l H.
  destruct (with_signals_agrees p sigs0 tc entries [] H) as [_ [Hx _]].
  apply agrees_iff. exact Hx.
Qed.

Theorem C06_expected_never_err : forall p sigs0 tc entries,
  with_signals p sigs0 = Ok tc ->
  (forall e, generate_expected_entries tc entries <> Err e)
  /\ generate_expected_entries tc entries <> OOF.
Proof.
  intros p sigs0 tc entries H.
  destruct (with_signals_agrees p sigs0 tc entries [] H) as [_ [Hx _]].
  eapply agrees_no_err. exact Hx.
Qed.

Lemma defaults_spec_total : forall sigs, exists l, defaults_spec sigs = Some l.
Proof.
  induction sigs as [|s r [l IH]]; cbn [defaults_spec].
  - exists []. reflexivity.
  - rewrite IH. destruct (default_value s) as [v|]; eexists; reflexivity.
Qed.

Theorem C06_defaults : forall p sigs0 tc,
  with_signals p sigs0 = Ok tc ->
  exists l, generate_default_input_entries tc = Ok l /\ defaults_spec (tc_signals tc) = Some l.
Proof.
  intros p sigs0 tc H.
  destruct (with_signals_agrees p sigs0 tc [] [] H) as [_ [_ Hd]].
  destruct (defaults_spec_total (tc_signals tc)) as [l Hl].
  exists l. rewrite Hl in Hd. cbn [agrees] in Hd. auto.
Qed.

(* ------------------------------------------------------------------ C06: the spec's vectors are complete *)

Lemma input_entry_spec_sig : forall hdr entries changed s e,
  input_entry_spec hdr entries changed s = Some e -> ie_sig e = s.
Proof.
  intros hdr entries changed s e H. unfold input_entry_spec in H.
  destruct (column_named hdr (sname s)) as [j|].
  - destruct (nth_error entries j) as [d|]; [|discriminate].
    destruct (nth_error changed j) as [ch|]; [|discriminate].
    destruct (input_value_of s d) as [v|]; [|discriminate].
    inversion H. reflexivity.
  - destruct (default_value s) as [v|]; [|discriminate]. inversion H. reflexivity.
Qed.

Theorem C06_inputs_complete : forall hdr entries changed sigs l,
  inputs_spec hdr entries changed sigs = Some l ->
  map ie_sig l = filter is_input sigs.
Proof.
  intros hdr entries changed.
  induction sigs as [|s r IH]; intros l H; cbn [inputs_spec filter] in *.
  - inversion H. reflexivity.
  - destruct (is_input s).
    + destruct (input_entry_spec hdr entries changed s) as [e|] eqn:He; [|discriminate].
      destruct (inputs_spec hdr entries changed r) as [es|]; [|discriminate].
      inversion H; subst l. cbn [map].
      rewrite (input_entry_spec_sig _ _ _ _ _ He), (IH es eq_refl). reflexivity.
    + apply IH. exact H.
Qed.

Lemma expected_entry_spec_sig : forall hdr entries s n e,
  expected_entry_spec hdr entries s n = Some e -> xe_sig e = s.
Proof.
  intros hdr entries s n e H. unfold expected_entry_spec in H.
  destruct (column_named hdr n) as [j|].
  - destruct (nth_error entries j) as [d|]; [|discriminate].
    destruct (expected_value_of s d) as [v|]; [|discriminate].
    inversion H. reflexivity.
  - inversion H. reflexivity.
Qed.

Theorem C06_expected_complete : forall hdr entries sigs l,
  expected_spec hdr entries sigs = Some l ->
  map xe_sig l = filter (fun s => is_output s || is_virtual s) sigs.
Proof.
  intros hdr entries.
  induction sigs as [|s r IH]; intros l H; cbn [expected_spec filter] in *.
  - inversion H. reflexivity.
  - assert (Hc : (is_output s || is_virtual s)
                 = match expected_column_name s with Some _ => true | None => false end).
    { unfold is_output, is_virtual, expected_column_name. destruct (styp s); reflexivity. }
    rewrite Hc.
    destruct (expected_column_name s) as [n|].
    + destruct (expected_entry_spec hdr entries s n) as [e|] eqn:He; [|discriminate].
      destruct (expected_spec hdr entries r) as [es|]; [|discriminate].
      inversion H; subst l. cbn [map].
      rewrite (expected_entry_spec_sig _ _ _ _ _ He), (IH es eq_refl). reflexivity.
    + apply IH. exact H.
Qed.

Lemma is_input_default_value : forall s,
  is_input s = match default_value s with Some _ => true | None => false end.
Proof. intro s. unfold is_input, default_value. destruct (styp s); reflexivity. Qed.

Theorem C06_defaults_complete : forall sigs l,
  defaults_spec sigs = Some l ->
  map ie_sig l = filter is_input sigs
  /\ Forall (fun e => ie_changed e = false /\ default_value (ie_sig e) = Some (ie_val e)) l.
Proof.
  induction sigs as [|s r IH]; intros l H; cbn [defaults_spec filter] in *.
  - inversion H. cbn [map]. auto.
  - rewrite is_input_default_value.
    destruct (default_value s) as [v|] eqn:Hv.
    + destruct (defaults_spec r) as [es|]; [|discriminate].
      inversion H; subst l. destruct (IH es eq_refl) as [IH1 IH2].
      cbn [map ie_sig]. rewrite IH1. split; [reflexivity|].
      constructor; [|exact IH2]. cbn [ie_changed ie_sig ie_val]. auto.
    + apply IH. exact H.
Qed.

(* ------------------------------------------------------------------ C06: `changed` *)

Lemma nth_error_combine : forall A B (a : list A) (b : list B) j xy,
  nth_error (combine a b) j = Some xy ->
  nth_error a j = Some (fst xy) /\ nth_error b j = Some (snd xy).
Proof.
  induction a as [|x a IH]; intros b j xy H.
  - destruct j; discriminate.
  - destruct b as [|y b]; [destruct j; discriminate|].
    destruct j as [|j]; cbn [combine nth_error] in *.
    + inversion H. auto.
    + apply IH. exact H.
Qed.

(* on an input column, equal cells carry equal values *)
Lemma input_value_of_eqb : forall s d1 d2 v1 v2,
  input_value_of s d1 = Some v1 -> input_value_of s d2 = Some v2 ->
  dentry_eqb d2 d1 = true -> v1 = v2.
Proof.
  intros s d1 d2 v1 v2 H1 H2 E.
  destruct d1 as [n1|e1|k1 e1| | |]; try discriminate;
    destruct d2 as [n2|e2|k2 e2| | |]; try discriminate; cbn [dentry_eqb input_value_of] in *.
  - apply Z.eqb_eq in E. subst n2. congruence.
  - congruence.
Qed.

Definition stable (e1 e2 : in_entry) : Prop :=
  ie_sig e1 = ie_sig e2 /\ (ie_changed e2 = false -> ie_val e1 = ie_val e2).

Lemma input_entry_spec_changed_sound : forall hdr prev entries ch0 s e1 e2,
  input_entry_spec hdr prev ch0 s = Some e1 ->
  input_entry_spec hdr entries (check_changed_entries (Some prev) entries) s = Some e2 ->
  stable e1 e2.
Proof.
  intros hdr prev entries ch0 s e1 e2 H1 H2. unfold stable.
  rewrite (input_entry_spec_sig _ _ _ _ _ H1), (input_entry_spec_sig _ _ _ _ _ H2).
  split; [reflexivity|].
  unfold input_entry_spec in H1, H2.
  destruct (column_named hdr (sname s)) as [j|].
  - destruct (nth_error prev j) as [d1|] eqn:Hd1; [|discriminate].
    destruct (nth_error ch0 j) as [c0|]; [|discriminate].
    destruct (input_value_of s d1) as [v1|] eqn:Hv1; [|discriminate].
    destruct (nth_error entries j) as [d2|] eqn:Hd2; [|discriminate].
    destruct (nth_error (check_changed_entries (Some prev) entries) j) as [ch|] eqn:Hch; [|discriminate].
    destruct (input_value_of s d2) as [v2|] eqn:Hv2; [|discriminate].
    inversion H1; subst e1. inversion H2; subst e2. cbn [ie_changed ie_val]. intro Hf. subst ch.
    cbn [check_changed_entries] in Hch.
    rewrite nth_error_map in Hch.
    destruct (nth_error (combine entries prev) j) as [xy|] eqn:Hxy; [|discriminate].
    cbn [option_map] in Hch. inversion Hch as [Hneg]. apply negb_false_iff in Hneg.
    destruct (nth_error_combine _ _ _ _ _ _ Hxy) as [Ha Hb].
    rewrite Hd2 in Ha. rewrite Hd1 in Hb. inversion Ha as [Ha']. inversion Hb as [Hb'].
    rewrite <- Ha', <- Hb' in Hneg.
    eapply input_value_of_eqb; eassumption.
  - destruct (default_value s) as [v|]; [|discriminate].
    inversion H1; subst e1. inversion H2; subst e2. reflexivity.
Qed.

Theorem C06_changed_sound : forall hdr sigs prev entries ch0 ins1 ins2,
  inputs_spec hdr prev ch0 sigs = Some ins1 ->
  inputs_spec hdr entries (check_changed_entries (Some prev) entries) sigs = Some ins2 ->
  Forall2 (fun e1 e2 => ie_sig e1 = ie_sig e2 /\ (ie_changed e2 = false -> ie_val e1 = ie_val e2))
          ins1 ins2.
Proof.
  intros hdr sigs prev entries ch0.
  induction sigs as [|s r IH]; intros ins1 ins2 H1 H2; cbn [inputs_spec] in *.
  - inversion H1. inversion H2. constructor.
  - destruct (is_input s).
    + destruct (input_entry_spec hdr prev ch0 s) as [e1|] eqn:He1; [|discriminate].
      destruct (inputs_spec hdr prev ch0 r) as [es1|]; [|discriminate].
      destruct (input_entry_spec hdr entries (check_changed_entries (Some prev) entries) s)
        as [e2|] eqn:He2; [|discriminate].
      destruct (inputs_spec hdr entries (check_changed_entries (Some prev) entries) r)
        as [es2|]; [|discriminate].
      inversion H1; subst ins1. inversion H2; subst ins2.
      constructor; [|apply IH; reflexivity].
      exact (input_entry_spec_changed_sound _ _ _ _ _ _ _ He1 He2).
    + apply IH; assumption.
Qed.

Lemma nth_error_all_true : forall A (l : list A) j ch,
  nth_error (map (fun _ => true) l) j = Some ch -> ch = true.
Proof.
  intros A l j ch H. rewrite nth_error_map in H.
  destruct (nth_error l j); cbn [option_map] in H; [|discriminate]. inversion H. reflexivity.
Qed.

Theorem C06_changed_sound_first : forall hdr sigs entries d ins,
  defaults_spec sigs = Some d ->
  inputs_spec hdr entries (check_changed_entries None entries) sigs = Some ins ->
  Forall2 (fun e1 e2 => ie_sig e1 = ie_sig e2 /\ (ie_changed e2 = false -> ie_val e1 = ie_val e2))
          d ins.
Proof.
  intros hdr sigs entries.
  induction sigs as [|s r IH]; intros d ins H1 H2; cbn [inputs_spec defaults_spec] in *.
  - inversion H1. inversion H2. constructor.
  - rewrite is_input_default_value in H2.
    destruct (default_value s) as [v|] eqn:Hv.
    + destruct (defaults_spec r) as [es1|]; [|discriminate].
      destruct (input_entry_spec hdr entries (check_changed_entries None entries) s)
        as [e2|] eqn:He2; [|discriminate].
      destruct (inputs_spec hdr entries (check_changed_entries None entries) r)
        as [es2|]; [|discriminate].
      inversion H1; subst d. inversion H2; subst ins.
      constructor; [|apply IH; reflexivity].
      cbn [ie_sig ie_val]. split; [symmetry; exact (input_entry_spec_sig _ _ _ _ _ He2)|].
      unfold input_entry_spec in He2.
      destruct (column_named hdr (sname s)) as [j|].
      * destruct (nth_error entries j) as [d2|]; [|discriminate].
        destruct (nth_error (check_changed_entries None entries) j) as [ch|] eqn:Hch; [|discriminate].
        destruct (input_value_of s d2) as [v2|]; [|discriminate].
        inversion He2; subst e2. cbn [ie_changed ie_val]. intro Hf. subst ch.
        cbn [check_changed_entries] in Hch. apply nth_error_all_true in Hch. discriminate.
      * rewrite Hv in He2. inversion He2; subst e2. reflexivity.
    + apply IH; assumption.
Qed.

Theorem C06_omitted_never_changed : forall hdr entries changed sigs l,
  inputs_spec hdr entries changed sigs = Some l ->
  forall e, In e l -> column_named hdr (sname (ie_sig e)) = None ->
    ie_changed e = false /\ default_value (ie_sig e) = Some (ie_val e).
Proof.
  intros hdr entries changed.
  induction sigs as [|s r IH]; intros l H e Hin Hcol; cbn [inputs_spec] in *.
  - inversion H; subst l. destruct Hin.
  - destruct (is_input s).
    + destruct (input_entry_spec hdr entries changed s) as [e1|] eqn:He1; [|discriminate].
      destruct (inputs_spec hdr entries changed r) as [es|]; [|discriminate].
      inversion H; subst l. destruct Hin as [Heq|Hin].
      * subst e1. pose proof (input_entry_spec_sig _ _ _ _ _ He1) as Hs.
        rewrite Hs in Hcol. unfold input_entry_spec in He1. rewrite Hcol in He1.
        destruct (default_value s) as [v|] eqn:Hv; [|discriminate].
        inversion He1; subst e. cbn [ie_changed ie_sig ie_val]. auto.
      * exact (IH es eq_refl e Hin Hcol).
    + exact (IH l H e Hin Hcol).
Qed.

(* ------------------------------------------------------------------ non-vacuity *)

(* Signal list: A (input, default 0), B (input, default Z), S (bidirectional, default 7),
   Y (output).  The header lists  Y  B  S_out  S : another order than the signal list, the
   input A omitted.  The row is  5  3  Z  9. *)
Module Example_by_name.
  Import Coq.Strings.String.
  Definition nA := s2n "A"%string. Definition nB := s2n "B"%string.
  Definition nS := s2n "S"%string. Definition nY := s2n "Y"%string.
  Definition sA := {| sname := nA; sbits := 4%N; styp := TyInput (IVal 0%Z) |}.
  Definition sB := {| sname := nB; sbits := 1%N; styp := TyInput IZ |}.
  Definition sS := {| sname := nS; sbits := 8%N; styp := TyBidir (IVal 7%Z) |}.
  Definition sY := {| sname := nY; sbits := 4%N; styp := TyOutput |}.
  Definition sigs := [sA; sB; sS; sY].
  Definition p : parsed :=
    {| p_stmts := []; p_signals := [nY; nB; nS ++ out_suffix; nS];
       p_signal_spans := [(0,1); (2,3); (4,9); (10,11)]%N;
       p_virtuals := []; p_expected_inputs := []; p_read_outputs := [] |}.
  Definition row := [DNum 5%Z; DNum 3%Z; DZ; DNum 9%Z].
  Definition changed := [true; false; true; true].

  Example bound : exists tc, with_signals p sigs = Ok tc
    /\ tc_signals tc = sigs
    /\ generate_input_entries tc row changed
       = Ok [ {| ie_sig := sA; ie_val := IVal 0%Z; ie_changed := false |};   (* omitted: default *)
              {| ie_sig := sB; ie_val := IVal 1%Z; ie_changed := false |};   (* column 1, 3 masked to 1 bit *)
              {| ie_sig := sS; ie_val := IVal 9%Z; ie_changed := true |} ]   (* column 3 *)
    /\ generate_expected_entries tc row
       = Ok [ {| xe_sig := sS; xe_val := XZ |};                              (* column 2, S_out *)
              {| xe_sig := sY; xe_val := XVal 5%Z |} ]                       (* column 0 *)
    /\ generate_default_input_entries tc
       = Ok [ {| ie_sig := sA; ie_val := IVal 0%Z; ie_changed := false |};
              {| ie_sig := sB; ie_val := IZ; ie_changed := false |};
              {| ie_sig := sS; ie_val := IVal 7%Z; ie_changed := false |} ].
  Proof. eexists. repeat split; vm_compute; reflexivity. Qed.

  Example spec_inputs : inputs_spec (p_signals p) row changed sigs
    = Some [ {| ie_sig := sA; ie_val := IVal 0%Z; ie_changed := false |};
             {| ie_sig := sB; ie_val := IVal 1%Z; ie_changed := false |};
             {| ie_sig := sS; ie_val := IVal 9%Z; ie_changed := true |} ].
  Proof. vm_compute. reflexivity. Qed.

  Example spec_expected : expected_spec (p_signals p) row sigs
    = Some [ {| xe_sig := sS; xe_val := XZ |}; {| xe_sig := sY; xe_val := XVal 5%Z |} ].
  Proof. vm_compute. reflexivity. Qed.
End Example_by_name.

Print Assumptions C06_inputs_by_name.
Print Assumptions C06_expected_by_name.
Print Assumptions C06_changed_sound.
