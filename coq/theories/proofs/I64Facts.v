(* Facts about the 64-bit arithmetic of I64.v. *)
From DTR Require Import Prelude I64.
Open Scope Z_scope.

Lemma two63_val : two63 = 2 ^ 63. Proof. reflexivity. Qed.
Lemma two64_val : two64 = 2 ^ 64. Proof. reflexivity. Qed.
Lemma two64_two63 : two64 = 2 * two63. Proof. reflexivity. Qed.

(* the i64 with the same low 64 bits as an unsigned value *)
Definition to_i64 (u : Z) : Z := if u <? two63 then u else u - two64.

Lemma wrap64_range : forall z, i64 (wrap64 z).
Proof.
  intros z. unfold i64, wrap64.
  pose proof (Z.mod_pos_bound (z + two63) two64 eq_refl) as H.
  rewrite two64_two63 in *. lia.
Qed.

Lemma wrap64_id : forall z, i64 z -> wrap64 z = z.
Proof.
  intros z [H1 H2]. unfold wrap64.
  rewrite Z.mod_small; [lia|]. rewrite two64_two63. lia.
Qed.

Lemma wrap64_congr : forall z, (wrap64 z) mod two64 = z mod two64.
Proof.
  intros z. unfold wrap64.
  rewrite Zminus_mod_idemp_l. f_equal. lia.
Qed.

(* wrap64 z is THE i64 congruent to z modulo 2^64 *)
Lemma wrap64_unique : forall z w, i64 w -> w mod two64 = z mod two64 -> wrap64 z = w.
Proof.
  intros z w Hw Hm.
  pose proof (wrap64_range z) as Hr. pose proof (wrap64_congr z) as Hc.
  rewrite <- Hm in Hc.
  unfold i64 in *. rewrite two64_two63 in *.
  assert (E : (wrap64 z - w) mod (2 * two63) = 0).
  { rewrite Zminus_mod, Hc, Z.sub_diag. reflexivity. }
  apply Z.mod_divide in E; [|unfold two63; lia]. destruct E as [k Hk].
  assert (k = 0) by (unfold two63 in *; nia). subst k. lia.
Qed.

Lemma to_i64_wrap : forall u, 0 <= u < two64 -> to_i64 u = wrap64 u.
Proof.
  intros u Hu. symmetry. apply wrap64_unique.
  - unfold to_i64, i64. rewrite two64_two63 in *. destruct (Z.ltb_spec u two63); unfold two63 in *; lia.
  - unfold to_i64. destruct (u <? two63); [reflexivity|].
    rewrite <- (Z_mod_plus_full (u - two64) 1 two64). f_equal. lia.
Qed.

Lemma to_i64_mod_i64 : forall n, i64 n -> to_i64 (n mod two64) = n.
Proof.
  intros n Hn. rewrite to_i64_wrap by (apply Z.mod_pos_bound; reflexivity).
  apply wrap64_unique; [exact Hn|]. rewrite Z.mod_mod; [reflexivity|discriminate].
Qed.

Lemma b2z_01 : forall b, b2z b = 0 \/ b2z b = 1.
Proof. destruct b; simpl; auto. Qed.

Lemma i64_b2z : forall b, i64 (b2z b).
Proof. destruct b; unfold i64, two63; simpl; lia. Qed.
